#!/bin/bash
# Build the whole framework from files on disk only (no network): regenerate the tables from
# /repo's working tree, build every Lean library and the native driver.
set -e
cd "$(dirname "$0")"
/venv/bin/python tools/extract.py
cd lean
lake build CpModel CpSpec CpProofs CpProps cpdrv
