# -*- coding: utf-8 -*-
"""Implementation-side oracles of C01/C02/C03/C05 over EVERY class the repository's own tests touch
(harvested at run time by harness.corpus): accepted inputs of ~390 classes, their parsed objects and
mutations of them.  No model is involved: this is the failing-input search / monitor part of the
checks for classes outside the Lean model."""
from harness import core, corpus, clsops, clsrun, canon
from harness.core import hx

# classes that take the whole rest of their input by design (delimited by an outer length): the
# "followed by any other bytes" clauses do not apply to them
FRAMING_NAMES = {
    'TlsRecord', 'SslRecord', 'TlsHandshakeClientHello', 'TlsHandshakeServerHello', 'TlsHandshakeHelloRetryRequest',
    'TlsHandshakeCertificate', 'TlsHandshakeServerKeyExchange', 'TlsHandshakeCertificateStatus',
    'TlsHandshakeServerHelloDone', 'TlsHandshakeCertificateRequest', 'TlsHandshakeMessageVariant',
    'SshRecordInit', 'SshRecordKexDH', 'SshRecordKexDHGroup', 'SshProtocolMessage', 'MySQLRecord', 'TPKT',
    'OpenVpnPacketWrapperTcp', 'SslRequest', 'LDAPExtendedRequestStartTLS', 'LDAPExtendedResponseStartTLS',
}


def generated_pairs(rng, tier):
    """objects of the text-field classes built by harness/gen_text.py (type-directed generators over the library's own
    constructors): [(class path, object)]"""
    try:
        from harness import gen_text
    except ImportError:
        return []
    classes = gen_text.classes()
    n = {'quick': 12, 'thorough': 300}[tier]
    out = []
    for name, gen in gen_text.GENERATORS:
        cls = classes.get(name)
        if cls is None:
            continue
        for _ in range(n):
            try:
                obj = gen(rng)
            except Exception:  # pylint: disable=broad-except
                continue
            if type(obj) is not cls and not isinstance(obj, cls):  # pylint: disable=unidiomatic-typecheck
                continue
            out.append((corpus.class_path(type(obj)), obj))
    return out


def _work_object(task):
    """C01 on a constructed object, C05 on its composition"""
    cls_path, obj, want = task
    from harness import gen_text
    cls = corpus.resolve(cls_path)
    name = cls.__name__
    out = []
    ambiguous = gen_text.is_ambiguous(obj)
    try:
        data = bytes(obj.compose())
    except Exception as exc:  # pylint: disable=broad-except
        data = None
        if 'C01' in want and not ambiguous:
            out.append(('compose:{}:{}'.format(name, type(exc).__name__),
                        '{}: compose() of a constructed object raised {} [{}]'.format(name, core.err_line(exc), canon.generic(obj)[:300]),
                        {'kind': 'textobj', 'cls': cls_path, 'repr': canon.generic(obj)[:1500]}))
    if data is None:
        return out, 1
    case = {'kind': 'corpus', 'cls': cls_path, 'data': hx(data), 'want': list(want), 'constructed': canon.generic(obj)[:1500]}
    if 'C01' in want:
        bad, _ = clsops.check_object(obj)
        if any(key.startswith('parse:') for _p, key, _m in bad):
            # a header line is delimited by the CRLF that FOLLOWS it: its own composition parses only with that lookahead
            try:
                back, n = cls.parse_immutable(data + b'\r\n')
                if n == len(data) and canon.generic(back) == canon.generic(obj):
                    bad = [('C01', 'needs-crlf:' + name, '{}: own composition {!r} is accepted only when CRLF follows it'.format(
                        name, data[:80]))]
            except Exception:  # pylint: disable=broad-except
                pass
        for _prop, key, msg in bad:
            if ambiguous and not key.startswith('needs-crlf:'):
                key = 'unrepresentable-value:' + name
                msg = msg + ' (the object carries a value the text spelling cannot represent)'
            out.append((key, msg, case))
    n = 1
    if 'C05' in want:
        for key, msg in evaluate(cls, data, ('C05',), False):
            if ambiguous:
                key = 'unrepresentable-value:' + name
            out.append((key, msg, case))
        if not ambiguous:
            for m in text_mutations(data, 'quick'):
                n += 1
                mcase = {'kind': 'corpus', 'cls': cls_path, 'data': hx(m), 'want': ['C05']}
                for key, msg in evaluate(cls, m, ('C05',), False):
                    out.append((key, msg, mcase))
    return out, n


def _work(task):
    """one corpus pair in a worker process: the input and all its mutations -> [(key, message, case)]"""
    cls_path, data, want, framing, muts = task
    cls = corpus.resolve(cls_path)
    out = []
    for m in [data] + muts:
        case = {'kind': 'corpus', 'cls': cls_path, 'data': hx(m), 'want': list(want)}
        for key, msg in evaluate(cls, m, want, framing):
            out.append((key, msg, case))
    return out, 1 + len(muts)


def run(run, want, tier):
    import multiprocessing
    import os
    import random
    pairs = list(corpus.harvest())
    try:
        from harness import gen_extra
        extra = gen_extra.pairs(random.Random(20260928) if tier == 'quick' else run.rng, tier)
        pairs += extra
        run.count('corpus', 'extra_inputs', len(extra))
    except ImportError:
        pass
    n_mut = {'quick': 6, 'thorough': 30}[tier]
    # Most of these ~390 classes are outside the Lean model and several still have recorded defects on
    # malformed input; the quick tier therefore mutates with a FIXED stream (the same inputs on every run and
    # seed, so a run is reproducible and its findings are exactly the recorded ones), the thorough tier
    # explores with the run's seed.
    rng = random.Random(20260927) if tier == 'quick' else run.rng
    classes = set()
    tasks = []
    for cls, data in pairs:
        if not cls.__module__.startswith('cryptoparser.'):
            continue        # helper classes defined by the repository's tests
        name = cls.__name__
        classes.add(name)
        if data.strip(b'\x00'):
            run.note_nontrivial((name, hx(data)))
        muts = []
        if any(w in want for w in ('C02', 'C03', 'C05')):
            muts = clsrun.mutations(rng, data, n_mut)
            if 'C02' in want or 'C03' in want:
                muts = muts + structured_mutations(data, tier)
            if 'C02' in want or 'C05' in want:
                muts = muts + text_mutations(data, tier) + json_mutations(data)
        tasks.append((corpus.class_path(cls), data, tuple(want), name in FRAMING_NAMES, muts))
    otasks = []
    if 'C01' in want or 'C05' in want:
        otasks = [(path, obj, tuple(want)) for path, obj in generated_pairs(rng, tier)]
        for path, _obj, _want in otasks:
            classes.add(path.split(':')[-1])
    workers = max(1, min(16, int(os.environ.get('VERIF_JOBS', '0')) or (os.cpu_count() or 4)))
    if workers > 1 and len(tasks) > 8:
        with multiprocessing.get_context('fork').Pool(workers) as pool:
            results = pool.map(_work, tasks, chunksize=4)
            results += pool.map(_work_object, otasks, chunksize=8)
    else:
        results = [_work(t) for t in tasks] + [_work_object(t) for t in otasks]
    run.count('corpus', 'generated_text_objects', len(otasks))
    for found, n in results:          # in corpus order: the report does not depend on scheduling
        run.evaluations += n
        for key, msg, case in found:
            run.finding(key, msg, case)
    run.count('corpus', 'classes', len(classes))
    run.count('corpus', 'inputs', len(pairs))
    run.count('corpus', 'workers', workers)
    run.notes.append('corpus: {} accepted inputs of {} classes harvested from the repository test-suite at run time, '
                     'evaluated on the implementation only (classes outside the Lean model)'.format(len(pairs), len(classes)))


def text_mutations(data, tier):
    """for text classes (printable ASCII): values made to END in a character that is also syntax - '=', ':', ',', ';',
    a blank, a quote - at the end of the input and in front of the first separators; independent of compose(), so a
    composer that trims or splits such a value is seen by the parse/compose/parse oracle"""
    if not data or len(data) > 4000 or any(b < 0x20 and b not in (0x09, 0x0d, 0x0a) or b > 0x7e for b in data):
        return []
    out = []
    tails = (b'=', b':', b'==', b'/', b'.', b'-', b'/0', b'/0/0', b'//0', b'0', b' 0')
    for t in tails:
        out.append(data + t)
    limit = 4 if tier == 'quick' else 12
    for sep in (b';', b',', b' ', b'\r\n'):
        start = 0
        for _ in range(limit):
            i = data.find(sep, start)
            if i < 0:
                break
            for t in (b'=', b':'):
                out.append(data[:i] + t + data[i:])
            start = i + len(sep)
    return out


def json_mutations(data):
    """for JSON-valued fields: syntactically valid JSON documents of every top-level kind and members of the wrong kind"""
    if not data.lstrip()[:1] == b'{':
        return []
    return [b'5', b'-1', b'1e400', b'true', b'false', b'null', b'"max_age"', b'"report_to"', b'["report_to","max_age"]', b'[]', b'{}',
            b'""', b'[{}]', b'{"max_age":null}', b'{"report_to":5,"max_age":"x"}', b'{"report_to":[],"max_age":{}}',
            b'{"report_to":"a","max_age":1e400}', b'{"report_to":"a","max_age":1,"success_fraction":"x"}',
            b'{"report_to":"a","max_age":1,"failure_fraction":[1]}', b'{"report_to":"a","max_age":true,"include_subdomains":"yes"}']


def structured_mutations(data, tier):
    """deterministic malformed variants aimed at header fields: (a) every one of the first bytes set to small
    numbers / sign-bit / all-ones (type and code bytes, length bytes); (b) wherever a big-endian field of 1..4
    bytes at offset 0..2 declares exactly the rest of the input, LENGTH-CONSISTENT truncations of that rest
    (header rewritten to the shorter length) - the inputs plain truncation cannot produce"""
    out = []
    n = len(data)
    head = min(n, 8 if tier == 'quick' else 24)
    values = (0, 1, 2, 3, 5, 6, 7, 8, 0x7f, 0x80, 0xfe, 0xff)
    for i in range(head):
        for v in values:
            if data[i] != v:
                out.append(data[:i] + bytes([v]) + data[i + 1:])
    for off in (0, 1, 2, 4, 5):
        for w in (1, 2, 3, 4):
            if off + w > n:
                continue
            declared = int.from_bytes(data[off:off + w], 'big')
            rest = n - off - w
            if declared == rest and rest > 0:
                cuts = range(rest) if rest <= 12 else list(range(6)) + [rest // 2, rest - 2, rest - 1]
                for k in cuts:
                    out.append(data[:off] + k.to_bytes(w, 'big') + data[off + w:off + w + k])
    return out


def tz_shifted(obj):
    """the same object with every aware datetime attribute moved to a non-UTC offset (same instants); None when
    the object has no such attribute"""
    import datetime
    import attr
    if not attr.has(type(obj)):
        return None
    changes = {}
    for f in attr.fields(type(obj)):
        v = getattr(obj, f.name, None)
        if isinstance(v, datetime.datetime) and v.tzinfo is not None and f.init:
            changes[f.name.lstrip('_')] = v.astimezone(datetime.timezone(datetime.timedelta(hours=5, minutes=30)))
    if not changes:
        return None
    try:
        return attr.evolve(obj, **changes)
    except Exception:  # pylint: disable=broad-except
        return None


def evaluate(cls, data, want, framing):
    out = []
    if 'C01' in want:
        try:
            obj, _ = cls.parse_immutable(bytes(data))
        except Exception:  # pylint: disable=broad-except
            obj = None
        if obj is not None and hasattr(obj, 'compose'):     # enum factories return plain enum members: parse-only
            for prop, key, msg in clsops.check_object(obj, suffix=b'\x00\x17' if framing else b'')[0]:
                out.append((key, msg))
            shifted = tz_shifted(obj)
            if shifted is not None:
                # the same instants written with another UTC offset are the same field values
                try:
                    if bytes(shifted.compose()) != bytes(obj.compose()):
                        out.append(('tz-offset:' + cls.__name__,
                                    '{}: composing the same instants given with a +05:30 offset changes the bytes'.format(cls.__name__)))
                except Exception as exc:  # pylint: disable=broad-except
                    out.append(('tz-offset:' + cls.__name__, '{}: compose with offset datetimes raised {}'.format(
                        cls.__name__, core.err_line(exc))))
    rest = tuple(w for w in want if w != 'C01')
    if rest:
        for prop, key, msg in clsops.check_input(cls, data, want=rest, framing=framing):
            if prop in rest:
                out.append((key, msg))
    return out


def replay(case):
    cls = corpus.resolve(case['cls'])
    return evaluate(cls, core.unhx(case['data']), tuple(case['want']), cls.__name__ in FRAMING_NAMES)
