# -*- coding: utf-8 -*-
"""Generators for the SSL 2.0 record layer (`SslRecord`) and its message classes (`SslErrorMessage`,
`SslHandshakeClientHello`, `SslHandshakeServerHello`).  All randomness comes from the `rng` argument.

MODELLED_GENERATORS build objects with the library's constructors, inside the constructible domain the
theorems of `lean/CpProps/C01Ssl2.lean` quantify over (`Record.wf`: every length fits its 16-bit field, the
record body fits 15 bits) — boundary sizes included (no / one / many cipher kinds, empty and 65535-byte
byte strings, record bodies of exactly 32766 and 32767 bytes).  A constructed record whose body has 2^15
bytes or more is refused by `SslRecord.compose` (InvalidValue); that refusal is exercised through the
accepted-then-recomposed path (`raw_oversize`): the shared C01 driver counts ANY refusal of compose() on a
constructed object as a finding, so such objects are kept out of the object generators.

RAW_INPUTS are wire inputs no compose() of the library produces: the 3-byte header form with padding,
headers whose record_length / padding_length disagree with what follows, every message-type byte, hello
messages with other versions, unknown cipher kinds, cipher_kinds_length not a multiple of three."""
from harness import canon_ssl2


def rbytes(rng, n):
    return bytes(rng.getrandbits(8) for _ in range(n))


def blen(rng, hi=65535):
    """length of a byte-string field: empty, the classic sizes, small, sometimes long, rarely maximal"""
    r = rng.random()
    if r < 0.25:
        return 0
    if r < 0.55:
        return rng.choice([1, 16, 32])
    if r < 0.93:
        return rng.randrange(0, 48)
    if r < 0.985:
        return rng.randrange(48, 700)
    return rng.choice([v for v in (hi, hi - 1, 32768, 255, 256) if v <= hi])


def kinds(rng, hi=21845):
    from cryptodatahub.tls.algorithm import SslCipherKind
    members = list(SslCipherKind)
    r = rng.random()
    if r < 0.15:
        n = 0
    elif r < 0.35:
        n = 1
    elif r < 0.9:
        n = rng.randrange(2, 9)
    elif r < 0.985:
        n = len(members) if rng.random() < 0.5 else rng.randrange(9, 60)
        if n == len(members):
            return list(members)
    else:
        n = rng.choice([hi, hi - 1, 5461])
    return [rng.choice(members) for _ in range(n)]


def error_message(rng):
    from cryptoparser.tls.subprotocol import SslErrorMessage, SslErrorType
    return SslErrorMessage(rng.choice(list(SslErrorType)))


def client_hello(rng, small=False):
    from cryptoparser.tls.subprotocol import SslHandshakeClientHello
    if small:
        return SslHandshakeClientHello(kinds(rng, 40), rbytes(rng, blen(rng, 300)), rbytes(rng, blen(rng, 300)))
    return SslHandshakeClientHello(kinds(rng), rbytes(rng, blen(rng)), rbytes(rng, blen(rng)))


def server_hello(rng, small=False):
    from cryptoparser.tls.subprotocol import SslHandshakeServerHello
    hi = 300 if small else 65535
    return SslHandshakeServerHello(rbytes(rng, blen(rng, hi)), kinds(rng, 40 if small else 21845),
                                   rbytes(rng, blen(rng, hi)), rng.random() < 0.5)


def message(rng, small=True):
    return rng.choice([error_message, lambda r: client_hello(r, small), lambda r: server_hello(r, small)])(rng)


def body_of_exactly(rng, body):
    """a hello message whose record body (type byte + message) has exactly `body` bytes"""
    from cryptoparser.tls.subprotocol import SslHandshakeClientHello, SslHandshakeServerHello
    ks = kinds(rng, 8)
    if rng.random() < 0.5:
        rest = body - 1 - 8 - 3 * len(ks)
        sid = rng.choice([0, 16, rest // 2])
        return SslHandshakeClientHello(ks, rbytes(rng, sid), rbytes(rng, rest - sid))
    rest = body - 1 - 10 - 3 * len(ks)
    cid = rng.choice([0, 16, rest // 3])
    return SslHandshakeServerHello(rbytes(rng, rest - cid), ks, rbytes(rng, cid), rng.random() < 0.5)


def record(rng):
    from cryptoparser.tls.record import SslRecord
    r = rng.random()
    if r < 0.04:
        # the largest bodies the 15-bit length of the 2-byte header can announce
        return SslRecord(body_of_exactly(rng, rng.choice([32767, 32767, 32766, 32512, 16384, 16383])))
    return SslRecord(message(rng))


# (model class name, generator) for the classes inside the Lean model; empty when the driver in use was built
# without `ssl2Classes` (the family then stays out of the shared drivers' way instead of producing BAD-OP lines)
ALL_GENERATORS = [
    ('SslRecord', record),
    ('SslErrorMessage', error_message),
    ('SslHandshakeClientHello', client_hello),
    ('SslHandshakeServerHello', server_hello),
]
MODELLED_GENERATORS = list(ALL_GENERATORS) if canon_ssl2.driver_has_ssl2() else []

# stream framing unit among them (C03 self-delimitation, C04 prefix rejection and reader loop)
FRAMING_MODELLED = {'SslRecord'} if MODELLED_GENERATORS else set()


# ------------------------------------------------------------------------------------------------
# raw wire inputs for SslRecord
# ------------------------------------------------------------------------------------------------

def u(n, v):
    return int(v % 256 ** n).to_bytes(n, 'big')


def raw_kinds(rng):
    """(cipher_kinds_length, bytes): mostly members, sometimes unknown codes, a length that is not a multiple
    of three, a length that disagrees with the bytes present"""
    from cryptodatahub.tls.algorithm import SslCipherKind
    members = [k.value.code for k in SslCipherKind]
    n = rng.choice([0, 1, 1, 2, 3, 5, 13])
    codes = [rng.choice(members) for _ in range(n)]
    r = rng.random()
    if r < 0.12 and codes:
        codes[rng.randrange(n)] = rng.choice([0x010081, 0xffffff, 0x000001, 0x0700c1, rng.randrange(2 ** 24)])
    data = b''.join(u(3, c) for c in codes)
    if r > 0.88:
        data += rbytes(rng, rng.choice([1, 2]))          # length not a multiple of three
    length = len(data)
    if 0.80 < r <= 0.88:
        length = max(0, length + rng.choice([-3, -2, -1, 1, 2, 3]))   # disagrees with the bytes present
    return length, data


def raw_version(rng):
    r = rng.random()
    if r < 0.6:
        return b'\x00\x02'
    if r < 0.85:
        return rng.choice([b'\x03\x00', b'\x03\x01', b'\x03\x03', b'\x03\x04', b'\x7f\x1c', b'\x7e\x02'])
    return rng.choice([b'\x00\x00', b'\x00\x01', b'\x00\x03', b'\x02\x00', b'\xff\xff', rbytes(rng, 2)])


def raw_message(rng, mtype=None):
    """(message type byte, message bytes) laid out by hand"""
    if mtype is None:
        mtype = rng.choice([0, 1, 1, 4, 4])
    if mtype == 0:
        code = rng.choice([1, 2, 3, 4, 1, 2, 3, 4, 0, 5, 0x0100, 0xffff])
        return 0, u(2, code)
    slen = rng.choice([0, 0, 1, 16, 32, rng.randrange(40)])
    clen = rng.choice([0, 16, 16, 32, rng.randrange(40)])
    klen, kdata = raw_kinds(rng)
    if mtype == 1:
        return 1, raw_version(rng) + u(2, klen) + u(2, slen) + u(2, clen) + kdata + rbytes(rng, slen) + rbytes(rng, clen)
    if mtype == 4:
        hit = rng.choice([0, 1, 1, 2, 0x80, 0xff])
        ctype = rng.choice([1, 1, 1, 1, 0, 2, 0xff])
        return 4, (u(1, hit) + u(1, ctype) + raw_version(rng) + u(2, slen) + u(2, klen) + u(2, clen) +
                   rbytes(rng, slen) + kdata + rbytes(rng, clen))
    return mtype, rbytes(rng, rng.choice([0, 1, 2, 3, 11, 30]))


def header2(length):
    return u(2, 0x8000 | (length & 0x7fff))


def header3(length, padding, escape=False):
    return u(2, (0x4000 if escape else 0) | (length & 0x3fff)) + u(1, padding)


def raw_three_byte(rng):
    """3-byte header, padding 0..255 present and counted in record_length (the protocol's layout)"""
    t, m = raw_message(rng)
    pad = rng.choice([0, 0, 1, 2, 7, 8, 15, 255, rng.randrange(256), rng.randrange(256)])
    return header3(1 + len(m) + pad, pad, rng.random() < 0.2) + u(1, t) + m + rbytes(rng, pad)


def raw_padding_short(rng):
    """3-byte header announcing more padding than is present"""
    t, m = raw_message(rng)
    pad = rng.choice([1, 2, 8, 255, rng.randrange(1, 256)])
    present = rng.randrange(0, pad)
    length = 1 + len(m) + rng.choice([pad, present, 0])
    return header3(length, pad) + u(1, t) + m + rbytes(rng, present)


def raw_length_mismatch(rng):
    """record_length smaller or larger than what the message (and padding) really take, or zero; both forms"""
    t, m = raw_message(rng)
    true = 1 + len(m)
    delta = rng.choice([-true, -true, -3, -2, -1, 1, 2, 3, 5, 40])
    extra = rbytes(rng, rng.choice([0, 0, 1, 2, 3, 5, 8, 64]))
    if rng.random() < 0.5:
        return header2(max(0, true + delta)) + u(1, t) + m + extra
    pad = rng.choice([0, 0, 1, 3, 8])
    return header3(max(0, true + pad + delta), pad) + u(1, t) + m + rbytes(rng, pad) + extra


def raw_every_type(rng):
    """every message-type byte 0..9 and 0xff, in either header form, with a consistent length"""
    mtype = rng.choice(list(range(10)) + [0xff, 0x80, 0x0a])
    t, m = raw_message(rng, mtype)
    if rng.random() < 0.6:
        return header2(1 + len(m)) + u(1, t) + m
    pad = rng.choice([0, 1, 5])
    return header3(1 + len(m) + pad, pad) + u(1, t) + m + rbytes(rng, pad)


def raw_two_byte(rng):
    """2-byte header around a hand-laid message (other versions, unknown kinds, odd lengths)"""
    t, m = raw_message(rng)
    return header2(1 + len(m)) + u(1, t) + m


def raw_oversize(rng):
    """accepted input whose message is too large to be composed again: the message parser is not confined to
    record_length, so a header announcing little (or the 14/15-bit maximum) in front of a hello message with a
    32 KB field is accepted; SslRecord.compose must then refuse (body >= 2^15)"""
    body = rng.choice([32768, 32768, 32769, 32800, 65535 + 9])
    big = body - 1 - 8
    m = b'\x00\x02' + u(2, 0) + u(2, 0) + u(2, big) + rbytes(rng, big)
    declared = rng.choice([0, 1, 9, 0x7fff])
    if rng.random() < 0.5:
        return header2(declared) + u(1, 1) + m
    return header3(min(declared, 0x3fff), 0) + u(1, 1) + m


def raw_any(rng):
    r = rng.random()
    if r < 0.28:
        return raw_three_byte(rng)
    if r < 0.42:
        return raw_padding_short(rng)
    if r < 0.64:
        return raw_length_mismatch(rng)
    if r < 0.80:
        return raw_every_type(rng)
    if r < 0.96:
        return raw_two_byte(rng)
    return raw_oversize(rng)


def raw_message_bytes(mtype):
    def gen(rng):
        return raw_message(rng, mtype)[1]
    return gen


RAW_INPUTS = [
    ('SslRecord', raw_any),
    ('SslRecord', raw_three_byte),
    ('SslRecord', raw_length_mismatch),
    ('SslErrorMessage', raw_message_bytes(0)),
    ('SslHandshakeClientHello', raw_message_bytes(1)),
    ('SslHandshakeServerHello', raw_message_bytes(4)),
] if MODELLED_GENERATORS else []
