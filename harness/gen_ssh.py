# -*- coding: utf-8 -*-
"""Type-directed generators of SSH objects, built with the library's own constructors.
All randomness comes from the `rng` argument."""
import string

# stream framing units for the shared class-level checks (C03 self-delimitation, C04 prefix rejection / reader).
# The identification string is self-delimiting (it ends at its first line feed) but its prefixes are InvalidValue,
# pinned by the repository's tests: C04 records that as the known findings prefix-error:SshProtocolMessage:InvalidValue
# and reader-error:SshProtocolMessage:InvalidValue (C07 `banner_prefix_reject_full_fails`).
FRAMING = {'SshRecordInit', 'SshRecordKexDH', 'SshRecordKexDHGroup', 'SshProtocolMessage'}


NAME_CHARS = ''.join(c for c in string.printable[:94] if c != ',')   # printable, no blank, no comma


def rbytes(rng, n):
    return bytes(rng.getrandbits(8) for _ in range(n))


def rlen(rng, hi):
    r = rng.random()
    if r < 0.2:
        return 0
    if r < 0.5:
        return rng.randrange(0, min(hi, 4) + 1)
    if r < 0.9:
        return rng.randrange(0, min(hi, 40) + 1)
    return rng.randrange(0, hi + 1)


def boundary_int(rng, max_bytes=40):
    """integers whose bit length sits on a byte boundary: 8k-1, 8k, 8k+1 bits, all-ones, powers of two"""
    r = rng.random()
    if r < 0.08:
        return rng.choice([0, 1, 127, 128, 255, 256, 65535, 65536, 65537])
    k = rng.randrange(1, max_bytes + 1)
    bits = max(1, 8 * k + rng.choice([-1, 0, 1]))
    kind = rng.random()
    if kind < 0.25:
        return 1 << (bits - 1)
    if kind < 0.5:
        return (1 << bits) - 1
    return (1 << (bits - 1)) | rng.getrandbits(bits - 1)


def mpint_body(value):
    """RFC 4251 mpint data bytes of a non-negative integer"""
    if value == 0:
        return b''
    raw = value.to_bytes((value.bit_length() + 7) // 8, 'big')
    return b'\x00' + raw if raw[0] & 0x80 else raw


def unknown_name(rng, enum_class):
    known = {m.value.code for m in enum_class}
    while True:
        n = rng.choice([1, 1, 2, 5, 12, 30, 64])
        kind = rng.random()
        if kind < 0.4:
            base = rng.choice(list(known))
            text = rng.choice([base + '@example.com', base[:-1], base + 'x', base.upper(), 'x' + base])
        else:
            text = ''.join(rng.choice(NAME_CHARS) for _ in range(n))
        if text and ',' not in text and text not in known:
            return text


def names(rng, enum_class, hi=6):
    members = list(enum_class)
    out = []
    for _ in range(rng.choice([0, 1, 1, 2, 3, rng.randrange(hi + 1)])):
        out.append(unknown_name(rng, enum_class) if rng.random() < 0.3 else rng.choice(members))
    return out


def algorithm_vector(vector_name):
    def gen(rng):
        from cryptoparser.ssh import subprotocol as sp
        cls = getattr(sp, vector_name)
        return cls(names(rng, cls.get_item_class(), 8))
    return gen


def language_tags(rng):
    from cryptoparser.common.classes import LanguageTag
    if rng.random() < 0.7:
        return []
    out = []
    for _ in range(rng.randrange(1, 3)):
        primary = rng.choice(['en', 'de', 'i', 'x', 'abcdefgh', 'HU'])
        sub = [rng.choice(['US', 'klingon', '1996', 'a1b2c3d4']) for _ in range(rng.randrange(0, 3))]
        out.append(LanguageTag(primary, sub))
    return out


def language_vector(rng):
    from cryptoparser.ssh.subprotocol import SshLanguageVector
    return SshLanguageVector(language_tags(rng))


def kexinit(rng):
    from cryptodatahub.ssh.algorithm import (SshKexAlgorithm, SshHostKeyAlgorithm, SshEncryptionAlgorithm,
                                             SshMacAlgorithm, SshCompressionAlgorithm)
    from cryptoparser.ssh.subprotocol import SshKeyExchangeInit
    return SshKeyExchangeInit(
        kex_algorithms=names(rng, SshKexAlgorithm),
        host_key_algorithms=names(rng, SshHostKeyAlgorithm),
        encryption_algorithms_client_to_server=names(rng, SshEncryptionAlgorithm),
        encryption_algorithms_server_to_client=names(rng, SshEncryptionAlgorithm),
        mac_algorithms_client_to_server=names(rng, SshMacAlgorithm),
        mac_algorithms_server_to_client=names(rng, SshMacAlgorithm),
        compression_algorithms_client_to_server=names(rng, SshCompressionAlgorithm, 3),
        compression_algorithms_server_to_client=names(rng, SshCompressionAlgorithm, 3),
        languages_client_to_server=language_tags(rng),
        languages_server_to_client=language_tags(rng),
        first_kex_packet_follows=rng.random() < 0.3,
        cookie=rbytes(rng, 16),
        reserved=rng.choice([0, 0, 0, 1, 2 ** 32 - 1, rng.getrandbits(32)]),
    )


def disconnect(rng):
    from cryptoparser.ssh.subprotocol import SshDisconnectMessage, SshReasonCode
    desc = rng.choice(['', 'bye', 'Too many authentication failures', 'árvíztűrő tükörfúrógép', '€\U0001f600 x',
                       ''.join(rng.choice(string.printable[:95]) for _ in range(rlen(rng, 80)))])
    lang = rng.choice(['', 'US', 'en', 'en-US', 'hu'])
    return SshDisconnectMessage(rng.choice(list(SshReasonCode)), desc, lang)


def unimplemented(rng):
    from cryptoparser.ssh.subprotocol import SshUnimplementedMessage
    return SshUnimplementedMessage(rng.choice([0, 1, 2 ** 31, 2 ** 32 - 1, rng.getrandbits(32)]))


def dh_bytes(rng):
    r = rng.random()
    if r < 0.6:
        return mpint_body(boundary_int(rng, 64))
    if r < 0.7:
        return mpint_body(boundary_int(rng, 512))
    return rbytes(rng, rlen(rng, 300))


def dh_init(rng):
    from cryptoparser.ssh.subprotocol import SshDHKeyExchangeInit
    return SshDHKeyExchangeInit(dh_bytes(rng))


def gex_init(rng):
    from cryptoparser.ssh.subprotocol import SshDHGroupExchangeInit
    return SshDHGroupExchangeInit(dh_bytes(rng))


def gex_request(rng):
    from cryptoparser.ssh.subprotocol import SshDHGroupExchangeRequest
    pick = lambda: rng.choice([0, 1024, 2048, 3072, 8192, 2 ** 32 - 1, rng.getrandbits(32)])  # noqa: E731
    return SshDHGroupExchangeRequest(pick(), pick(), pick())


def gex_group(rng):
    from cryptoparser.ssh.subprotocol import SshDHGroupExchangeGroup
    return SshDHGroupExchangeGroup(dh_bytes(rng), rng.choice([b'\x02', b'\x05', b'', dh_bytes(rng)]))


def new_keys(rng):
    from cryptoparser.ssh.subprotocol import SshNewKeys
    return SshNewKeys()


def key_rsa(rng):
    from cryptodatahub.common.key import PublicKey, PublicKeyParamsRsa
    from cryptodatahub.ssh.algorithm import SshHostKeyAlgorithm
    from cryptoparser.ssh.key import SshHostKeyRSA
    algo = rng.choice(list(SshHostKeyRSA.get_host_key_algorithms()))
    return SshHostKeyRSA(algo, PublicKey.from_params(PublicKeyParamsRsa(
        modulus=boundary_int(rng, rng.choice([8, 128, 256, 512])), public_exponent=rng.choice([3, 17, 65537, boundary_int(rng, 4)]))))


def key_dss(rng):
    from cryptodatahub.common.key import PublicKey, PublicKeyParamsDsa
    from cryptoparser.ssh.key import SshHostKeyDSS
    algo = rng.choice(list(SshHostKeyDSS.get_host_key_algorithms()))
    return SshHostKeyDSS(algo, PublicKey.from_params(PublicKeyParamsDsa(
        prime=boundary_int(rng, 128), generator=boundary_int(rng, 128), order=boundary_int(rng, 20),
        public_key_value=boundary_int(rng, 128))))


def key_eddsa(rng):
    from cryptodatahub.common.algorithm import NamedGroup
    from cryptodatahub.common.key import PublicKey, PublicKeyParamsEddsa
    from cryptoparser.ssh.key import SshHostKeyEDDSA
    algo = rng.choice(list(SshHostKeyEDDSA.get_host_key_algorithms()))
    return SshHostKeyEDDSA(algo, PublicKey.from_params(PublicKeyParamsEddsa(
        curve_type=NamedGroup.CURVE25519, key_data=rbytes(rng, rng.choice([32, 32, 32, 57, 0, 1])))))


def key_ecdsa(rng):
    from cryptodatahub.common.key import PublicKey, PublicKeyParamsEcdsa
    from cryptodatahub.ssh.algorithm import SshEllipticCurveIdentifier
    from cryptoparser.ssh.key import SshHostKeyECDSA
    algo = rng.choice(list(SshHostKeyECDSA.get_host_key_algorithms()))
    curve = rng.choice(list(SshEllipticCurveIdentifier))
    size = rng.choice([32, 48, 66, 21])
    # both coordinates of full width with a leading byte of at least 2: the only region where asn1crypto's
    # floating-point from_coords is certain to give the bytes back
    x = int.from_bytes(bytes([rng.randrange(2, 256)]) + rbytes(rng, size - 1), 'big')
    y = int.from_bytes(bytes([rng.randrange(2, 256)]) + rbytes(rng, size - 1), 'big')
    return SshHostKeyECDSA(algo, PublicKey.from_params(PublicKeyParamsEcdsa(curve.value.named_group, x, y)))


def host_key(rng):
    return rng.choice([key_rsa, key_rsa, key_dss, key_eddsa, key_ecdsa])(rng)


def host_key_variant(rng):
    return host_key(rng)


def dh_reply(rng):
    from cryptoparser.ssh.subprotocol import SshDHKeyExchangeReply
    return SshDHKeyExchangeReply(host_key(rng), dh_bytes(rng), rbytes(rng, rlen(rng, 100)))


def gex_reply(rng):
    from cryptoparser.ssh.subprotocol import SshDHGroupExchangeReply
    return SshDHGroupExchangeReply(host_key(rng), dh_bytes(rng), rbytes(rng, rlen(rng, 100)))


def sized_message(rng, size):
    """a DH init message whose composed length is exactly `size` (>= 5)"""
    from cryptoparser.ssh.subprotocol import SshDHKeyExchangeInit
    return SshDHKeyExchangeInit(rbytes(rng, size - 5))


def record_init(rng):
    from cryptoparser.ssh.record import SshRecordInit
    return SshRecordInit(rng.choice([kexinit, kexinit, disconnect, unimplemented])(rng))


def record_kexdh(rng):
    from cryptoparser.ssh.record import SshRecordKexDH
    r = rng.random()
    if r < 0.3:
        # every residue mod 8 around multiples of 8 (small, one block, 256, 4096)
        base = rng.choice([8, 16, 24, 32, 40, 256, 4096])
        return SshRecordKexDH(sized_message(rng, max(5, base + rng.randrange(-8, 9))))
    return SshRecordKexDH(rng.choice([kexinit, disconnect, unimplemented, dh_init, dh_reply, new_keys])(rng))


def record_gex(rng):
    from cryptoparser.ssh.record import SshRecordKexDHGroup
    return SshRecordKexDHGroup(rng.choice([kexinit, disconnect, unimplemented, gex_request, gex_group, gex_init,
                                           gex_reply, new_keys])(rng))


def software_version(rng):
    from cryptoparser.ssh import version as sv
    r = rng.random()
    text = ''.join(rng.choice(NAME_CHARS + ',') for _ in range(rng.randrange(1, 20)))
    if r < 0.4:
        for vendor in ('cryptlib', 'Monaca'):
            if text == vendor:
                text += 'x'
        for vendor in ('dropbear', 'OpenSSH'):
            if text.split('_')[0] == vendor:
                text = 'x' + text
        if text.split('-')[0] == 'IPSSH':
            text = 'x' + text
        return sv.SshSoftwareVersionUnparsed(text)
    if r < 0.5:
        return sv.SshSoftwareVersionCryptlib()
    if r < 0.55:
        return sv.SshSoftwareVersionMonacaSSH()
    cls = rng.choice([sv.SshSoftwareVersionOpenSSH, sv.SshSoftwareVersionDropbear, sv.SshSoftwareVersionIPSSH])
    if rng.random() < 0.2:
        return cls()
    sep = cls._get_version_separator()  # pylint: disable=protected-access
    version = rng.choice(['8.9p1', '2022.83', '6.6.0', '7.4', text]).lstrip(sep)
    return cls(version or '1')


def protocol_version(rng):
    from cryptoparser.ssh.version import SshProtocolVersion, SshVersion
    return SshProtocolVersion(rng.choice(list(SshVersion)), rng.choice([0, 0, 99, 5, 1, 10 ** 9]))


def sized_banner(rng, total, with_comment):
    """an identification string that composes to exactly `total` bytes (CR LF included)"""
    from cryptoparser.ssh.subprotocol import SshProtocolMessage
    from cryptoparser.ssh.version import SshProtocolVersion, SshSoftwareVersionUnparsed, SshVersion
    fixed = len('SSH-2.0-') + 2
    room = total - fixed
    if with_comment:
        comment = ''.join(rng.choice(NAME_CHARS) for _ in range(rng.randrange(1, 20)))
        software = 'x' * (room - len(comment) - 1)
    else:
        comment = None
        software = 'x' * room
    return SshProtocolMessage(SshProtocolVersion(SshVersion.SSH2, 0), SshSoftwareVersionUnparsed(software), comment)


def banner(rng):
    from cryptoparser.ssh.subprotocol import SshProtocolMessage
    if rng.random() < 0.2:
        # 253, 254 and 255 bytes, the RFC 4253 maximum (256 is refused by compose(): see c07's probe)
        return sized_banner(rng, rng.choice([253, 254, 255]), rng.random() < 0.5)
    r = rng.random()
    if r < 0.5:
        comment = None
    elif r < 0.65:
        # blanks are part of the comment: runs of spaces, a trailing or leading blank, a tab (RFC 4253 4.2: the
        # comment is everything behind the first space)
        comment = rng.choice(['FIPS  build 2024-01-01', 'two  spaces', 'trailing ', ' leading', 'tab\tseparated', 'a   b  c', '  '])
    else:
        comment = ' '.join(''.join(rng.choice(NAME_CHARS + ',') for _ in range(rng.randrange(1, 12)))
                           for _ in range(rng.randrange(1, 4)))
    return SshProtocolMessage(protocol_version(rng), software_version(rng), comment)


ALL_GENERATORS = [
    ('SshKexAlgorithmVector', algorithm_vector('SshKexAlgorithmVector')),
    ('SshHostKeyAlgorithmVector', algorithm_vector('SshHostKeyAlgorithmVector')),
    ('SshEncryptionAlgorithmVector', algorithm_vector('SshEncryptionAlgorithmVector')),
    ('SshMacAlgorithmVector', algorithm_vector('SshMacAlgorithmVector')),
    ('SshCompressionAlgorithmVector', algorithm_vector('SshCompressionAlgorithmVector')),
    ('SshLanguageVector', language_vector),
    ('SshKeyExchangeInit', kexinit),
    ('SshDisconnectMessage', disconnect),
    ('SshUnimplementedMessage', unimplemented),
    ('SshDHKeyExchangeInit', dh_init),
    ('SshDHGroupExchangeInit', gex_init),
    ('SshDHKeyExchangeReply', dh_reply),
    ('SshDHGroupExchangeReply', gex_reply),
    ('SshDHGroupExchangeRequest', gex_request),
    ('SshDHGroupExchangeGroup', gex_group),
    ('SshNewKeys', new_keys),
    ('SshRecordInit', record_init),
    ('SshRecordKexDH', record_kexdh),
    ('SshRecordKexDHGroup', record_gex),
    ('SshProtocolVersion', protocol_version),
    ('SshProtocolMessage', banner),
    ('SshHostKeyRSA', key_rsa),
    ('SshHostKeyDSS', key_dss),
    ('SshHostKeyECDSA', key_ecdsa),
    ('SshHostKeyEDDSA', key_eddsa),
    ('SshHostPublicKeyVariant', host_key_variant),
]


def cert_option(rng, critical):
    from cryptoparser.ssh import key as sk
    r = rng.random()
    if r < 0.3:
        known = {m.value.code for m in sk.SshCertExtensionName}
        name = rng.choice(['x@example.com', 'verify-required', 'xpermit-pty', 'no-touch-required', 'a'])
        assert name not in known
        return sk.SshCertExtensionUnparsed(name, rbytes(rng, rlen(rng, 20)))
    if critical and r < 0.45:
        # a source-address option the library cannot read as networks (host bits set, junk): it is kept verbatim as an
        # unparsed option, so the certificate blob - and with it every fingerprint - must stay what is on the wire
        return sk.SshCertExtensionUnparsed('source-address', rng.choice([
            b'192.168.1.10/24', b'10.0.0.1/8,192.168.0.0/16', b'2001:db8::1/32', b'192.168.1.0/24,2001:db8::dead:beef/64',
            b'not-an-address', b'192.168.1.1/33']))
    if critical:
        return sk.SshCertExtensionForceCommand(rng.choice(['ls', '/bin/true', '', 'echo "a b"']))
    return rng.choice([sk.SshCertExtensionNoPrecenseRequired, sk.SshCertExtensionPermitX11Forwarding,
                       sk.SshCertExtensionPermitAgentForwarding, sk.SshCertExtensionPermitPortForwarding,
                       sk.SshCertExtensionPermitPTY, sk.SshCertExtensionPermitUserRC])()


MAX_EPOCH_SECONDS = 253402300799        # 9999-12-31T23:59:59Z (Lean: maxEpochSeconds)


def certificate(kind):
    def gen(rng):
        import datetime
        import dateutil.tz
        from cryptodatahub.ssh.algorithm import SshHostKeyAlgorithm
        from cryptoparser.ssh import key as sk
        cls = getattr(sk, 'SshHostCertificateV01' + kind)
        plain = {'RSA': key_rsa, 'DSS': key_dss, 'ECDSA': key_ecdsa, 'EDDSA': key_eddsa}[kind](rng)
        def stamp():
            # 0, 2^32-1 and ordinary instants, and - the fields are 64 bits wide - instants beyond 32 bits up to the last
            # second a datetime carries; in UTC, as the same instant in a zone with a non-UTC offset, or naive
            secs = rng.choice([0, 0, 1, 1600000000, 2 ** 31 - 1, 2 ** 31, 2 ** 32 - 1, 2 ** 32 - 1, rng.getrandbits(32),
                               2 ** 32, 2 ** 32 + 5, 7258118400, MAX_EPOCH_SECONDS, MAX_EPOCH_SECONDS - 1,
                               rng.randrange(2 ** 32, MAX_EPOCH_SECONDS + 1)])
            t = datetime.datetime(1970, 1, 1, tzinfo=dateutil.tz.UTC) + datetime.timedelta(seconds=secs)
            if rng.random() < 0.4:
                offsets = [datetime.timedelta(hours=-5)]
                if secs < MAX_EPOCH_SECONDS - 86400:       # a positive offset would leave the calendar at its very end
                    offsets += [datetime.timedelta(hours=1), datetime.timedelta(hours=5, minutes=30)]
                t = t.astimezone(datetime.timezone(rng.choice(offsets)))
            elif rng.random() < 0.25:
                t = t.replace(tzinfo=None)      # naive: the library takes it as UTC at construction
            return t

        return cls(
            host_key_algorithm=rng.choice(list(cls.get_host_key_algorithms())),
            public_key=plain.public_key,
            nonce=rbytes(rng, rng.choice([0, 16, 32])),
            serial=rng.choice([0, 1, 2 ** 63, 2 ** 64 - 1, rng.getrandbits(64)]),
            certificate_type=rng.choice(list(sk.SshCertType)),
            key_id=rng.choice(['', 'host.example.com', 'user@host', 'id with spaces']),
            valid_principals=[sk.SshString(rng.choice(['root', 'host.example.com', '', 'a,b']))
                              for _ in range(rng.choice([0, 0, 1, 2, 3]))],
            valid_after=stamp(),
            valid_before=None if rng.random() < 0.3 else stamp(),     # None is 2^64-1, "forever"
            critical_options=[cert_option(rng, True) for _ in range(rng.choice([0, 0, 1, 2]))],
            extensions=[cert_option(rng, False) for _ in range(rng.choice([0, 1, 3, 6]))],
            reserved=rbytes(rng, rng.choice([0, 0, 0, 3])),
            signature_key=rng.choice([key_rsa, key_eddsa, key_dss])(rng),
            signature=sk.SshCertSignature(rng.choice([SshHostKeyAlgorithm.SSH_RSA, SshHostKeyAlgorithm.RSA_SHA2_512,
                                                      SshHostKeyAlgorithm.SSH_ED25519]), rbytes(rng, rlen(rng, 80))),
        )
    return gen


def option_vector(critical):
    def gen(rng):
        from cryptoparser.ssh import key as sk
        cls = sk.SshCertCriticalOptionVector if critical else sk.SshCertExtensionVector
        return cls([cert_option(rng, critical) for _ in range(rng.choice([0, 1, 2, 5]))])
    return gen


def principals(rng):
    from cryptoparser.ssh import key as sk
    return sk.SshCertValidPrincipals([sk.SshString(rng.choice(['root', 'h', '', 'a.b-c']))
                                      for _ in range(rng.choice([0, 1, 2, 4]))])


def variant_init(rng):
    return rng.choice([kexinit, disconnect, unimplemented])(rng)


def variant_kexdh(rng):
    return rng.choice([kexinit, disconnect, unimplemented, dh_init, dh_reply, new_keys])(rng)


def variant_gex(rng):
    return rng.choice([kexinit, disconnect, unimplemented, gex_request, gex_group, gex_init, gex_reply, new_keys])(rng)


ALL_GENERATORS += [
    ('SshMessageVariantInit', variant_init),
    ('SshMessageVariantKexDH', variant_kexdh),
    ('SshMessageVariantKexDHGroup', variant_gex),
    ('SshHostCertificateV01RSA', certificate('RSA')),
    ('SshHostCertificateV01DSS', certificate('DSS')),
    ('SshHostCertificateV01ECDSA', certificate('ECDSA')),
    ('SshHostCertificateV01EDDSA', certificate('EDDSA')),
    ('SshCertCriticalOptionVector', option_vector(True)),
    ('SshCertExtensionVector', option_vector(False)),
    ('SshCertValidPrincipals', principals),
]

def raw_certificate(kind):
    """certificate wire forms no compose() produces: the 64-bit validity fields hold the all-ones value (valid_after:
    InvalidValue; valid_before: no limit), values beyond 32 bits, the last second of a datetime and the values after it
    (InvalidValue, never reduced into range); also cut right behind the field, so that the ORDER of the checks shows"""
    def gen(rng):
        import datetime
        import dateutil.tz
        cert = certificate(kind)(rng)
        epoch = datetime.datetime(1970, 1, 1, tzinfo=dateutil.tz.UTC)
        marks = (0x3a12345678, 0x3a9abcdef0)          # two second counts whose eight bytes are found again in the wire form
        cert.valid_after = epoch + datetime.timedelta(seconds=marks[0])
        cert.valid_before = epoch + datetime.timedelta(seconds=marks[1])
        data = bytes(cert.compose())
        pos = [data.find(m.to_bytes(8, 'big')) for m in marks]
        if min(pos) < 0 or pos[1] != pos[0] + 8 or data.count(marks[0].to_bytes(8, 'big')) != 1:
            return data
        values = [2 ** 64 - 1, 2 ** 64 - 1, 2 ** 64 - 2, 2 ** 63, 2 ** 32, 7258118400, MAX_EPOCH_SECONDS, MAX_EPOCH_SECONDS + 1,
                  rng.randrange(2 ** 32, MAX_EPOCH_SECONDS + 1), rng.randrange(MAX_EPOCH_SECONDS + 1, 2 ** 64), 0, 1600000000]
        after = rng.choice(values)
        before = rng.choice(values)
        if rng.random() < 0.3:
            before = marks[1]
        elif rng.random() < 0.3:
            after = rng.choice([0, 2 ** 32, 7258118400])
        out = data[:pos[0]] + after.to_bytes(8, 'big') + before.to_bytes(8, 'big') + data[pos[1] + 8:]
        r = rng.random()
        if r < 0.15:
            return out[:pos[0] + 8]                    # ends right behind valid_after
        if r < 0.3:
            return out[:pos[1] + 8]                    # ends right behind valid_before
        return out
    return gen


RAW_INPUTS = [
    ('SshHostCertificateV01RSA', raw_certificate('RSA')),
    ('SshHostCertificateV01DSS', raw_certificate('DSS')),
    ('SshHostCertificateV01ECDSA', raw_certificate('ECDSA')),
    ('SshHostCertificateV01EDDSA', raw_certificate('EDDSA')),
]

MODELLED_GENERATORS = list(ALL_GENERATORS)
FRAMING_MODELLED = set(FRAMING)
