# -*- coding: utf-8 -*-
"""Canonical renderings of the DNS record-data objects; they coincide character for character with
`lean/CpModel/Dns/Canon.lean`.  `canon.Unmodelled` is raised for what the Lean model declares outside
its boundary: labels that leave the ASCII fast path of the `idna` codec, and EC coordinates whose
asn1crypto point size comes out of a float logarithm too close to a power of 256 (RSA moduli and DSA
primes are sized with bit_length() and are inside the model whatever their value)."""
import calendar

from harness import core
from harness.canon import Unmodelled, c_list
from harness.core import hx

GROUP_INDEX = {'SECP256K1': 0, 'SECP384R1': 1, 'GC256B': 2}
CURVE_INDEX = {'CURVE25519': 0, 'CURVE448': 1}


def float_risk(v):
    """`CpModel.Dns.floatRisk`: v >= 2^32 within a relative 2^-32 of a power of 256"""
    if v < 2 ** 32:
        return False
    n = (v.bit_length() + 7) // 8
    t = 256 ** (n - 1)
    return (v - t) * 2 ** 32 <= t or (256 * t - v) * 2 ** 32 <= 256 * t


def label_bytes(label):
    if isinstance(label, (bytes, bytearray)):
        raise Unmodelled('bytes label')
    try:
        b = label.encode('ascii')
    except UnicodeError:
        raise Unmodelled('non-ASCII label')
    if b'xn--' in b.lower():
        raise Unmodelled('ACE label')
    return b


def c_labels(name):
    return c_list([hx(label_bytes(l)) for l in name.labels])


def c_name(name):
    return 'DnsNameUncompressed({})'.format(c_labels(name))


def c_mx(m):
    return 'DnsRecordMx({},{})'.format(m.priority, c_labels(m.exchange))


def c_alg(a):
    return 'E{}'.format(a.value.code)


def c_ds(d):
    return 'DnsRecordDs({},{},{},{})'.format(d.key_tag, c_alg(d.algorithm), c_alg(d.digest_type), hx(d.digest))


def c_type_covered(t):
    from cryptoparser.dnsrec.record import DnsRrTypePrivate
    if isinstance(t, DnsRrTypePrivate):
        return 'P{}'.format(t.value)
    return 'E{}'.format(t.value.code)


def epoch(dt):
    return calendar.timegm(dt.utctimetuple())


def c_rrsig(r):
    return 'DnsRecordRrsig(' + ','.join([
        c_type_covered(r.type_covered), c_alg(r.algorithm), str(r.labels), str(r.original_ttl),
        str(epoch(r.signature_expiration)), str(epoch(r.signature_inception)), str(r.key_tag),
        c_labels(r.signers_name), hx(r.signature)]) + ')'


def c_txt(t):
    try:
        return 'DnsRecordTxt({})'.format(hx(t.value.encode('ascii')))
    except UnicodeError:
        raise Unmodelled('non-ASCII TXT')


def c_key(key):
    from cryptodatahub.common.algorithm import Authentication
    kt = key.key_type
    p = key.params
    if kt == Authentication.RSA:
        return 'Rsa({},{})'.format(p.public_exponent, p.modulus)
    if kt == Authentication.DSS:
        return 'Dsa({},{},{},{})'.format(p.prime, p.generator, p.order, p.public_key_value)
    if kt == Authentication.ECDSA:
        if p.named_group.name not in GROUP_INDEX:
            raise Unmodelled('group')
        if float_risk(p.point_x) or float_risk(p.point_y):
            raise Unmodelled('float key size')
        return 'Ec({},{},{})'.format(GROUP_INDEX[p.named_group.name], p.point_x, p.point_y)
    if kt == Authentication.EDDSA:
        return 'Eddsa({},{})'.format(CURVE_INDEX[p.curve_type.name], hx(bytes(p.key_data)))
    raise Unmodelled(str(kt))


def c_dnskey(k):
    return 'DnsRecordDnskey({},{},{},{})'.format(
        c_list([str(int(f)) for f in sorted(k.flags)]), c_alg(k.algorithm), c_key(k.key), k.protocol.value)


_HAS_DNS = None


def driver_has_dns():
    """The DNS classes take part in the class-level correspondence only when the driver that is in use
    was built with them (`CLASSES` lists them)."""
    global _HAS_DNS  # pylint: disable=global-statement
    if _HAS_DNS is None:
        try:
            out = core.run_driver(['CLASSES'])
            _HAS_DNS = 'DnsRecordDnskey' in out[0].split(' ')
        except Exception:  # pylint: disable=broad-except
            _HAS_DNS = False
    return _HAS_DNS


def modelled():
    """lean class name -> (python class, canon function)"""
    if not driver_has_dns():
        return {}
    from cryptoparser.dnsrec import record as rec
    return {
        'DnsNameUncompressed': (rec.DnsNameUncompressed, c_name),
        'DnsRecordMx': (rec.DnsRecordMx, c_mx),
        'DnsRecordDs': (rec.DnsRecordDs, c_ds),
        'DnsRecordRrsig': (rec.DnsRecordRrsig, c_rrsig),
        'DnsRecordTxt': (rec.DnsRecordTxt, c_txt),
        'DnsRecordDnskey': (rec.DnsRecordDnskey, c_dnskey),
        'DnsRrTypePrivate': (rec.DnsRrTypePrivate, lambda t: 'DnsRrTypePrivate({})'.format(t.value)),
    }
