# -*- coding: utf-8 -*-
"""Canonical renderings of implementation objects.

`generic(obj)` — a structural, order-defined rendering of ANY library object (used by the
implementation-side oracles to decide "equal, field by field"; several composable classes are not
attrs classes and inherit identity comparison, so Python `==` cannot be used).

`MODELLED[name] = (python class, canon function)` — the renderings that must coincide character for
character with `CpModel/Tls/Canon.lean` (and its siblings) for the classes inside the Lean model.
"""
import datetime
import enum

import attr

from harness.core import hx


def generic(obj, depth=0):
    from cryptoparser.common.base import ArrayBase
    if depth > 40:
        return '<deep>'
    if obj is None:
        return '~'
    if isinstance(obj, bool):
        return 'T' if obj else 'F'
    if isinstance(obj, enum.Enum):
        return 'E:{}.{}'.format(type(obj).__name__, obj.name)
    if isinstance(obj, int):
        return str(obj)
    if isinstance(obj, float):
        return repr(obj)
    if isinstance(obj, str):
        return 's' + hx(obj.encode('utf-8', 'surrogatepass'))
    if isinstance(obj, (bytes, bytearray)):
        return 'b' + hx(obj)
    if isinstance(obj, datetime.datetime):
        # an aware datetime is its instant; a NAIVE one is rendered distinctly (`dtn`): the library takes a datetime
        # without zone as UTC at construction and at parse, so an attribute that still holds a naive value differs from
        # what parsing its own composition gives, and must not be rendered as if it were the UTC instant
        if obj.tzinfo is None:
            delta = obj - datetime.datetime(1970, 1, 1)
            return 'dtn{}'.format(delta // datetime.timedelta(microseconds=1))
        delta = obj - datetime.datetime(1970, 1, 1, tzinfo=datetime.timezone.utc)
        return 'dt{}'.format(delta // datetime.timedelta(microseconds=1))
    if isinstance(obj, datetime.timedelta):
        return 'td{}'.format(obj // datetime.timedelta(microseconds=1))
    if isinstance(obj, (set, frozenset)):
        return '{' + ','.join(sorted(generic(x, depth + 1) for x in obj)) + '}'
    if isinstance(obj, dict):
        return '{' + ','.join('{}:{}'.format(generic(k, depth + 1), generic(v, depth + 1)) for k, v in obj.items()) + '}'
    if isinstance(obj, ArrayBase):
        return type(obj).__name__ + '[' + ','.join(generic(x, depth + 1) for x in obj) + ']'
    if isinstance(obj, (list, tuple)):
        return '[' + ','.join(generic(x, depth + 1) for x in obj) + ']'
    if type(obj).__module__.startswith('asn1crypto') and hasattr(obj, 'dump'):
        return 'der' + hx(obj.dump())
    if attr.has(type(obj)):
        fields = [(f.name, getattr(obj, f.name)) for f in attr.fields(type(obj))]
        if type(obj).__name__ == 'TlsHandshakeHelloRandom':
            # gmt_unix_time is naive BY DESIGN on both sides (constructor and parser; test_handshake pins it): it is the
            # UTC wall clock of the instant, rendered as that instant whether or not a zone is attached
            fields = [(k, v.replace(tzinfo=datetime.timezone.utc)
                       if k == 'time' and isinstance(v, datetime.datetime) and v.tzinfo is None else v) for k, v in fields]
        extra = sorted((k, v) for k, v in getattr(obj, '__dict__', {}).items()
                       if k not in {n for n, _ in fields} and not k.startswith('__'))
        return type(obj).__name__ + '(' + ','.join(
            '{}={}'.format(k, generic(v, depth + 1)) for k, v in fields + extra) + ')'
    if hasattr(obj, '__dict__') and type(obj).__module__.startswith(('cryptoparser', 'cryptodatahub')):
        return type(obj).__name__ + '(' + ','.join(
            '{}={}'.format(k, generic(v, depth + 1)) for k, v in sorted(obj.__dict__.items())) + ')'
    return type(obj).__name__ + ':' + repr(obj)


# ------------------------------------------------------------------------------------------------
# renderings shared with the Lean model
# ------------------------------------------------------------------------------------------------

def c_list(items):
    return '[' + ','.join(items) + ']'


def c_bool(b):
    return 'T' if b else 'F'


def c_coded(item):
    from cryptoparser.tls.grease import TlsInvalidTypeBase
    if isinstance(item, TlsInvalidTypeBase):
        return 'U{}'.format(item.value.code)
    return 'E{}'.format(item.value.code)


def c_version(v):
    return 'E{}'.format(v.version.value.code)


def c_record(r):
    return 'TlsRecord({},{},{})'.format(int(r.content_type), c_version(r.protocol_version), hx(r.fragment))


def c_alert(a):
    return 'TlsAlertMessage({},{})'.format(int(a.level), int(a.description))


def c_random(r):
    import calendar
    return 'Random({},{})'.format(calendar.timegm(r.time.utctimetuple()), hx(bytes(bytearray(r.random))))


UNUSED = {'TlsExtensionChannelId', 'TlsExtensionEncryptThenMAC', 'TlsExtensionExtendedMasterSecret',
          'TlsExtensionShortRecordHeader', 'TlsExtensionNextProtocolNegotiationClient',
          'TlsExtensionServerNameServer', 'TlsExtensionCertificateStatusRequestServer',
          'TlsExtensionSignedCertificateTimestampClient'}
VEC_FIELD = {
    'TlsExtensionECPointFormats': 'point_formats',
    'TlsExtensionEllipticCurves': 'elliptic_curves',
    'TlsExtensionSignatureAlgorithms': 'hash_and_signature_algorithms',
    'TlsExtensionSignatureAlgorithmsCert': 'hash_and_signature_algorithms',
    'TlsExtensionDelegatedCredentials': 'hash_and_signature_algorithms',
    'TlsExtensionPskKeyExchangeModes': 'key_exchange_modes',
    'TlsExtensionCompressCertificate': 'compression_algorithms',
}


class Unmodelled(Exception):
    pass


def host_plain(host):
    """`hostPlain` of CpModel/Tls/Ext2.lean: the host names on which CPython's idna codec is the identity in both
    directions (ASCII only, no `xn--` in any case, every label but the last 1..63 bytes, the last at most 63)"""
    host = bytes(host)
    if any(x >= 128 for x in host) or b'xn--' in host.lower():
        return False
    labels = host.split(b'.')
    return all(0 < len(lb) < 64 for lb in labels[:-1]) and len(labels[-1]) < 64


def c_name(item):
    return hx(item.value.code.encode('utf-8'))


def c_key_share(entry):
    if type(entry).__name__ == 'TlsKeyShareEntryInvalidType':
        return '{}:{}'.format(c_coded(entry.group), hx(entry.data))
    return '{}:{}'.format(c_coded(entry.group), hx(bytes(bytearray(entry.key_exchange))))


def c_sct(sct):
    import calendar
    millis = calendar.timegm(sct.timestamp.utctimetuple()) * 1000 + sct.timestamp.microsecond // 1000
    return 'Sct({},{},{},{},E{},{})'.format(
        int(sct.version), hx(bytes(sct.log.log_id.value)), millis, hx(bytes(bytearray(sct.extensions))),
        sct.signature_algorithm.value.code, hx(bytes(bytearray(sct.signature))))


def c_ext(e):
    from cryptoparser.tls.version import TlsProtocolVersion
    name = type(e).__name__
    typ = e.extension_type.value.code
    if name == 'TlsExtensionUnparsed':
        body = hx(e.extension_data)
    elif name in UNUSED:
        body = '~'
    elif name in VEC_FIELD:
        body = c_list([c_coded(i) for i in getattr(e, VEC_FIELD[name])])
    elif name == 'TlsExtensionRenegotiationInfo':
        body = hx(bytes(bytearray(e.renegotiated_connection)))
    elif name == 'TlsExtensionSessionTicket':
        body = hx(e.session_ticket)
    elif name == 'TlsExtensionPadding':
        body = str(e.length)
    elif name == 'TlsExtensionRecordSizeLimit':
        body = str(e.record_size_limit)
    elif name == 'TlsExtensionSupportedVersionsClient':
        body = c_list([c_version(i) if isinstance(i, TlsProtocolVersion) else c_coded(i) for i in e.supported_versions])
    elif name == 'TlsExtensionSupportedVersionsServer':
        body = c_version(e.selected_version)
    elif name == 'TlsExtensionServerNameClient':
        try:
            host = e.host_name.encode('ascii')
        except UnicodeError:
            raise Unmodelled(name)
        if not host_plain(host):
            raise Unmodelled(name)
        body = hx(host)
    elif name in ('TlsExtensionApplicationLayerProtocolNegotiation', 'TlsExtensionApplicationLayerProtocolSettings',
                  'TlsExtensionNextProtocolNegotiationServer'):
        body = c_list([c_name(p) for p in e.protocol_names])
    elif name == 'TlsExtensionCertificateStatusRequestClient':
        body = c_list([hx(bytes(bytearray(r))) for r in e.responder_id_list]) + '/' + hx(bytes(bytearray(e.request_extensions)))
    elif name in ('TlsExtensionKeyShareClient', 'TlsExtensionKeyShareReservedClient'):
        body = c_list([c_key_share(s) for s in e.key_share_entries])
    elif name == 'TlsExtensionKeyShareServer':
        body = c_key_share(e.key_share_entry)
    elif name == 'TlsExtensionKeyShareClientHelloRetry':
        body = 'E{}'.format(e.selected_group.value.code)
    elif name == 'TlsExtensionTokenBinding':
        body = '{}.{}:{}'.format(e.protocol_version.major, e.protocol_version.minor,
                                 c_list([c_coded(p) for p in e.parameters]))
    elif name == 'TlsExtensionSignedCertificateTimestampServer':
        body = c_list([c_sct(s) for s in e.scts])
    else:
        raise Unmodelled(name)
    return '{}({},{})'.format(name, typ, body)


def c_client_hello(h):
    return 'TlsHandshakeClientHello(' + ','.join([
        c_version(h.protocol_version), c_random(h.random), c_list([str(x) for x in h.session_id]),
        c_list([c_coded(x) for x in h.cipher_suites]), c_list([c_coded(x) for x in h.compression_methods]),
        c_list([c_ext(x) for x in h.extensions]), c_bool(h.fallback_scsv), c_bool(h.empty_renegotiation_info_scsv)]) + ')'


def c_server_hello(h):
    name = type(h).__name__
    random = h.random_bytes if name == 'TlsHandshakeHelloRetryRequest' else h.random
    return name + '(' + ','.join([
        c_version(h.protocol_version), c_random(random), c_list([str(x) for x in h.session_id]),
        'E{}'.format(h.cipher_suite.value.code), 'E{}'.format(h.compression_method.value.code),
        c_list([c_ext(x) for x in h.extensions])]) + ')'


def c_handshake(m):
    name = type(m).__name__
    if name == 'TlsHandshakeClientHello':
        return c_client_hello(m)
    if name in ('TlsHandshakeServerHello', 'TlsHandshakeHelloRetryRequest'):
        return c_server_hello(m)
    if name == 'TlsHandshakeCertificate':
        return 'TlsHandshakeCertificate({})'.format(c_list([hx(c.certificate) for c in m.certificate_chain]))
    if name == 'TlsHandshakeServerKeyExchange':
        return 'TlsHandshakeServerKeyExchange({})'.format(hx(m.param_bytes))
    if name == 'TlsHandshakeCertificateStatus':
        return 'TlsHandshakeCertificateStatus({},{})'.format(int(m.status_type), hx(m.status))
    if name == 'TlsHandshakeServerHelloDone':
        return 'TlsHandshakeServerHelloDone()'
    if name == 'TlsHandshakeCertificateRequest':
        algs = m.supported_signature_algorithms
        return 'TlsHandshakeCertificateRequest({},{},{})'.format(
            c_list([str(int(t)) for t in m.certificate_types]),
            '~' if algs is None else c_list([c_coded(a) for a in algs]),
            c_list([hx(bytes(bytearray(dn))) for dn in m.certificate_authorities]))
    raise Unmodelled(name)


def modelled():
    """name -> (class, canon)"""
    from cryptoparser.tls import record, subprotocol as sp, extension as ex, version
    coded_vec = lambda v: c_list([c_coded(i) for i in v])  # noqa: E731
    return {
        'TlsProtocolVersion': (version.TlsProtocolVersion, c_version),
        'TlsRecord': (record.TlsRecord, c_record),
        'TlsAlertMessage': (sp.TlsAlertMessage, c_alert),
        'TlsChangeCipherSpecMessage': (sp.TlsChangeCipherSpecMessage,
                                       lambda m: 'TlsChangeCipherSpecMessage({})'.format(int(m._change_cipher_spec_type))),  # pylint: disable=protected-access
        'TlsApplicationDataMessage': (sp.TlsApplicationDataMessage,
                                      lambda m: 'TlsApplicationDataMessage({})'.format(hx(m.data))),
        'TlsHandshakeClientHello': (sp.TlsHandshakeClientHello, c_handshake),
        'TlsHandshakeServerHello': (sp.TlsHandshakeServerHello, c_handshake),
        'TlsHandshakeHelloRetryRequest': (sp.TlsHandshakeHelloRetryRequest, c_handshake),
        'TlsHandshakeCertificate': (sp.TlsHandshakeCertificate, c_handshake),
        'TlsHandshakeServerKeyExchange': (sp.TlsHandshakeServerKeyExchange, c_handshake),
        'TlsHandshakeCertificateStatus': (sp.TlsHandshakeCertificateStatus, c_handshake),
        'TlsHandshakeServerHelloDone': (sp.TlsHandshakeServerHelloDone, c_handshake),
        'TlsHandshakeCertificateRequest': (sp.TlsHandshakeCertificateRequest, c_handshake),
        'TlsHandshakeMessageVariant': (sp.TlsHandshakeMessageVariant, c_handshake),
        'TlsExtensionVariantClient': (ex.TlsExtensionVariantClient, c_ext),
        'TlsExtensionVariantServer': (ex.TlsExtensionVariantServer, c_ext),
        'TlsExtensionUnparsed': (ex.TlsExtensionUnparsed, c_ext),
        'TlsExtensionsClient': (ex.TlsExtensionsClient, lambda v: c_list([c_ext(e) for e in v])),
        'TlsExtensionsServer': (ex.TlsExtensionsServer, lambda v: c_list([c_ext(e) for e in v])),
        'TlsSessionIdVector': (sp.TlsSessionIdVector, lambda v: c_list([str(x) for x in v])),
        'TlsCipherSuiteVector': (sp.TlsCipherSuiteVector, coded_vec),
        'TlsCompressionMethodVector': (sp.TlsCompressionMethodVector, coded_vec),
        'TlsEllipticCurveVector': (ex.TlsEllipticCurveVector, coded_vec),
        'TlsECPointFormatVector': (ex.TlsECPointFormatVector, coded_vec),
        'TlsSignatureAndHashAlgorithmVector': (ex.TlsSignatureAndHashAlgorithmVector, coded_vec),
        'TlsRenegotiatedConnection': (ex.TlsRenegotiatedConnection, lambda v: hx(bytes(bytearray(v)))),
        'TlsCertificate': (sp.TlsCertificate, lambda c: 'TlsCertificate({})'.format(hx(c.certificate))),
        'TlsCertificates': (sp.TlsCertificates, lambda v: c_list([hx(c.certificate) for c in v])),
    }
