# -*- coding: utf-8 -*-
"""Type-directed generators of TLS objects, built with the library's own constructors.
All randomness comes from the `rng` argument."""
import datetime


def rbytes(rng, n):
    return bytes(rng.getrandbits(8) for _ in range(n))


def rlen(rng, hi):
    """skewed length: often 0/1/small, sometimes up to hi"""
    r = rng.random()
    if r < 0.2:
        return 0
    if r < 0.5:
        return rng.randrange(0, min(hi, 4) + 1)
    if r < 0.9:
        return rng.randrange(0, min(hi, 40) + 1)
    return rng.randrange(0, hi + 1)


def coded_items(rng, enum_class, fallback, n, grease_p=0.15, unknown_p=0.1):
    """members of enum_class mixed with GREASE / unknown wrappers (never shadowing a member)"""
    members = list(enum_class)
    known = {m.value.code for m in members}
    grease = list(fallback.get_grease_enum())
    size = fallback.get_byte_num()
    out = []
    for _ in range(n):
        r = rng.random()
        if r < grease_p:
            out.append(fallback(rng.choice(grease).value.code))
        elif r < grease_p + unknown_p:
            c = rng.randrange(256 ** size)
            if c in known or c in (0x5600, 0x00ff):
                out.append(rng.choice(members))
            else:
                out.append(fallback(c))
        else:
            out.append(rng.choice(members))
    return out


def version(rng):
    from cryptoparser.tls.version import TlsProtocolVersion
    from cryptodatahub.tls.version import TlsVersion
    return TlsProtocolVersion(rng.choice(list(TlsVersion)))


def record(rng):
    from cryptoparser.tls.record import TlsRecord
    from cryptoparser.tls.subprotocol import TlsContentType
    # every 6th record is a large one, cycling through the boundaries a length field or an implementation
    # limit could sit at (2^14, 2^14+2048 = the TLS 1.2 ciphertext maximum, 2^15, the 16-bit maximum)
    _RECORD_CALLS[0] += 1
    if _RECORD_CALLS[0] % 6 == 0:
        n = _BIG_RECORDS[(_RECORD_CALLS[0] // 6) % len(_BIG_RECORDS)]
    else:
        n = rlen(rng, 300)
    return TlsRecord(rbytes(rng, n), version(rng), rng.choice(list(TlsContentType)))


_RECORD_CALLS = [0]
_BIG_RECORDS = [16384, 16385, 18432, 18433, 20000, 32767, 32768, 65535]


def alert(rng):
    from cryptoparser.tls.subprotocol import TlsAlertMessage, TlsAlertLevel, TlsAlertDescription
    return TlsAlertMessage(rng.choice(list(TlsAlertLevel)), rng.choice(list(TlsAlertDescription)))


def ccs(rng):
    from cryptoparser.tls.subprotocol import TlsChangeCipherSpecMessage
    return TlsChangeCipherSpecMessage()


def app_data(rng):
    from cryptoparser.tls.subprotocol import TlsApplicationDataMessage
    return TlsApplicationDataMessage(bytearray(rbytes(rng, rlen(rng, 80))))


def hello_random(rng):
    from cryptoparser.tls.subprotocol import TlsHandshakeHelloRandom, TlsHandshakeHelloRandomBytes
    t = rng.choice([0, 1, 2 ** 31 - 1, 2 ** 31, 2 ** 32 - 1, rng.randrange(2 ** 32)])
    return TlsHandshakeHelloRandom(datetime.datetime.utcfromtimestamp(0) + datetime.timedelta(seconds=t),
                                   TlsHandshakeHelloRandomBytes(bytearray(rbytes(rng, 28))))


def session_id(rng):
    return list(rbytes(rng, rng.choice([0, 0, 1, 16, 31, 32, 32, rng.randrange(33)])))


MODELLED_CLIENT_EXT = None


def client_extension(rng, modelled_only=True):
    from cryptoparser.tls import extension as ex
    from cryptodatahub.tls.algorithm import (TlsNamedCurve, TlsECPointFormat, TlsSignatureAndHashAlgorithm,
                                             TlsPskKeyExchangeMode, TlsCertificateCompressionAlgorithm, TlsExtensionType)
    from cryptoparser.tls.grease import TlsInvalidTypeOneByte, TlsInvalidTypeTwoByte
    kinds = ['groups', 'points', 'sigalgs', 'sigalgs_cert', 'delegated', 'psk', 'compress', 'reneg', 'ticket', 'padding',
             'rsl', 'versions', 'ems', 'etm', 'channel', 'short', 'npn', 'sct', 'unparsed_grease', 'unparsed_unknown',
             'unparsed_known']
    if not modelled_only:
        kinds += ['sni', 'alpn', 'keyshare', 'status', 'tokenbinding']
    k = rng.choice(kinds)
    if k == 'groups':
        return ex.TlsExtensionEllipticCurves(coded_items(rng, TlsNamedCurve, TlsInvalidTypeTwoByte, rng.randrange(1, 8)))
    if k == 'points':
        return ex.TlsExtensionECPointFormats(coded_items(rng, TlsECPointFormat, TlsInvalidTypeOneByte, rng.randrange(1, 4)))
    if k in ('sigalgs', 'sigalgs_cert', 'delegated'):
        cls = {'sigalgs': ex.TlsExtensionSignatureAlgorithms, 'sigalgs_cert': ex.TlsExtensionSignatureAlgorithmsCert,
               'delegated': ex.TlsExtensionDelegatedCredentials}[k]
        return cls(coded_items(rng, TlsSignatureAndHashAlgorithm, TlsInvalidTypeTwoByte, rng.randrange(1, 10)))
    if k == 'psk':
        return ex.TlsExtensionPskKeyExchangeModes(coded_items(rng, TlsPskKeyExchangeMode, TlsInvalidTypeOneByte, rng.randrange(1, 3)))
    if k == 'compress':
        return ex.TlsExtensionCompressCertificate(
            coded_items(rng, TlsCertificateCompressionAlgorithm, TlsInvalidTypeTwoByte, rng.randrange(1, 4)))
    if k == 'reneg':
        return ex.TlsExtensionRenegotiationInfo(ex.TlsRenegotiatedConnection(list(rbytes(rng, rng.choice([0, 0, 12, 36, 255])))))
    if k == 'ticket':
        return ex.TlsExtensionSessionTicket(bytearray(rbytes(rng, rlen(rng, 200))))
    if k == 'padding':
        return ex.TlsExtensionPadding(rng.choice([0, 1, 7, 100, 511]))
    if k == 'rsl':
        return ex.TlsExtensionRecordSizeLimit(rng.choice([0, 64, 16384, 16385, 65535]))
    if k == 'versions':
        from cryptodatahub.tls.version import TlsVersion
        from cryptoparser.tls.version import TlsProtocolVersion
        items = []
        for _ in range(rng.randrange(1, 6)):
            if rng.random() < 0.2:
                items.append(TlsInvalidTypeTwoByte(rng.choice(list(TlsInvalidTypeTwoByte.get_grease_enum())).value.code))
            else:
                items.append(TlsProtocolVersion(rng.choice(list(TlsVersion))))
        return ex.TlsExtensionSupportedVersionsClient(items)
    if k == 'ems':
        return ex.TlsExtensionExtendedMasterSecret()
    if k == 'etm':
        return ex.TlsExtensionEncryptThenMAC()
    if k == 'channel':
        return ex.TlsExtensionChannelId()
    if k == 'short':
        return ex.TlsExtensionShortRecordHeader()
    if k == 'npn':
        return ex.TlsExtensionNextProtocolNegotiationClient()
    if k == 'sct':
        return ex.TlsExtensionSignedCertificateTimestampClient()
    if k == 'unparsed_grease':
        g = rng.choice(list(TlsInvalidTypeTwoByte.get_grease_enum()))
        return ex.TlsExtensionUnparsed(TlsInvalidTypeTwoByte(g.value.code), bytearray(rbytes(rng, rlen(rng, 20))))
    if k == 'unparsed_unknown':
        known = {m.value.code for m in TlsExtensionType}
        c = rng.randrange(65536)
        while c in known:
            c = rng.randrange(65536)
        return ex.TlsExtensionUnparsed(TlsInvalidTypeTwoByte(c), bytearray(rbytes(rng, rlen(rng, 40))))
    if k == 'unparsed_known':
        # a known type for which the library has no parser: parsed as Unparsed with a wrapper type
        parsed = {c.get_extension_type().value.code for c in ex.TlsExtensionVariantClient._get_variant_types()  # pylint: disable=protected-access
                  if c is not ex.TlsExtensionUnparsed}
        cands = [m for m in TlsExtensionType if m.value.code not in parsed]
        return ex.TlsExtensionUnparsed(TlsInvalidTypeTwoByte(rng.choice(cands).value.code), bytearray(rbytes(rng, rlen(rng, 30))))
    if k == 'sni':
        return ex.TlsExtensionServerNameClient(rng.choice(['example.com', 'a.b.c.example.org', 'x', 'localhost']))
    if k == 'alpn':
        from cryptodatahub.tls.algorithm import TlsProtocolName
        return ex.TlsExtensionApplicationLayerProtocolNegotiation(rng.sample(list(TlsProtocolName), rng.randrange(1, 4)))
    if k == 'keyshare':
        entries = [ex.TlsKeyShareEntry(rng.choice(list(TlsNamedCurve)), list(rbytes(rng, rng.randrange(1, 70))))
                   for _ in range(rng.randrange(0, 3))]
        return ex.TlsExtensionKeyShareClient(entries)
    if k == 'status':
        return ex.TlsExtensionCertificateStatusRequestClient(
            [ex.TlsCertificateStatusRequestResponderId(list(rbytes(rng, rng.randrange(1, 20)))) for _ in range(rng.randrange(0, 3))],
            list(rbytes(rng, rng.randrange(0, 10))))
    if k == 'tokenbinding':
        from cryptodatahub.tls.algorithm import TlsTokenBindingParamater
        return ex.TlsExtensionTokenBinding(ex.TlsTokenBindingProtocolVersion(rng.randrange(256), rng.randrange(256)),
                                           rng.sample(list(TlsTokenBindingParamater), rng.randrange(1, 3)))
    raise AssertionError(k)


def server_extension(rng, modelled_only=True):
    from cryptoparser.tls import extension as ex
    from cryptodatahub.tls.algorithm import TlsECPointFormat, TlsExtensionType
    from cryptoparser.tls.grease import TlsInvalidTypeOneByte, TlsInvalidTypeTwoByte
    kinds = ['points', 'reneg', 'ticket', 'rsl', 'version', 'ems', 'etm', 'channel', 'sni', 'status', 'unparsed_unknown',
             'unparsed_known']
    k = rng.choice(kinds)
    if k == 'points':
        return ex.TlsExtensionECPointFormats(coded_items(rng, TlsECPointFormat, TlsInvalidTypeOneByte, rng.randrange(1, 4)))
    if k == 'reneg':
        return ex.TlsExtensionRenegotiationInfo(ex.TlsRenegotiatedConnection(list(rbytes(rng, rng.choice([0, 24, 72])))))
    if k == 'ticket':
        return ex.TlsExtensionSessionTicket(bytearray(rbytes(rng, rlen(rng, 50))))
    if k == 'rsl':
        return ex.TlsExtensionRecordSizeLimit(rng.choice([64, 16385]))
    if k == 'version':
        return ex.TlsExtensionSupportedVersionsServer(version(rng))
    if k == 'ems':
        return ex.TlsExtensionExtendedMasterSecret()
    if k == 'etm':
        return ex.TlsExtensionEncryptThenMAC()
    if k == 'channel':
        return ex.TlsExtensionChannelId()
    if k == 'sni':
        return ex.TlsExtensionServerNameServer()
    if k == 'status':
        return ex.TlsExtensionCertificateStatusRequestServer()
    if k == 'unparsed_unknown':
        known = {m.value.code for m in TlsExtensionType}
        c = rng.randrange(65536)
        while c in known:
            c = rng.randrange(65536)
        return ex.TlsExtensionUnparsed(TlsInvalidTypeTwoByte(c), bytearray(rbytes(rng, rlen(rng, 40))))
    parsed = {c.get_extension_type().value.code for c in ex.TlsExtensionVariantServer._get_variant_types()  # pylint: disable=protected-access
              if c is not ex.TlsExtensionUnparsed}
    cands = [m for m in TlsExtensionType if m.value.code not in parsed]
    return ex.TlsExtensionUnparsed(TlsInvalidTypeTwoByte(rng.choice(cands).value.code), bytearray(rbytes(rng, rlen(rng, 30))))


def distinct_types(exts):
    seen = set()
    out = []
    for e in exts:
        c = e.extension_type.value.code
        if c not in seen:
            seen.add(c)
            out.append(e)
    return out


def client_hello(rng, modelled_only=True):
    from cryptoparser.tls.subprotocol import TlsHandshakeClientHello
    from cryptodatahub.tls.algorithm import TlsCipherSuite, TlsCompressionMethod
    from cryptoparser.tls.grease import TlsInvalidTypeOneByte, TlsInvalidTypeTwoByte
    n = rng.choice([1, 1, 2, 5, 17, rng.randrange(1, 60)])
    suites = coded_items(rng, TlsCipherSuite, TlsInvalidTypeTwoByte, n)
    comps = coded_items(rng, TlsCompressionMethod, TlsInvalidTypeOneByte, rng.choice([1, 1, 2, 3]), 0.05, 0.05)
    exts = distinct_types([client_extension(rng, modelled_only) for _ in range(rng.choice([0, 0, 1, 3, 6, 10]))])
    return TlsHandshakeClientHello(
        cipher_suites=suites, protocol_version=version(rng), random=hello_random(rng), session_id=session_id(rng),
        compression_methods=comps, extensions=exts, fallback_scsv=rng.random() < 0.3,
        empty_renegotiation_info_scsv=rng.random() < 0.5)


def server_hello(rng, retry=False):
    from cryptoparser.tls.subprotocol import TlsHandshakeServerHello, TlsHandshakeHelloRetryRequest
    from cryptodatahub.tls.algorithm import TlsCipherSuite, TlsCompressionMethod
    exts = distinct_types([server_extension(rng) for _ in range(rng.choice([0, 0, 1, 3, 5]))])
    if retry:
        return TlsHandshakeHelloRetryRequest(
            cipher_suite=rng.choice(list(TlsCipherSuite)), protocol_version=version(rng), random_bytes=hello_random(rng),
            session_id=session_id(rng), compression_method=rng.choice(list(TlsCompressionMethod)), extensions=exts)
    return TlsHandshakeServerHello(
        protocol_version=version(rng), random=hello_random(rng), session_id=session_id(rng),
        compression_method=rng.choice(list(TlsCompressionMethod)), cipher_suite=rng.choice(list(TlsCipherSuite)),
        extensions=exts)


def certificate(rng):
    from cryptoparser.tls.subprotocol import TlsHandshakeCertificate, TlsCertificates, TlsCertificate
    certs = [TlsCertificate(rbytes(rng, rlen(rng, 300))) for _ in range(rng.choice([1, 1, 2, 4]))]
    return TlsHandshakeCertificate(TlsCertificates(certs))


def server_key_exchange(rng):
    from cryptoparser.tls.subprotocol import TlsHandshakeServerKeyExchange
    return TlsHandshakeServerKeyExchange(rbytes(rng, rlen(rng, 400)))


def certificate_status(rng):
    from cryptoparser.tls.subprotocol import TlsHandshakeCertificateStatus
    from cryptoparser.tls.extension import TlsCertificateStatusType
    return TlsHandshakeCertificateStatus(TlsCertificateStatusType.OCSP, bytearray(rbytes(rng, rlen(rng, 200))))


def server_hello_done(rng):
    from cryptoparser.tls.subprotocol import TlsHandshakeServerHelloDone
    return TlsHandshakeServerHelloDone()


def handshake(rng):
    return rng.choice([client_hello, client_hello, server_hello, lambda r: server_hello(r, True), certificate,
                       server_key_exchange, certificate_status, server_hello_done])(rng)


# (model class name, generator) for the classes inside the Lean model
MODELLED_GENERATORS = [
    ('TlsProtocolVersion', version),
    ('TlsRecord', record),
    ('TlsAlertMessage', alert),
    ('TlsChangeCipherSpecMessage', ccs),
    ('TlsApplicationDataMessage', app_data),
    ('TlsHandshakeClientHello', client_hello),
    ('TlsHandshakeServerHello', server_hello),
    ('TlsHandshakeHelloRetryRequest', lambda r: server_hello(r, True)),
    ('TlsHandshakeCertificate', certificate),
    ('TlsHandshakeServerKeyExchange', server_key_exchange),
    ('TlsHandshakeCertificateStatus', certificate_status),
    ('TlsHandshakeServerHelloDone', server_hello_done),
    ('TlsHandshakeMessageVariant', handshake),
    ('TlsExtensionVariantClient', client_extension),
    ('TlsExtensionVariantServer', server_extension),
]
