# -*- coding: utf-8 -*-
"""Type-directed generators of TLS objects, built with the library's own constructors.
All randomness comes from the `rng` argument."""
import datetime


def rbytes(rng, n):
    return bytes(rng.getrandbits(8) for _ in range(n))


def rlen(rng, hi):
    """skewed length: often 0/1/small, sometimes up to hi"""
    r = rng.random()
    if r < 0.2:
        return 0
    if r < 0.5:
        return rng.randrange(0, min(hi, 4) + 1)
    if r < 0.9:
        return rng.randrange(0, min(hi, 40) + 1)
    return rng.randrange(0, hi + 1)


def coded_items(rng, enum_class, fallback, n, grease_p=0.15, unknown_p=0.1):
    """members of enum_class mixed with GREASE / unknown wrappers (never shadowing a member)"""
    members = list(enum_class)
    known = {m.value.code for m in members}
    grease = list(fallback.get_grease_enum())
    size = fallback.get_byte_num()
    out = []
    for _ in range(n):
        r = rng.random()
        if r < grease_p:
            out.append(fallback(rng.choice(grease).value.code))
        elif r < grease_p + unknown_p:
            c = rng.randrange(256 ** size)
            if c in known or c in (0x5600, 0x00ff):
                out.append(rng.choice(members))
            else:
                out.append(fallback(c))
        else:
            out.append(rng.choice(members))
    return out


def version(rng):
    from cryptoparser.tls.version import TlsProtocolVersion
    from cryptodatahub.tls.version import TlsVersion
    return TlsProtocolVersion(rng.choice(list(TlsVersion)))


def record(rng):
    from cryptoparser.tls.record import TlsRecord
    from cryptoparser.tls.subprotocol import TlsContentType
    # every 6th record is a large one, cycling through the boundaries a length field or an implementation
    # limit could sit at (2^14, 2^14+2048 = the TLS 1.2 ciphertext maximum, 2^15, the 16-bit maximum)
    _RECORD_CALLS[0] += 1
    if _RECORD_CALLS[0] % 6 == 0:
        n = _BIG_RECORDS[(_RECORD_CALLS[0] // 6) % len(_BIG_RECORDS)]
    else:
        n = rlen(rng, 300)
    return TlsRecord(rbytes(rng, n), version(rng), rng.choice(list(TlsContentType)))


_RECORD_CALLS = [0]
_BIG_RECORDS = [16384, 16385, 18432, 18433, 20000, 32767, 32768, 65535]


def alert(rng):
    from cryptoparser.tls.subprotocol import TlsAlertMessage, TlsAlertLevel, TlsAlertDescription
    return TlsAlertMessage(rng.choice(list(TlsAlertLevel)), rng.choice(list(TlsAlertDescription)))


def ccs(rng):
    from cryptoparser.tls.subprotocol import TlsChangeCipherSpecMessage
    return TlsChangeCipherSpecMessage()


def app_data(rng):
    from cryptoparser.tls.subprotocol import TlsApplicationDataMessage
    return TlsApplicationDataMessage(bytearray(rbytes(rng, rlen(rng, 80))))


def hello_random(rng):
    from cryptoparser.tls.subprotocol import TlsHandshakeHelloRandom, TlsHandshakeHelloRandomBytes
    t = rng.choice([0, 1, 2 ** 31 - 1, 2 ** 31, 2 ** 32 - 1, rng.randrange(2 ** 32)])
    return TlsHandshakeHelloRandom(datetime.datetime.utcfromtimestamp(0) + datetime.timedelta(seconds=t),
                                   TlsHandshakeHelloRandomBytes(bytearray(rbytes(rng, 28))))


def session_id(rng):
    return list(rbytes(rng, rng.choice([0, 0, 1, 16, 31, 32, 32, rng.randrange(33)])))


def host_name(rng):
    """ASCII host names on which the idna codec is the identity (the part of SNI inside the model), with the
    boundary shapes: one character, a 63-byte label, 253 bytes in all, a trailing dot, upper case, many labels"""
    r = rng.random()
    alphabet = 'abcdefghijklmnopqrstuvwxyz0123456789-_' if rng.random() < 0.5 else \
        'abcdefghijklmnopqrstuvwxyzABCDEFGHIJKLMNOPQRSTUVWXYZ0123456789-_'
    if r < 0.35:
        # lower case, UPPER case and Mixed Case: the name is carried as it is spelled (no case folding on either path)
        return rng.choice(['example.com', 'a.b.c.example.org', 'x', 'localhost', 'EXAMPLE.COM', 'example.com.', 'a' * 63,
                           'a' * 63 + '.' + 'b' * 63, '_dmarc.example.net', '127.0.0.1', 'x-n--.example',
                           'WWW.Example.COM', 'a.B.c', 'Localhost', 'eXaMpLe.CoM.', 'X', 'A' * 63 + '.b'])
    if r < 0.45:
        return '.'.join('a' * 63 for _ in range(4))[:253]
    if r < 0.48:        # many labels (the ceiling of 65530 bytes is exercised once per run by c06.boundary_cases)
        return '.'.join(rng.choice(alphabet) * rng.choice([1, 62, 63]) for _ in range(rng.choice([10, 30])))
    labels = []
    for _ in range(rng.randrange(1, 6)):
        lb = ''.join(rng.choice(alphabet) for _ in range(rng.choice([1, 2, 5, 12, 63])))
        labels.append('a' + lb[1:] if lb.lower().startswith('xn--') else lb)
    name = '.'.join(labels)
    for ace in ('xn--', 'XN--', 'xN--', 'Xn--'):
        name = name.replace(ace, 'xm--')
    return name


def key_share_entry(rng, allow_unknown=True):
    from cryptoparser.tls import extension as ex
    from cryptodatahub.tls.algorithm import TlsNamedCurve
    from cryptoparser.tls.grease import TlsInvalidTypeTwoByte
    if allow_unknown and rng.random() < 0.25:
        known = {m.value.code for m in TlsNamedCurve}
        code = rng.choice(list(TlsInvalidTypeTwoByte.get_grease_enum())).value.code if rng.random() < 0.6 else rng.randrange(65536)
        while code in known:
            code = rng.randrange(65536)
        return ex.TlsKeyShareEntryInvalidType(TlsInvalidTypeTwoByte(code), bytearray(rbytes(rng, rng.choice([0, 1, 1, 32, 300]))))
    return ex.TlsKeyShareEntry(rng.choice(list(TlsNamedCurve)),
                               list(rbytes(rng, rng.choice([1, 32, 32, 65, 97, 133, 1216, rng.randrange(1, 70)]))))


def protocol_names(rng, enum_class, ceiling=None):
    """1.. names, repetitions allowed; rarely a few hundred of them; with `ceiling` a list filled up to that many bytes
    (inside an extension the 2-byte list prefix leaves 2^16-3 bytes for ALPN; the NPN list IS the extension data) -
    the ceilings are exercised once per run by c06.boundary_cases, not by the random generators"""
    members = list(enum_class)
    if ceiling is not None or rng.random() < 0.02:
        names = []
        size = 0
        target = ceiling if ceiling is not None else rng.choice([600, 1500])
        while True:
            m = rng.choice(members)
            if size + 1 + len(m.value.code) > target:
                break
            names.append(m)
            size += 1 + len(m.value.code)
        return names
    return [rng.choice(members) for _ in range(rng.choice([1, 1, 2, 3, 5, len(members)]))]


MAX_EPOCH_SECONDS = 253402300799        # 9999-12-31T23:59:59Z (Lean: maxEpochSeconds)


def sct(rng):
    import datetime as dt
    import dateutil.tz
    from cryptoparser.common.x509 import SignedCertificateTimestamp, CtVersion
    from cryptodatahub.common.stores import CertificateTransparencyLog
    from cryptodatahub.tls.algorithm import TlsSignatureAndHashAlgorithm
    if rng.random() < 0.5:
        log_id = bytes(rng.choice(list(CertificateTransparencyLog)).value.log_id.value)
    else:
        log_id = rbytes(rng, 32)
    # the field is 64 bits of milliseconds: also instants beyond 2^32 seconds, up to the last millisecond a datetime carries
    millis = rng.choice([0, 1, 999, 1000, 1234567890123, (2 ** 32 - 1) * 1000 + 999, rng.randrange(2 ** 32) * 1000 + rng.randrange(1000),
                         2 ** 32 * 1000, 2 ** 32 * 1000 + 7, 7258118400 * 1000 + 1, MAX_EPOCH_SECONDS * 1000 + 999,
                         rng.randrange(2 ** 32, MAX_EPOCH_SECONDS + 1) * 1000 + rng.randrange(1000)])
    when = dt.datetime(1970, 1, 1, tzinfo=dateutil.tz.UTC) + dt.timedelta(seconds=millis // 1000, milliseconds=millis % 1000)
    if rng.random() < 0.2:
        when = when.replace(tzinfo=None)        # naive: the library takes it as UTC at construction
    elif rng.random() < 0.2 and millis // 1000 < MAX_EPOCH_SECONDS - 86400:
        when = when.astimezone(dt.timezone(dt.timedelta(hours=5, minutes=30)))
    return SignedCertificateTimestamp(
        version=CtVersion.V1, log=log_id, timestamp=when, extensions=list(rbytes(rng, rng.choice([0, 0, 0, 1, 5]))),
        signature_algorithm=rng.choice(list(TlsSignatureAndHashAlgorithm)),
        signature=list(rbytes(rng, rng.choice([0, 1, 64, 71, 72, 256]))))


def client_extension(rng, modelled_only=True):
    """every extension class of the client variant (all are inside the model; `modelled_only` is kept for callers)"""
    from cryptoparser.tls import extension as ex
    from cryptodatahub.tls.algorithm import (TlsNamedCurve, TlsECPointFormat, TlsSignatureAndHashAlgorithm,
                                             TlsPskKeyExchangeMode, TlsCertificateCompressionAlgorithm, TlsExtensionType)
    from cryptoparser.tls.grease import TlsInvalidTypeOneByte, TlsInvalidTypeTwoByte
    kinds = ['groups', 'points', 'sigalgs', 'sigalgs_cert', 'delegated', 'psk', 'compress', 'reneg', 'ticket', 'padding',
             'rsl', 'versions', 'ems', 'etm', 'channel', 'short', 'npn', 'sct', 'unparsed_grease', 'unparsed_unknown',
             'unparsed_known', 'sni', 'sni', 'alpn', 'alpn', 'alps', 'keyshare', 'keyshare', 'keyshare_reserved', 'status',
             'status', 'tokenbinding', 'tokenbinding']
    k = rng.choice(kinds)
    if k == 'groups':
        return ex.TlsExtensionEllipticCurves(coded_items(rng, TlsNamedCurve, TlsInvalidTypeTwoByte, rng.randrange(1, 8)))
    if k == 'points':
        return ex.TlsExtensionECPointFormats(coded_items(rng, TlsECPointFormat, TlsInvalidTypeOneByte, rng.randrange(1, 4)))
    if k in ('sigalgs', 'sigalgs_cert', 'delegated'):
        cls = {'sigalgs': ex.TlsExtensionSignatureAlgorithms, 'sigalgs_cert': ex.TlsExtensionSignatureAlgorithmsCert,
               'delegated': ex.TlsExtensionDelegatedCredentials}[k]
        return cls(coded_items(rng, TlsSignatureAndHashAlgorithm, TlsInvalidTypeTwoByte, rng.randrange(1, 10)))
    if k == 'psk':
        return ex.TlsExtensionPskKeyExchangeModes(coded_items(rng, TlsPskKeyExchangeMode, TlsInvalidTypeOneByte, rng.randrange(1, 3)))
    if k == 'compress':
        return ex.TlsExtensionCompressCertificate(
            coded_items(rng, TlsCertificateCompressionAlgorithm, TlsInvalidTypeTwoByte, rng.randrange(1, 4)))
    if k == 'reneg':
        return ex.TlsExtensionRenegotiationInfo(ex.TlsRenegotiatedConnection(list(rbytes(rng, rng.choice([0, 0, 12, 36, 255])))))
    if k == 'ticket':
        return ex.TlsExtensionSessionTicket(bytearray(rbytes(rng, rlen(rng, 200))))
    if k == 'padding':
        return ex.TlsExtensionPadding(rng.choice([0, 1, 7, 100, 511]))
    if k == 'rsl':
        return ex.TlsExtensionRecordSizeLimit(rng.choice([0, 64, 16384, 16385, 65535]))
    if k == 'versions':
        from cryptodatahub.tls.version import TlsVersion
        from cryptoparser.tls.version import TlsProtocolVersion
        items = []
        for _ in range(rng.randrange(1, 6)):
            if rng.random() < 0.2:
                items.append(TlsInvalidTypeTwoByte(rng.choice(list(TlsInvalidTypeTwoByte.get_grease_enum())).value.code))
            else:
                items.append(TlsProtocolVersion(rng.choice(list(TlsVersion))))
        return ex.TlsExtensionSupportedVersionsClient(items)
    if k == 'ems':
        return ex.TlsExtensionExtendedMasterSecret()
    if k == 'etm':
        return ex.TlsExtensionEncryptThenMAC()
    if k == 'channel':
        return ex.TlsExtensionChannelId()
    if k == 'short':
        return ex.TlsExtensionShortRecordHeader()
    if k == 'npn':
        return ex.TlsExtensionNextProtocolNegotiationClient()
    if k == 'sct':
        return ex.TlsExtensionSignedCertificateTimestampClient()
    if k == 'unparsed_grease':
        g = rng.choice(list(TlsInvalidTypeTwoByte.get_grease_enum()))
        return ex.TlsExtensionUnparsed(TlsInvalidTypeTwoByte(g.value.code), bytearray(rbytes(rng, rlen(rng, 20))))
    if k == 'unparsed_unknown':
        known = {m.value.code for m in TlsExtensionType}
        c = rng.randrange(65536)
        while c in known:
            c = rng.randrange(65536)
        return ex.TlsExtensionUnparsed(TlsInvalidTypeTwoByte(c), bytearray(rbytes(rng, rlen(rng, 40))))
    if k == 'unparsed_known':
        # a known type for which the library has no parser: parsed as Unparsed with a wrapper type
        parsed = {c.get_extension_type().value.code for c in ex.TlsExtensionVariantClient._get_variant_types()  # pylint: disable=protected-access
                  if c is not ex.TlsExtensionUnparsed}
        cands = [m for m in TlsExtensionType if m.value.code not in parsed]
        return ex.TlsExtensionUnparsed(TlsInvalidTypeTwoByte(rng.choice(cands).value.code), bytearray(rbytes(rng, rlen(rng, 30))))
    if k == 'sni':
        return ex.TlsExtensionServerNameClient(host_name(rng))
    if k in ('alpn', 'alps'):
        from cryptodatahub.tls.algorithm import TlsProtocolName
        cls = ex.TlsExtensionApplicationLayerProtocolNegotiation if k == 'alpn' else ex.TlsExtensionApplicationLayerProtocolSettings
        return cls(protocol_names(rng, TlsProtocolName))
    if k in ('keyshare', 'keyshare_reserved'):
        cls = ex.TlsExtensionKeyShareClient if k == 'keyshare' else ex.TlsExtensionKeyShareReservedClient
        return cls([key_share_entry(rng) for _ in range(rng.choice([0, 1, 1, 2, 3]))])
    if k == 'status':
        return ex.TlsExtensionCertificateStatusRequestClient(
            [ex.TlsCertificateStatusRequestResponderId(list(rbytes(rng, rng.choice([1, 2, 20, 40]))))
             for _ in range(rng.choice([0, 0, 1, 3]))],
            list(rbytes(rng, rng.choice([0, 0, 1, 10]))))
    if k == 'tokenbinding':
        from cryptodatahub.tls.algorithm import TlsTokenBindingParamater
        return ex.TlsExtensionTokenBinding(
            ex.TlsTokenBindingProtocolVersion(rng.choice([0, 1, 255, rng.randrange(256)]), rng.choice([0, 13, 255])),
            coded_items(rng, TlsTokenBindingParamater, TlsInvalidTypeOneByte, rng.choice([1, 1, 2, 3, 255])))
    raise AssertionError(k)


def server_extension(rng, modelled_only=True):
    from cryptoparser.tls import extension as ex
    from cryptoparser.common.x509 import SignedCertificateTimestampList
    from cryptodatahub.tls.algorithm import TlsECPointFormat, TlsExtensionType, TlsNamedCurve
    from cryptoparser.tls.grease import TlsInvalidTypeOneByte, TlsInvalidTypeTwoByte
    kinds = ['points', 'reneg', 'ticket', 'rsl', 'version', 'ems', 'etm', 'channel', 'sni', 'status', 'unparsed_unknown',
             'unparsed_known', 'keyshare', 'keyshare', 'keyshare_hrr', 'keyshare_hrr', 'alpn', 'alpn', 'npn', 'npn', 'sct', 'sct']
    k = rng.choice(kinds)
    if k == 'points':
        return ex.TlsExtensionECPointFormats(coded_items(rng, TlsECPointFormat, TlsInvalidTypeOneByte, rng.randrange(1, 4)))
    if k == 'reneg':
        return ex.TlsExtensionRenegotiationInfo(ex.TlsRenegotiatedConnection(list(rbytes(rng, rng.choice([0, 24, 72])))))
    if k == 'ticket':
        return ex.TlsExtensionSessionTicket(bytearray(rbytes(rng, rlen(rng, 50))))
    if k == 'rsl':
        return ex.TlsExtensionRecordSizeLimit(rng.choice([64, 16385]))
    if k == 'version':
        return ex.TlsExtensionSupportedVersionsServer(version(rng))
    if k == 'ems':
        return ex.TlsExtensionExtendedMasterSecret()
    if k == 'etm':
        return ex.TlsExtensionEncryptThenMAC()
    if k == 'channel':
        return ex.TlsExtensionChannelId()
    if k == 'sni':
        return ex.TlsExtensionServerNameServer()
    if k == 'status':
        return ex.TlsExtensionCertificateStatusRequestServer()
    if k == 'keyshare':       # ServerHello: KeyShareEntry server_share
        return ex.TlsExtensionKeyShareServer(key_share_entry(rng, allow_unknown=False))
    if k == 'keyshare_hrr':   # HelloRetryRequest: NamedGroup selected_group (two bytes of extension data)
        return ex.TlsExtensionKeyShareClientHelloRetry(rng.choice(list(TlsNamedCurve)))
    if k == 'alpn':           # RFC 7301: the server's list holds exactly one name; the class takes any
        from cryptodatahub.tls.algorithm import TlsProtocolName
        names = protocol_names(rng, TlsProtocolName)
        return ex.TlsExtensionApplicationLayerProtocolNegotiation(names[:1] if rng.random() < 0.7 else names)
    if k == 'npn':
        from cryptodatahub.tls.algorithm import TlsNextProtocolName
        return ex.TlsExtensionNextProtocolNegotiationServer(protocol_names(rng, TlsNextProtocolName))
    if k == 'sct':
        return ex.TlsExtensionSignedCertificateTimestampServer(
            SignedCertificateTimestampList([sct(rng) for _ in range(rng.choice([0, 1, 1, 2, 3]))]))
    if k == 'unparsed_unknown':
        known = {m.value.code for m in TlsExtensionType}
        c = rng.randrange(65536)
        while c in known:
            c = rng.randrange(65536)
        return ex.TlsExtensionUnparsed(TlsInvalidTypeTwoByte(c), bytearray(rbytes(rng, rlen(rng, 40))))
    parsed = {c.get_extension_type().value.code for c in ex.TlsExtensionVariantServer._get_variant_types()  # pylint: disable=protected-access
              if c is not ex.TlsExtensionUnparsed}
    cands = [m for m in TlsExtensionType if m.value.code not in parsed]
    return ex.TlsExtensionUnparsed(TlsInvalidTypeTwoByte(rng.choice(cands).value.code), bytearray(rbytes(rng, rlen(rng, 30))))


def distinct_types(exts):
    seen = set()
    out = []
    for e in exts:
        c = e.extension_type.value.code
        if c not in seen:
            seen.add(c)
            out.append(e)
    return out


def client_hello(rng, modelled_only=True):
    from cryptoparser.tls.subprotocol import TlsHandshakeClientHello
    from cryptodatahub.tls.algorithm import TlsCipherSuite, TlsCompressionMethod
    from cryptoparser.tls.grease import TlsInvalidTypeOneByte, TlsInvalidTypeTwoByte
    n = rng.choice([1, 1, 2, 5, 17, rng.randrange(1, 60)])
    suites = coded_items(rng, TlsCipherSuite, TlsInvalidTypeTwoByte, n)
    comps = coded_items(rng, TlsCompressionMethod, TlsInvalidTypeOneByte, rng.choice([1, 1, 2, 3]), 0.05, 0.05)
    exts = distinct_types([client_extension(rng, modelled_only) for _ in range(rng.choice([0, 0, 1, 3, 6, 10]))])
    return TlsHandshakeClientHello(
        cipher_suites=suites, protocol_version=version(rng), random=hello_random(rng), session_id=session_id(rng),
        compression_methods=comps, extensions=exts, fallback_scsv=rng.random() < 0.3,
        empty_renegotiation_info_scsv=rng.random() < 0.5)


def key_share_server_extension(rng, form=None):
    """key_share of the server side in one of its two forms: the ServerHello share or the two-byte selected group of a
    HelloRetryRequest"""
    from cryptoparser.tls import extension as ex
    from cryptodatahub.tls.algorithm import TlsNamedCurve
    form = form or rng.choice(['share', 'retry'])
    if form == 'retry':
        return ex.TlsExtensionKeyShareClientHelloRetry(rng.choice(list(TlsNamedCurve)))
    return ex.TlsExtensionKeyShareServer(key_share_entry(rng, allow_unknown=False))


def server_extension_list(rng):
    """extensions of a ServerHello / HelloRetryRequest; every third list starts with key_share (either form) FOLLOWED by
    another extension, so that a class that reads beyond its own data, or the wrong class of the two, is noticed"""
    exts = [server_extension(rng) for _ in range(rng.choice([0, 0, 1, 3, 5]))]
    if rng.random() < 0.34:
        follower = server_extension(rng)
        while follower.extension_type.value.code == 51:
            follower = server_extension(rng)
        exts = [key_share_server_extension(rng), follower] + exts
    return distinct_types(exts)


def extensions_server(rng):
    from cryptoparser.tls import extension as ex
    exts = server_extension_list(rng)
    if not any(e.extension_type.value.code == 51 for e in exts):
        exts = distinct_types([key_share_server_extension(rng)] + exts + [ex.TlsExtensionExtendedMasterSecret()])
    return ex.TlsExtensionsServer(exts)


def extensions_client(rng):
    from cryptoparser.tls import extension as ex
    return ex.TlsExtensionsClient(distinct_types([client_extension(rng) for _ in range(rng.choice([1, 2, 4, 8]))]))


def server_hello(rng, retry=False):
    from cryptoparser.tls.subprotocol import TlsHandshakeServerHello, TlsHandshakeHelloRetryRequest
    from cryptodatahub.tls.algorithm import TlsCipherSuite, TlsCompressionMethod
    exts = server_extension_list(rng)
    if retry:
        return TlsHandshakeHelloRetryRequest(
            cipher_suite=rng.choice(list(TlsCipherSuite)), protocol_version=version(rng), random_bytes=hello_random(rng),
            session_id=session_id(rng), compression_method=rng.choice(list(TlsCompressionMethod)), extensions=exts)
    return TlsHandshakeServerHello(
        protocol_version=version(rng), random=hello_random(rng), session_id=session_id(rng),
        compression_method=rng.choice(list(TlsCompressionMethod)), cipher_suite=rng.choice(list(TlsCipherSuite)),
        extensions=exts)


def certificate(rng):
    from cryptoparser.tls.subprotocol import TlsHandshakeCertificate, TlsCertificates, TlsCertificate
    certs = [TlsCertificate(rbytes(rng, rlen(rng, 300))) for _ in range(rng.choice([1, 1, 2, 4]))]
    return TlsHandshakeCertificate(TlsCertificates(certs))


def server_key_exchange(rng):
    from cryptoparser.tls.subprotocol import TlsHandshakeServerKeyExchange
    return TlsHandshakeServerKeyExchange(rbytes(rng, rlen(rng, 400)))


def certificate_status(rng):
    from cryptoparser.tls.subprotocol import TlsHandshakeCertificateStatus
    from cryptoparser.tls.extension import TlsCertificateStatusType
    return TlsHandshakeCertificateStatus(TlsCertificateStatusType.OCSP, bytearray(rbytes(rng, rlen(rng, 200))))


def server_hello_done(rng):
    from cryptoparser.tls.subprotocol import TlsHandshakeServerHelloDone
    return TlsHandshakeServerHelloDone()


def certificate_request(rng):
    """RFC 5246 7.4.4: certificate_types<1..2^8-1>, supported_signature_algorithms<2..2^16-2> (TLS 1.2 only),
    certificate_authorities<0..2^16-1> of DistinguishedName<1..2^16-1>"""
    from cryptoparser.tls.subprotocol import (TlsHandshakeCertificateRequest, TlsClientCertificateType,
                                              TlsDistinguishedName)
    from cryptodatahub.tls.algorithm import TlsSignatureAndHashAlgorithm
    from cryptoparser.tls.grease import TlsInvalidTypeTwoByte
    all_types = list(TlsClientCertificateType)
    types = [rng.choice(all_types) for _ in range(rng.choice([1, 1, 2, 3, len(all_types), 255]))]
    cas = [TlsDistinguishedName(list(rbytes(rng, rng.choice([1, 2, 30, 120, 300]))))
           for _ in range(rng.choice([0, 0, 1, 2, 5]))]
    algs = None if rng.random() < 0.4 else coded_items(rng, TlsSignatureAndHashAlgorithm, TlsInvalidTypeTwoByte,
                                                       rng.choice([1, 1, 2, 5, 12]))
    return TlsHandshakeCertificateRequest(types, cas, algs)


def handshake(rng):
    return rng.choice([client_hello, client_hello, server_hello, lambda r: server_hello(r, True), certificate,
                       server_key_exchange, certificate_status, server_hello_done, certificate_request])(rng)


# ------------------------------------------------------------------------------------------------
# wire inputs no compose() of the library produces (non-canonical, malformed at a chosen field)
# ------------------------------------------------------------------------------------------------

def _u(n, v):
    return int(v).to_bytes(n, 'big')


def _ext(t, body):
    return _u(2, t) + _u(2, len(body)) + body


def raw_sct(rng, version=0, ts=None, alg=None, tail=b''):
    from cryptodatahub.tls.algorithm import TlsSignatureAndHashAlgorithm
    if ts is None:
        # milliseconds: mostly inside the range of a datetime (also beyond 2^32 seconds), its last value, and values after it
        ts = _u(8, rng.choice([rng.randrange(2 ** 44), rng.randrange(2 ** 44), 2 ** 32 * 1000 + 7, 7258118400 * 1000,
                               MAX_EPOCH_SECONDS * 1000 + 999, (MAX_EPOCH_SECONDS + 1) * 1000, rng.randrange(2 ** 44, 2 ** 64 - 1),
                               2 ** 64 - 2]))
    alg = _u(2, rng.choice(list(TlsSignatureAndHashAlgorithm)).value.code) if alg is None else alg
    ext = rbytes(rng, rng.choice([0, 0, 3]))
    sig = rbytes(rng, rng.choice([0, 8, 70]))
    blob = _u(1, version) + rbytes(rng, 32) + ts + _u(2, len(ext)) + ext + alg + _u(2, len(sig)) + sig + tail
    return _u(2, len(blob)) + blob


def raw_client_extension(rng):
    """SNI outside the identity part of the idna codec, wrong name type, inconsistent list length; ALPN with a name the
    table lacks / an empty name / an empty list; key_share with an empty key; status_request of another type; ..."""
    k = rng.randrange(14)
    if k == 0:
        host = rng.choice([b'xn--bcher-kva.example', b'XN--BCHER-KVA.example', b'b\xc3\xbccher.example', b'a' * 64, b'a..b',
                           b'.a', b'a.' + b'b' * 64 + b'.c', b'\xff\xfe', b'a' * 63 + b'.', b'xn--', b'ab--c.xn--a'])
        return _ext(0, _u(2, 3 + len(host)) + b'\x00' + _u(2, len(host)) + host)
    if k == 1:      # name type 1, list length 0, empty host
        host = rng.choice([b'example.com', b''])
        return _ext(0, _u(2, rng.choice([0, 3 + len(host), 65535])) + _u(1, rng.choice([0, 1, 255])) + _u(2, len(host)) + host)
    if k == 2:      # ALPN: unknown / empty / non-UTF-8 name among known ones
        names = [b'h2', rng.choice([b'h3', b'', b'\xff\xfe', b'H2', b'http/1.1', b'h2 ']), b'http/1.1']
        rng.shuffle(names)
        body = b''.join(_u(1, len(n)) + n for n in names)
        return _ext(rng.choice([16, 17513]), _u(2, len(body)) + body)
    if k == 3:      # ALPN: empty list, list shorter/longer than the extension
        body = rng.choice([b'', b'\x02h2', b'\x02h2\x08http/1.1'])
        return _ext(16, _u(2, rng.choice([0, len(body), len(body) + 1, max(0, len(body) - 1)])) + body)
    if k == 4:      # key_share: empty key for a known group, unknown group with empty data, truncated entry
        entries = rng.choice([_u(2, 29) + _u(2, 0), _u(2, 0x0a0a) + _u(2, 0), _u(2, 29) + _u(2, 32) + rbytes(rng, 31),
                              _u(2, 29), _u(2, 0x7a7a) + _u(2, 1) + b'\x00' + _u(2, 23) + _u(2, 2) + b'ab'])
        return _ext(rng.choice([51, 40]), _u(2, len(entries)) + entries)
    if k == 5:      # status_request: type 2 (ocsp_multi), empty responder id, trailing bytes
        ids = rng.choice([b'', _u(2, 0), _u(2, 3) + b'abc'])
        return _ext(5, _u(1, rng.choice([1, 1, 2, 0])) + _u(2, len(ids)) + ids + _u(2, 0) + rng.choice([b'', b'\x00']))
    if k == 6:      # token_binding: short version, empty parameter list, unknown parameter
        return _ext(24, rng.choice([b'', b'\x01', b'\x01\x00', b'\x01\x00\x00', b'\x01\x00\x02\x02\x7f']))
    if k == 7:      # body shorter than what the class reads: the parser runs into the next extension
        return _ext(rng.choice([0, 16, 51, 5, 24]), b'') + _ext(23, b'')
    if k == 8:      # SNI whose host is long
        host = b'.'.join(b'a' * 63 for _ in range(rng.choice([5, 20])))
        return _ext(0, _u(2, 3 + len(host)) + b'\x00' + _u(2, len(host)) + host)
    return bytes(client_extension(rng).compose())


def raw_server_extension(rng):
    """key_share of two bytes with an unknown group; a server share with an empty key; SCT list items with another version,
    an unknown algorithm, trailing bytes inside the blob, (rarely) the all-ones timestamp; NPN with an unknown name"""
    k = rng.randrange(14)
    if k == 0:
        return _ext(51, _u(2, rng.choice([29, 0x0a0a, 0xffff, 0])))
    if k == 1:
        return _ext(51, _u(2, rng.choice([29, 23, 0x0a0a])) + _u(2, rng.choice([0, 1, 32])) + rbytes(rng, rng.choice([0, 1, 32])))
    if k == 2:
        items = [raw_sct(rng), rng.choice([raw_sct(rng, version=1), raw_sct(rng, alg=b'\xfe\xfe'), raw_sct(rng, tail=b'\x00\x01'),
                                            raw_sct(rng, ts=_u(8, 2 ** 63 + 12345)), raw_sct(rng)[:20], _u(2, 0)])]
        rng.shuffle(items)
        body = b''.join(items)
        return _ext(18, _u(2, len(body)) + body)
    if k == 3 and rng.random() < 0.3:
        body = raw_sct(rng, ts=b'\xff' * 8)
        return _ext(18, _u(2, len(body)) + body)
    if k == 4:      # NPN: unknown / empty name, nothing at all
        names = rng.choice([[b'http/1.1', b'h2'], [b''], [], [b'spdy/3', b'http/1.1'], [b'\xff']])
        return _ext(13172, b''.join(_u(1, len(n)) + n for n in names))
    if k == 5:      # ALPN on the server side with an unknown name
        body = b'\x02h3'
        return _ext(16, _u(2, len(body)) + body)
    if k == 6:      # bodies shorter than what the class reads, followed by another extension
        return _ext(rng.choice([51, 18, 16, 13172]), rng.choice([b'', b'\x00'])) + _ext(23, b'')
    return bytes(server_extension(rng).compose())


def raw_extensions(rng, side):
    """an extension block of the given side around the raw single extensions"""
    parts = [raw_client_extension(rng) if side == 'client' else raw_server_extension(rng) for _ in range(rng.choice([1, 2, 3]))]
    body = b''.join(parts)
    while len(body) > 65535:
        parts.pop()
        body = b''.join(parts)
    return _u(2, len(body)) + body


RAW_INPUTS = [
    ('TlsExtensionVariantClient', raw_client_extension),
    ('TlsExtensionVariantServer', raw_server_extension),
    ('TlsExtensionsClient', lambda r: raw_extensions(r, 'client')),
    ('TlsExtensionsServer', lambda r: raw_extensions(r, 'server')),
]


# (model class name, generator) for the classes inside the Lean model
MODELLED_GENERATORS = [
    ('TlsProtocolVersion', version),
    ('TlsRecord', record),
    ('TlsAlertMessage', alert),
    ('TlsChangeCipherSpecMessage', ccs),
    ('TlsApplicationDataMessage', app_data),
    ('TlsHandshakeClientHello', client_hello),
    ('TlsHandshakeServerHello', server_hello),
    ('TlsHandshakeHelloRetryRequest', lambda r: server_hello(r, True)),
    ('TlsHandshakeCertificate', certificate),
    ('TlsHandshakeServerKeyExchange', server_key_exchange),
    ('TlsHandshakeCertificateStatus', certificate_status),
    ('TlsHandshakeServerHelloDone', server_hello_done),
    ('TlsHandshakeCertificateRequest', certificate_request),
    ('TlsHandshakeMessageVariant', handshake),
    ('TlsExtensionVariantClient', client_extension),
    ('TlsExtensionVariantServer', server_extension),
    ('TlsExtensionsClient', extensions_client),
    ('TlsExtensionsServer', extensions_server),
]
