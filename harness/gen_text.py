# -*- coding: utf-8 -*-
"""Generators of semantic values for the text-field classes: HTTP header field values, header fields, header blocks
and DNS TXT policy records (HSTS, Expect-CT, Expect-Staple, HPKP, Cache-Control, Set-Cookie, Content-Type,
X-XSS-Protection, CSP, NEL, the single-valued fields; DMARC, MTA-STS, TLSRPT, SPF and every SPF term class).

    GENERATORS = [(class name, gen)]        gen(rng) -> an object built with the library's own constructors

The classes are enumerated from the live modules (`FieldValueMultiple` / `FieldsJson` / `FieldValueSingle*`
subclasses, leaves of `HttpHeaderFieldParsedBase`, `ContentSecurityPolicyDirectiveBase`, the SPF term classes); the
value pools are chosen per component KIND (base class in common/field.py) and, for plain strings, per directive name.

Variety on purpose: every directive present/absent, all enum members, booleans, boundary numbers (0, 1, 2^31-1, 2^31,
2^32-1, the largest timedelta), prefix lengths ip4 /0 /8 /24 /32 and ip6 /0 /32 /48 /64 /128 and absent, every SPF
qualifier and absent, URLs with port / query / fragment / user info / IPv6 literal, mailto: URLs with and without
query, mixed-case host names, and — with low probability (`HARD`) — values at the edge of what the spelling can carry:
empty values, values that END in a separator character (`=`, `:`, ` `, `;`, `,`), values containing the list separator
inside a quoted string.  A generator never returns None; a combination the constructor rejects (e.g. Content-Type:
`boundary` iff multipart/message) is retried, and an exception is raised only if 40 attempts fail."""
from __future__ import print_function

import datetime
import inspect
import ipaddress
import sys

from harness import core

if core.REPO not in sys.path:
    sys.path.insert(0, core.REPO)

UTC = datetime.timezone.utc
MAX_TD = 86399999999999          # datetime.timedelta.max, in seconds
HARD = 0.12                      # probability of an edge-of-the-domain value where one exists


def _mods():
    from cryptoparser.common import field as F
    from cryptoparser.httpx import header as H
    from cryptoparser.httpx import parse as HP
    from cryptoparser.dnsrec import txt as T
    return F, H, HP, T


def all_subclasses(cls):
    out = []
    for sub in cls.__subclasses__():
        if sub not in out:
            out.append(sub)
        for s in all_subclasses(sub):
            if s not in out:
                out.append(s)
    return out


def _library(cls):
    return cls.__module__.startswith('cryptoparser.')


# ------------------------------------------------------------------------------------------------
# scalar pools
# ------------------------------------------------------------------------------------------------

def seconds(rng):
    return rng.choice([0, 1, 59, 300, 3600, 86400, 31536000, 63072000, 2 ** 31 - 1, 2 ** 31, 2 ** 32 - 1, 2 ** 32, MAX_TD,
                       rng.randrange(2, 10 ** 9)])


def date_time(rng):
    return rng.choice([
        datetime.datetime(1970, 1, 1, tzinfo=UTC), datetime.datetime(1994, 11, 6, 8, 49, 37, tzinfo=UTC),
        datetime.datetime(2000, 2, 29, 23, 59, 59, tzinfo=UTC), datetime.datetime(2001, 9, 9, 1, 46, 40, tzinfo=UTC),
        datetime.datetime(2030, 1, 2, 3, 4, 5, tzinfo=UTC), datetime.datetime(2038, 1, 19, 3, 14, 8, tzinfo=UTC),
        datetime.datetime(2024, 12, 31, 23, 59, 59, tzinfo=UTC), datetime.datetime(2030, 1, 2, 3, 4, 5),     # naive
        datetime.datetime(9999, 12, 31, 23, 59, 59, tzinfo=UTC),
        datetime.datetime(2025, 6, 1, 12, 0, 0, tzinfo=UTC) + datetime.timedelta(seconds=rng.randrange(0, 10 ** 8)),
    ])


HTTP_URLS = [
    'https://example.com/report', 'https://example.com', 'https://example.com/', 'http://a.example/r?x=1&y=2',
    'https://report.example.org:8443/hpkp', 'https://Example.COM/Mixed/Case', 'https://example.com/r#fragment',
    'https://user@example.com:8443/p?x=1#f', 'http://[2001:db8::1]/r', 'https://example.com/a%20b', 'https://xn--bcher-kva.example/r',
    'https://example.com/r?next=https://other.example/', '//example.com/protocol-relative', '/relative/path',
]
HARD_URLS = ['https://example.com/r?q=', 'https://example.com/r?token=abc=', 'https://example.com/path:', 'https://example.com/r;a=1',
             'https://example.com/r?a=1,2', 'https://example.com/?', 'https://example.com/#']
MAILTO_URLS = ['mailto:dmarc-report@example.com', 'mailto:a@b.example', 'mailto:Reports@Example.COM', 'mailto:a+tag@example.com',
               'mailto:tls-report@example.com?subject=report', 'mailto:a@example.com!10m']


def http_url(rng):
    return rng.choice(HARD_URLS) if rng.random() < HARD else rng.choice(HTTP_URLS)


def report_url(rng):
    """DMARC rua/ruf, TLSRPT rua: mailto: or https:"""
    if rng.random() < 0.6:
        return rng.choice(MAILTO_URLS)
    return http_url(rng)


def base64_text(rng):
    return rng.choice(['AAAAAAAAAAAAAAAAAAAAAAAAAAAAAAAAAAAAAAAAAAA=', 'AAECAwQFBgcICQoLDA0ODxAREhMUFRYXGBkaGxwdHh8=',
                       '//////////////////////////////////////////8=', 'cGluLXNoYTI1Ng==', 'YQ==', 'YWI=', 'YWJj', '+/+/', ''])


STRINGS = {
    'charset': (['utf-8', 'UTF-8', 'ISO-8859-1', 'US-ASCII', 'windows-1252'], ['', 'x=', 'a b', 'utf-8;']),
    'boundary': (['boundary_pattern', 'gc0p4Jq0M2Yt08jU534c0p', '----=_Part_0_1', 'a'], ['', 'b=', 'with space', 'semi;colon', 'colon:']),
    'domain': (['example.com', '.example.org', 'Example.COM', 'sub.a.b.example', 'localhost', 'xn--bcher-kva.example'], ['', 'example.com.', 'a=']),
    'path': (['/', '/a/b', '/A/b.html', '/a%20b', '/~user'], ['', '/a=', '/a b', '/a;b', '/trailing/ ']),
    'report': (['https://report.example.com/x', 'http://example.com', '/relative'], ['', 'https://example.com/r?a=', 'https://example.com/r;a=1']),
    'id': (['20160831085700Z', '1', 'a' * 32, 'AbC123'], ['', 'a=', 'a b']),
    'report_to': (['group1', 'default', 'csp-endpoint'], ['', 'a"b', 'with space', 'a=']),
}


def string_for(name, rng):
    normal, hard = STRINGS.get(name.lower(), (['token1', 'v2', 'MixedCase'], ['', 'x=', 'a b', 'a:']))
    return rng.choice(hard) if rng.random() < HARD else rng.choice(normal)


def mime_type(rng):
    F = _mods()[0]
    R = F.MimeTypeRegistry
    registry = rng.choice(list(R))
    sub = {R.TEXT: ['html', 'plain', 'css'], R.APPLICATION: ['json', 'vnd.api+json', 'x-www-form-urlencoded', 'octet-stream'],
           R.IMAGE: ['png', 'svg+xml'], R.MULTIPART: ['form-data', 'mixed', 'byteranges'], R.MESSAGE: ['bhttp', 'http']}.get(registry, ['x-test', 'example'])
    return F.FieldValueMimeType(rng.choice(sub + (['HTML', 'x.y-z'] if rng.random() < HARD else [])), registry)


def component_value(component, rng):
    """a raw value the attribute's converter accepts, by the component's base class"""
    F, _, _, _ = _mods()
    name = ''
    try:
        name = component.get_canonical_name()
    except Exception:  # pylint: disable=broad-except
        pass
    if issubclass(component, F.FieldValueMimeType):
        return mime_type(rng)
    if issubclass(component, F.FieldValueComponentOption):
        return rng.random() < 0.5
    if issubclass(component, F.FieldValueComponentTimeDelta):
        return datetime.timedelta(seconds=seconds(rng)) if rng.random() < 0.5 else seconds(rng)
    if issubclass(component, F.FieldValueComponentDateTime):
        return date_time(rng)
    if issubclass(component, F.FieldValueComponentStringBase64):
        return base64_text(rng)
    if issubclass(component, F.FieldValueComponentQuotedString):
        return http_url(rng)
    if issubclass(component, F.FieldValueComponentBool):
        return rng.random() < 0.5
    if issubclass(component, F.FieldValueComponentFloat):
        return rng.choice([0.0, 1.0, 0.5, 0.25, 0.01, 0.999, 1, 0])
    if issubclass(component, F.FieldValueComponentPercent):
        return rng.choice([0, 1, 50, 99, 100])
    if issubclass(component, F.FieldValueComponentNumber):
        return rng.choice([0, 1, 3600, 86400, 2 ** 31 - 1, 2 ** 32 - 1])
    if issubclass(component, F.FieldValueComponentStringEnum):
        return rng.choice(list(component._get_value_type()))  # pylint: disable=protected-access
    if issubclass(component, F.FieldValueComponentParsableBase):
        vc = component._get_value_class()  # pylint: disable=protected-access
        if inspect.isclass(vc) and hasattr(vc, '__members__'):
            return rng.choice(list(vc))
        if vc.__name__ == 'SpfDomainSpec':
            return vc(domain_spec(rng))
        raise NotImplementedError(vc.__name__)
    if issubclass(component, F.FieldValueComponentUrl):
        return report_url(rng)
    if issubclass(component, F.FieldValueComponentString):
        return string_for(name, rng)
    raise NotImplementedError(component.__name__)


def _retry(build, rng, what):
    last = None
    for _ in range(40):
        try:
            return build(rng)
        except NotImplementedError:
            raise
        except Exception as e:  # pylint: disable=broad-except
            last = e
    raise RuntimeError('no constructible value for {}: {!r}'.format(what, last))


def attrs_object(cls, rng, fixed=None, present=0.5):
    """an instance of an attrs class whose attributes are component-typed (`FieldValueMultiple`, `FieldsJson`)"""
    import attr
    fields = attr.fields_dict(cls)
    types = cls._get_attr_to_validator_type_dict(fields)  # pylint: disable=protected-access
    mode = [rng.random()]               # all-present / all-absent / mixed
    attempts = [0]

    def build(r):
        attempts[0] += 1
        if attempts[0] > 12:
            mode[0] = 0.0               # some classes cannot be built with an optional part absent: fall back to all-present
        kwargs = dict(fixed or {})
        for name, attribute in fields.items():
            if name in kwargs:
                continue
            if attribute.metadata.get('extension', False):
                if r.random() < 0.4:
                    kwargs[name] = pair_list(attribute.validator.validator.type if hasattr(attribute.validator, 'validator')
                                             else attribute.validator.type, r, nonempty=True, plain=True)
                continue
            required = attribute.default is attr.NOTHING
            take = required or (mode[0] < 0.15) or (mode[0] >= 0.3 and r.random() < present)
            if take:
                kwargs[name] = component_value(types[name], r)
        return cls(**kwargs)
    return _retry(build, rng, cls.__name__)


# ------------------------------------------------------------------------------------------------
# name/value pairs
# ------------------------------------------------------------------------------------------------

def pair_list(cls, rng, nonempty=False, plain=False):
    import collections
    names = ['a', 'extension_name', 'x-custom', 'Key', 'k2', 'flag']
    values = ['1', 'value', 'extension_value', 'MixedCase', 'a.b-c_d'] + ([] if plain else [None, '', 'x=y', 'ends=', 'a b'])
    n = rng.randrange(1 if nonempty else 0, 4)
    items = collections.OrderedDict()
    for name in rng.sample(names, n):
        items[name] = rng.choice(values)
    return cls(items)


def name_value_pair(rng):
    F = _mods()[0]
    name = rng.choice(['a', 'max-age', 'Name', 'x_y', 'n1'])
    value = rng.choice([None, '', '1', 'value', 'x=y', 'ends=', 'a b', 'semi;colon', 'q"uote'])
    quoted = bool(value) and rng.random() < 0.3
    return F.NameValuePair(name, value, quoted if value is not None else False)


# ------------------------------------------------------------------------------------------------
# Set-Cookie, CSP, NEL, single-valued fields
# ------------------------------------------------------------------------------------------------

def set_cookie(rng):
    import attr
    _, H, _, _ = _mods()
    params = attrs_object(H.HttpHeaderFieldValueSetCookieParams, rng)
    name = rng.choice(['name', 'SID', '__Host-id', '__Secure-x', 'a', 'lang'])
    value = rng.choice(['value', '31d4d96e407aad42', 'en-US', 'a.b-c_d', 'MixedCase'] if rng.random() >= HARD else ['', 'ends=', 'a=b', '"quoted"', 'x:'])
    kwargs = {n: getattr(params, n) for n in attr.fields_dict(type(params))}
    return H.HttpHeaderFieldValueSetCookie(name, value, **kwargs)


def csp_source(rng, frame_ancestors=False):
    _, H, _, _ = _mods()
    K = H.ContentSecurityPolicySourceKeyword
    kind = rng.choice(['keyword', 'scheme', 'host', 'host'] + ([] if frame_ancestors else ['nonce', 'hash']))
    if kind == 'keyword':
        return rng.choice([K.SELF, K.NONE]) if frame_ancestors else rng.choice(list(K))
    if kind == 'scheme':
        return H.ContentSecurityPolicySourceScheme(rng.choice(['https', 'http', 'data', 'blob', 'wss']))
    if kind == 'nonce':
        return H.ContentSecurityPolicySourceNonce(rng.choice(['YWJj', 'AAECAwQFBgcICQoLDA0ODw==', 'cmFuZG9t']))
    if kind == 'hash':
        from cryptodatahub.common.algorithm import Hash
        alg, size = rng.choice([(Hash.SHA2_256, 32), (Hash.SHA2_384, 48), (Hash.SHA2_512, 64)])
        import base64
        return H.ContentSecurityPolicySourceHash(alg, base64.b64encode(bytes(bytearray(rng.randrange(256) for _ in range(size)))).decode('ascii'))
    return H.ContentSecurityPolicySourceHost(rng.choice([
        '*', 'example.com', '*.example.com', 'https://cdn.example.com', 'https://Example.COM', 'https://example.com:443', 'https://example.com:*',
        'https://example.com/path/', 'https://example.com/file.js', 'wss://ws.example.com', 'http://[2001:db8::1]', 'example.com:8080']))


def csp_directive(cls, rng):
    _, H, _, _ = _mods()
    F = _mods()[0]
    if issubclass(cls, H.ContentSecurityPolicyDirectiveNoValueBase):
        return cls()
    if issubclass(cls, H.ContentSecurityPolicyDirectiveFrameAncestors):
        return cls([csp_source(rng, True) for _ in range(rng.randrange(1, 4))])
    if issubclass(cls, H.ContentSecurityPolicyDirectiveSourceBase):
        return cls([csp_source(rng) for _ in range(rng.randrange(1, 5))])
    if issubclass(cls, H.ContentSecurityPolicyDirectiveValueBase):
        return cls(rng.choice(list(cls._get_value_class())))  # pylint: disable=protected-access
    if issubclass(cls, H.ContentSecurityPolicyDirectiveSandbox):
        return cls([rng.choice(['allow-forms', 'allow-scripts', 'allow-same-origin', 'allow-popups', 'Allow-Modals'])
                    for _ in range(rng.randrange(0, 4))])
    if issubclass(cls, H.ContentSecurityPolicyDirectivePluginTypes):
        return cls([mime_type(rng) for _ in range(rng.randrange(0, 3))])
    if issubclass(cls, H.ContentSecurityPolicyDirectiveRequireTrustedTypesFor):
        return cls([H.ContentSecurityPolicyTrustedTypeSinkGroup.SCRIPT] * rng.randrange(0, 2))
    if issubclass(cls, H.ContentSecurityPolicyDirectiveReportUri):
        return cls([rng.choice(['/csp', '/csp-report?x=1', 'https://example.com/csp', 'https://Example.COM/r#f', '//example.com/r'])
                    for _ in range(rng.randrange(1, 4))])
    if issubclass(cls, H.ContentSecurityPolicyDirectiveReportTo):
        return cls(rng.choice(['group1', 'csp-endpoint', 'Default']))
    raise NotImplementedError(cls.__name__)


def csp_directive_classes():
    _, H, _, _ = _mods()
    from cryptoparser.common.utils import get_leaf_classes
    return [c for c in get_leaf_classes(H.ContentSecurityPolicyDirectiveBase) if _library(c)]


def csp(rng):
    _, H, _, _ = _mods()
    classes = csp_directive_classes()
    chosen = rng.sample(classes, rng.randrange(1, min(6, len(classes)) + 1))      # a directive name at most once
    return H.HttpHeaderFieldValueContentSecurityPolicy([csp_directive(c, rng) for c in chosen])


def single(cls, rng):
    F = _mods()[0]
    if issubclass(cls, F.FieldValueStringEnum):
        return cls(rng.choice(list(cls._get_value_type())))  # pylint: disable=protected-access
    if issubclass(cls, F.FieldValueDateTime):
        return cls(date_time(rng))
    if issubclass(cls, F.FieldValueTimeDelta):
        return cls(datetime.timedelta(seconds=seconds(rng)))
    if cls.__name__ == 'ContentSecurityPolicyReportUri':
        return cls(rng.choice(['/csp-report', '/csp?x=1', 'https://example.com/csp', 'https://Example.COM/r#f', '//example.com/r']))
    if issubclass(cls, F.FieldValueStringBySeparatorBase):
        return cls(rng.choice(['token', 'allow-forms', 'group1', 'A-b_c', 'csp-endpoint', 'x1']))
    if issubclass(cls, F.FieldValueString):
        normal = ['"33a64df551425fcc55e4d42a148795d9f25f89d4"', 'W/"0815"', 'Apache/2.4.41 (Ubuntu)', 'nginx', 'Microsoft-IIS/10.0', 'x', '""']
        hard = ['ends=', 'ends:', 'a  b', 'semi;colon, comma', 'trailing ']
        return cls(rng.choice(hard) if rng.random() < HARD else rng.choice(normal))
    if cls.__name__ == 'SpfDomainSpec':
        return cls(domain_spec(rng))
    raise NotImplementedError(cls.__name__)


# ------------------------------------------------------------------------------------------------
# SPF
# ------------------------------------------------------------------------------------------------

def domain_spec(rng):
    return rng.choice(['example.com', '_spf.example.com', 'Example.COM', 'mail.a.b.example', '%{d}', '_spf.%{d}', '%{i}._spf.%{d2}',
                       '%{ir}.%{v}._spf.%{d}', 'example.com.', 'a-b.example', 'xn--bcher-kva.example'])


def qualifier(rng):
    T = _mods()[3]
    return rng.choice([None, None] + list(T.SpfQualifier))


def spf_term(cls, rng):
    T = _mods()[3]
    q = qualifier(rng)
    if cls is T.DnsRecordTxtValueSpfDirectiveAll:
        return cls(q)
    if issubclass(cls, T.DnsRecordTxtValueSpfDirectiveDomainCidr):
        v4 = rng.choice([None, None, 0, 8, 24, 32])
        v6 = rng.choice([None, None, 0, 32, 48, 64, 128])
        dom = rng.choice([None, domain_spec(rng)])
        return cls(domain=dom, ipv4_cidr_length=v4, ipv6_cidr_length=v6, qualifier=q)
    if issubclass(cls, T.DnsRecordTxtValueSpfDirectivePtr):
        return cls(domain=rng.choice([None, domain_spec(rng)]), qualifier=q)
    if issubclass(cls, T.DnsRecordTxtValueSpfDirectiveDomain):
        return cls(domain=domain_spec(rng), qualifier=q)
    if cls is T.DnsRecordTxtValueSpfDirectiveIp4:
        net = rng.choice(['0.0.0.0/0', '10.0.0.0/8', '192.0.2.0/24', '198.51.100.128/25', '192.0.2.1/32', '203.0.113.7'])
        return cls(ipaddress.ip_network(net), q)
    if cls is T.DnsRecordTxtValueSpfDirectiveIp6:
        net = rng.choice(['::/0', '2001:db8::/32', '2001:db8:1::/48', '2001:db8:1:2::/64', '2001:db8::1/128', '2001:db8::1', '::1', '::ffff:192.0.2.0/120'])
        return cls(ipaddress.ip_network(net), q)
    if issubclass(cls, T.DnsRecordTxtValueSpfModifierKnownBase):
        return cls(T.SpfDomainSpec(domain_spec(rng)))
    if cls is T.DnsRecordTxtValueSpfModifierUnknown:
        value = rng.choice(['bar', 'x.example', '%{d}', 'MixedCase'] if rng.random() >= HARD else ['', 'ends=', 'a=b', 'x:'])
        return cls(rng.choice(['foo', 'x-custom', 'ra', 'rp', 'rr']), value)
    raise NotImplementedError(cls.__name__)


def spf_term_classes():
    T = _mods()[3]
    out = [c for c in all_subclasses(T.DnsRecordTxtValueSpfDirectiveBase) + all_subclasses(T.DnsRecordTxtValueSpfModifierKnownBase)
           if not inspect.isabstract(c) and _library(c)]
    return out + [T.DnsRecordTxtValueSpfModifierUnknown]


def spf(rng):
    T = _mods()[3]
    classes = spf_term_classes()
    mechanisms = [c for c in classes if issubclass(c, T.DnsRecordTxtValueSpfDirectiveBase) and c is not T.DnsRecordTxtValueSpfDirectiveAll]
    modifiers = [c for c in classes if not issubclass(c, T.DnsRecordTxtValueSpfDirectiveBase)]
    terms = [spf_term(c, rng) for c in (rng.choice(mechanisms) for _ in range(rng.randrange(0, 5)))]
    if rng.random() < 0.7:
        terms.append(spf_term(T.DnsRecordTxtValueSpfDirectiveAll, rng))
    for c in rng.sample(modifiers, rng.randrange(0, len(modifiers) + 1)):      # a modifier name at most once (RFC 7208 §6)
        terms.append(spf_term(c, rng))
    return T.DnsRecordTxtValueSpf(terms)


# ------------------------------------------------------------------------------------------------
# header fields and blocks
# ------------------------------------------------------------------------------------------------

def value_generators():
    """{value class: gen} for everything a header field can carry"""
    F, H, _, T = _mods()
    out = {}
    for cls in all_subclasses(F.FieldValueMultiple) + all_subclasses(F.FieldsJson):
        import attr
        if not inspect.isabstract(cls) and attr.has(cls) and _library(cls):
            out[cls] = (lambda c: lambda rng: attrs_object(c, rng))(cls)
    out[H.HttpHeaderFieldValueSetCookie] = set_cookie
    out[H.HttpHeaderFieldValueContentSecurityPolicy] = csp
    for cls in all_subclasses(F.FieldValueSingleBase):
        if not inspect.isabstract(cls) and _library(cls):
            out[cls] = (lambda c: lambda rng: single(c, rng))(cls)
    out[T.DnsRecordTxtValueSpf] = spf
    return out


def header_field_classes():
    _, H, _, _ = _mods()
    from cryptoparser.common.utils import get_leaf_classes
    return [c for c in get_leaf_classes(H.HttpHeaderFieldParsedBase) if _library(c)]


def header_field(cls, rng, values=None):
    values = values or value_generators()
    return cls(values[cls._get_value_class()](rng))  # pylint: disable=protected-access


def unparsed_field(rng):
    _, H, _, _ = _mods()
    name = rng.choice(['X-Custom', 'Via', 'Content-Length', 'x-lower', 'X-UPPER', 'Accept-Ranges'])
    value = rng.choice(['some value', '1.1 proxy.example', '0', 'bytes', 'a, b;c=d', 'MixedCase'] if rng.random() >= HARD else ['', 'ends=', 'ends:', 'a  b'])
    return H.HttpHeaderFieldUnparsed(name, value)


def header_fields(rng):
    _, H, _, _ = _mods()
    values = value_generators()
    classes = header_field_classes()
    items = []
    for _ in range(rng.randrange(0, 7)):
        if rng.random() < 0.7:
            items.append(header_field(rng.choice(classes), rng, values))
        else:
            items.append(unparsed_field(rng))
    return H.HttpHeaderFields(items)


def _build():
    F, H, _, T = _mods()
    gens = []
    values = value_generators()
    for cls, gen in values.items():
        gens.append((cls.__name__, gen))
    for cls in csp_directive_classes():
        gens.append((cls.__name__, (lambda c: lambda rng: csp_directive(c, rng))(cls)))
    for cls in spf_term_classes():
        gens.append((cls.__name__, (lambda c: lambda rng: spf_term(c, rng))(cls)))
    for cls in header_field_classes():
        gens.append((cls.__name__, (lambda c: lambda rng: header_field(c, rng, values))(cls)))
    gens.append(('HttpHeaderFieldUnparsed', unparsed_field))
    gens.append(('HttpHeaderFields', header_fields))
    gens.append(('NameValuePair', name_value_pair))
    for cls in all_subclasses(F.NameValuePairList):
        if not inspect.isabstract(cls) and _library(cls):
            gens.append((cls.__name__, (lambda c: lambda rng: pair_list(c, rng))(cls)))
    gens.append(('FieldValueMimeType', mime_type))
    seen, out = set(), []
    for name, gen in gens:
        if name not in seen:
            seen.add(name)
            out.append((name, gen))
    return out


GENERATORS = _build()
CLASSES = None


def classes():
    """{class name: class} for the names in GENERATORS"""
    global CLASSES  # pylint: disable=global-statement
    if CLASSES is None:
        F, H, HP, T = _mods()
        CLASSES = {}
        for mod in (F, H, HP, T):
            for name, obj in vars(mod).items():
                if inspect.isclass(obj) and _library(obj):
                    CLASSES.setdefault(name, obj)
    return {name: CLASSES[name] for name, _ in GENERATORS if name in CLASSES}


# ------------------------------------------------------------------------------------------------
# values the text spelling cannot carry
# ------------------------------------------------------------------------------------------------
# The constructors accept any string for a component value, but the composers write it verbatim: a value that is
# empty, contains the list/pair separator, a blank or a quote cannot be told apart from syntax once it is on the wire.
# Objects carrying one of these literals are reported under their own key (`unrepresentable-value:<Class>`), so that
# every OTHER round-trip failure of the same class stays a violation.
AMBIGUOUS_LITERALS = {
    '', 'a b', 'utf-8;', 'with space', 'semi;colon', '/a b', '/a;b', '/trailing/ ', 'a"b', 'q"uote', '"quoted"', 'trailing ',
    'a  b', 'https://example.com/r;a=1', 'https://example.com/r?a=1,2', 'https://example.com/#', 'https://example.com/?',
    'example.com.', 'x=y', 'a=b',
}


def _strings(obj, depth=0, seen=None):
    import attr
    if seen is None:
        seen = set()
    if id(obj) in seen or depth > 6:
        return
    seen.add(id(obj))
    if isinstance(obj, str):
        yield obj
        return
    if isinstance(obj, (bytes, bytearray, int, float, bool)) or obj is None:
        return
    if type(obj).__name__ == 'Base64Data':
        yield str(obj)          # an empty base64 value is spelled as the empty string
        return
    if type(obj).__module__.startswith('urllib3'):
        yield str(obj)
        for part in obj:
            if isinstance(part, str):
                yield part
        return
    if isinstance(obj, dict):
        for k, v in obj.items():
            for x in _strings(k, depth + 1, seen):
                yield x
            for x in _strings(v, depth + 1, seen):
                yield x
        return
    is_array = False
    try:
        from cryptoparser.common.base import ArrayBase
        is_array = isinstance(obj, ArrayBase)
    except ImportError:
        pass
    if isinstance(obj, (list, tuple, set, frozenset)) or is_array:    # never iterate arbitrary iterables (ip networks!)
        try:
            for item in list(obj)[:50]:
                for x in _strings(item, depth + 1, seen):
                    yield x
        except Exception:  # pylint: disable=broad-except
            pass
        return
    if attr.has(type(obj)):
        for f in attr.fields(type(obj)):
            try:
                v = getattr(obj, f.name)
            except Exception:  # pylint: disable=broad-except
                continue
            for x in _strings(v, depth + 1, seen):
                yield x
    elif hasattr(obj, '__dict__'):
        for v in vars(obj).values():
            for x in _strings(v, depth + 1, seen):
                yield x


def is_ambiguous(obj):
    """does the object carry a value the spelling cannot represent (see AMBIGUOUS_LITERALS)"""
    for text in _strings(obj):
        if text in AMBIGUOUS_LITERALS or text != text.strip(' \t') or '/a;b' in text or 'r;a=1' in text or 'a=1,2' in text:
            return True
    return False


if __name__ == '__main__':
    import random
    from harness import canon
    r = random.Random(int(sys.argv[1]) if len(sys.argv) > 1 else 0)
    bad = {}
    for name, gen in GENERATORS:
        ok = 0
        for _ in range(int(sys.argv[2]) if len(sys.argv) > 2 else 50):
            try:
                obj = gen(r)
            except Exception as e:  # pylint: disable=broad-except
                bad.setdefault(name, []).append('generator: {!r}'.format(e))
                continue
            try:
                data = bytes(obj.compose())
                back = type(obj).parse_exact_size(data) if not name.startswith('HttpHeaderField') or name in ('HttpHeaderFields',) or 'Value' in name \
                    else type(obj).parse_immutable(data + b'\r\n')[0]
                if canon.generic(back) != canon.generic(obj):
                    bad.setdefault(name, []).append('roundtrip {!r}'.format(data))
                else:
                    ok += 1
            except Exception as e:  # pylint: disable=broad-except
                bad.setdefault(name, []).append('{}: {!r}'.format(type(e).__name__, str(e)[:80]))
        print('{:60s} {} ok'.format(name, ok))
    for name, msgs in sorted(bad.items()):
        print(name, len(msgs), msgs[:3])
