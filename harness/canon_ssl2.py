# -*- coding: utf-8 -*-
"""Canonical renderings of the SSL 2.0 record layer and its three message classes; must coincide
character for character with `lean/CpModel/Tls/Ssl2Canon.lean`.

`ClassName(field,...)`; naturals in decimal; bytes in hex (`-` when empty); a cipher kind as
`E<code>`; lists as `[a,b]`; booleans as `T`/`F`."""
from harness import canon, core
from harness.core import hx


def c_kinds(kinds):
    return canon.c_list(['E{}'.format(k.value.code) for k in kinds])


def c_msg(m):
    name = type(m).__name__
    if name == 'SslErrorMessage':
        return 'SslErrorMessage({})'.format(int(m.error_type))
    if name == 'SslHandshakeClientHello':
        return 'SslHandshakeClientHello({},{},{})'.format(c_kinds(m.cipher_kinds), hx(m.session_id), hx(m.challenge))
    if name == 'SslHandshakeServerHello':
        return 'SslHandshakeServerHello({},{},{},{})'.format(
            hx(m.certificate), c_kinds(m.cipher_kinds), hx(m.connection_id), canon.c_bool(m.session_id_hit))
    raise canon.Unmodelled(name)


def c_record(r):
    return 'SslRecord({})'.format(c_msg(r.message))


_HAS_SSL2 = None


def driver_has_ssl2():
    """The SSL 2.0 classes take part in the class-level correspondence only when the driver that is in use was
    built with them (`ssl2Classes` is part of `allClasses` in CpModel/Drv/Class.lean, so `CLASSES` lists them)."""
    global _HAS_SSL2  # pylint: disable=global-statement
    if _HAS_SSL2 is None:
        try:
            _HAS_SSL2 = 'SslRecord' in core.run_driver(['CLASSES'])[0].split(' ')
        except Exception:  # pylint: disable=broad-except
            _HAS_SSL2 = False
    return _HAS_SSL2


def modelled():
    """lean class name -> (python class, canon function); empty while the driver does not know the family"""
    if not driver_has_ssl2():
        return {}
    from cryptoparser.tls import record, subprotocol as sp
    return {
        'SslRecord': (record.SslRecord, c_record),
        'SslErrorMessage': (sp.SslErrorMessage, c_msg),
        'SslHandshakeClientHello': (sp.SslHandshakeClientHello, c_msg),
        'SslHandshakeServerHello': (sp.SslHandshakeServerHello, c_msg),
    }
