# -*- coding: utf-8 -*-
"""The check pipeline: extract -> prove (lake build + axiom audit) -> correspond -> decide."""
from __future__ import print_function

import fcntl
import importlib
import json
import os
import re
import subprocess
import sys
import time

from harness import core

LEAN = core.LEAN
ALLOWED_AXIOMS = {'propext', 'Classical.choice', 'Quot.sound'}
FORBIDDEN = re.compile(r'\b(sorry|admit|native_decide|bv_decide|implemented_by)\b|^\s*axiom\s|unsafe\s|maxHeartbeats\s+0')

TRUSTED_BASE = [
    "Lean 4.33.0 kernel; axioms limited to propext, Classical.choice, Quot.sound (audited with #print axioms on every run)",
    "tools/extract.py: the generated Lean tables equal the live Python data (cross-checked by the correspondence on every table member)",
    "the hand-written Lean model of the code, tied to /repo by the differential correspondence check of this run",
    "the Lean compiler/runtime for the driver cpdrv (its output is compared with the implementation)",
    "CPython, struct, hashlib, datetime/calendar, json, attrs, six",
]


def sh(cmd, cwd=None, timeout=None, env=None):
    proc = subprocess.run(cmd, cwd=cwd, stdout=subprocess.PIPE, stderr=subprocess.STDOUT,
                          universal_newlines=True, timeout=timeout, env=env, check=False)
    return proc.returncode, proc.stdout


class Lock(object):
    def __enter__(self):
        self.f = open(os.path.join(core.VERIF, '.lock'), 'w')
        fcntl.flock(self.f, fcntl.LOCK_EX)
        return self

    def __exit__(self, *args):
        fcntl.flock(self.f, fcntl.LOCK_UN)
        self.f.close()


def extract():
    env = dict(os.environ)
    env['CP_REPO'] = core.REPO
    rc, out = sh(['/venv/bin/python', os.path.join(core.VERIF, 'tools', 'extract.py')], env=env, timeout=300)
    return rc == 0, out


def strip_comments(text):
    text = re.sub(r'/-.*?-/', '', text, flags=re.S)
    text = re.sub(r'--.*', '', text)
    return text


def lean_files_of(module):
    """Transitive closure of project-local imports of a Lean module."""
    seen = []
    todo = [module]
    while todo:
        mod = todo.pop()
        if mod in seen:
            continue
        path = os.path.join(LEAN, *mod.split('.')) + '.lean'
        if not os.path.exists(path):
            continue
        seen.append(mod)
        with open(path) as f:
            for line in f:
                m = re.match(r'\s*import\s+(\S+)', line)
                if m and m.group(1).split('.')[0] in ('CpModel', 'CpSpec', 'CpProofs', 'CpProps'):
                    todo.append(m.group(1))
    return seen


def grep_forbidden(modules):
    hits = []
    for mod in modules:
        path = os.path.join(LEAN, *mod.split('.')) + '.lean'
        with open(path) as f:
            text = strip_comments(f.read())
        for i, line in enumerate(text.split('\n')):
            if FORBIDDEN.search(line):
                hits.append('{}: {}'.format(mod, line.strip()))
    return hits


def theorems_of(module):
    path = os.path.join(LEAN, *module.split('.')) + '.lean'
    with open(path) as f:
        text = strip_comments(f.read())
    ns = None
    m = re.search(r'^namespace\s+(\S+)', text, flags=re.M)
    if m:
        ns = m.group(1)
    names = re.findall(r'^\s*(?:private\s+|protected\s+)?theorem\s+(\S+)', text, flags=re.M)
    return [(ns + '.' + n) if ns else n for n in names]


def build(targets, timeout=3000):
    rc, out = sh(['lake', 'build'] + list(targets), cwd=LEAN, timeout=timeout)
    return rc == 0, out


def failing_decls(log):
    """Names of the declarations a failed build complains about (file:line -> theorem)."""
    out = []
    for m in re.finditer(r'error: (\S+\.lean):(\d+):(\d+): (.*)', log):
        path, line = m.group(1), int(m.group(2))
        full = os.path.join(LEAN, path) if not os.path.isabs(path) else path
        decl = None
        try:
            with open(full) as f:
                lines = f.read().split('\n')
            for i in range(min(line, len(lines)) - 1, -1, -1):
                mm = re.match(r'\s*(?:theorem|def|example|lemma|instance)\s*(\S*)', lines[i])
                if mm:
                    decl = mm.group(1) or 'example'
                    break
        except IOError:
            pass
        out.append({'file': path, 'line': line, 'decl': decl, 'message': m.group(4)[:300]})
    return out


def audit_axioms(module, theorems):
    """#print axioms for every property theorem; returns {theorem: [axioms]} and the raw output."""
    if not theorems:
        return {}, ''
    src = ['import {}'.format(module)] + ['#print axioms {}'.format(t) for t in theorems]
    path = os.path.join(LEAN, '.lake', 'audit_{}.lean'.format(module.replace('.', '_')))
    os.makedirs(os.path.dirname(path), exist_ok=True)
    with open(path, 'w') as f:
        f.write('\n'.join(src) + '\n')
    rc, out = sh(['lake', 'env', 'lean', path], cwd=LEAN, timeout=1200)
    res = {}
    for m in re.finditer(r"'([^']+)' (does not depend on any axioms|depends on axioms: \[([^\]]*)\])", out, flags=re.S):
        axs = [a.strip() for a in (m.group(3) or '').replace('\n', ' ').split(',') if a.strip()]
        res[m.group(1)] = axs
    return res, out


def prove(prop_modules):
    """Build the property modules, audit them.  Returns a dict describing the proof side."""
    info = {'obligations': 0, 'discharged': 0, 'broken': [], 'theorems': [], 'audit_failures': [], 'log_tail': ''}
    with Lock():
        ok, out = extract()
        if not ok:
            info['infra_error'] = 'extractor failed:\n' + out[-3000:]
            return info
        info['extract'] = out.strip().split('\n')[-1]
        ok, log = build(list(prop_modules) + ['cpdrv'])
        info['build_ok'] = ok
        if not ok:
            info['log_tail'] = log[-6000:]
            info['broken'] = failing_decls(log)
            # the driver may still be buildable (e.g. only a `decide` over regenerated data failed)
            okd, logd = build(['cpdrv'])
            info['driver_ok'] = okd
            if not okd:
                info['log_tail'] += '\n--- cpdrv ---\n' + logd[-3000:]
        else:
            info['driver_ok'] = True
        all_thms = []
        for mod in prop_modules:
            all_thms.extend((mod, t) for t in theorems_of(mod))
        info['obligations'] = len(all_thms)
        info['theorems'] = [t for _, t in all_thms]
        if ok:
            deps = []
            for mod in prop_modules:
                for d in lean_files_of(mod):
                    if d not in deps:
                        deps.append(d)
            hits = grep_forbidden(deps)
            if hits:
                info['audit_failures'].extend('forbidden construct: ' + h for h in hits)
            discharged = 0
            for mod in prop_modules:
                thms = [t for m, t in all_thms if m == mod]
                res, raw = audit_axioms(mod, thms)
                for t in thms:
                    if t not in res:
                        info['audit_failures'].append('no #print axioms result for ' + t)
                    elif not set(res[t]) <= ALLOWED_AXIOMS:
                        info['audit_failures'].append('{} depends on {}'.format(t, res[t]))
                    else:
                        discharged += 1
            info['discharged'] = discharged if not hits else 0
            info['modules_checked'] = deps
    return info


def leanchecker(modules):
    rc, out = sh(['lake', 'env', 'leanchecker'] + list(modules), cwd=LEAN, timeout=3000)
    return rc == 0, out[-2000:]


def write_evidence(run, proof, level='proof', extra=None):
    cov = {
        'obligations': proof.get('obligations', 0),
        'discharged': proof.get('discharged', 0),
        'checker_cmd': 'cd /verif/lean && lake build {} && lake env lean <#print axioms for every property theorem>'.format(
            ' '.join(proof.get('modules', []))),
        'trusted_base': TRUSTED_BASE + proof.get('trusted_extra', []),
        'theorems': proof.get('theorems', []),
        'broken_obligations': proof.get('broken', []),
        'audit_failures': proof.get('audit_failures', []),
        'evaluations': run.evaluations,
        'distinct_nontrivial': len(run.nontrivial),
        'rule': run.rule if hasattr(run, 'rule') else '',
        'samples': run.samples if run.samples else ['(no correspondence cases were generated)'],
        'distribution': run.dist,
        'disagreements_model_vs_code': len(run.disagreements),
        'known_findings_reproduced': sorted(run.known_hits.keys()),
        'notes': run.notes,
    }
    if extra:
        cov.update(extra)
    ev = {
        'property_id': run.prop,
        'tier': run.tier,
        'seed': run.seed,
        'level': level,
        'coverage': cov,
        'assumptions': proof.get('assumptions', []),
        'wall_s': round(run.wall(), 2),
        'violations': len(run.violations) + (1 if run.unproved else 0),
    }
    directory = os.path.join(core.VERIF, 'evidence')
    os.makedirs(directory, exist_ok=True)
    with open(os.path.join(directory, run.prop + '.json'), 'w') as f:
        json.dump(ev, f, indent=1, sort_keys=True, default=str)


def main_check(prop, tier, seed):
    mod = importlib.import_module('harness.props.' + prop.lower())
    run = core.Run(prop, tier, seed)
    run.unproved = False
    run.rule = getattr(mod, 'RULE', '')
    proof = prove(mod.LEAN_MODULES)
    proof['modules'] = mod.LEAN_MODULES
    proof['assumptions'] = getattr(mod, 'ASSUMPTIONS', [])
    proof['trusted_extra'] = getattr(mod, 'TRUSTED_EXTRA', [])
    if 'infra_error' in proof:
        print('INFRASTRUCTURE ERROR: ' + proof['infra_error'])
        return 2
    if tier == 'thorough' and proof.get('build_ok'):
        ok, out = leanchecker(proof.get('modules_checked', mod.LEAN_MODULES))
        proof['leanchecker_ok'] = ok
        if not ok:
            proof['audit_failures'].append('leanchecker: ' + out)
    # correspondence + implementation-side oracles
    mod.run(run, driver_ok=proof.get('driver_ok', False))
    proof_ok = proof.get('build_ok') and not proof['audit_failures'] and \
        proof['discharged'] == proof['obligations'] and proof['obligations'] > 0
    broken_tie = bool(run.disagreements) or not proof.get('driver_ok', False)
    if (not proof_ok or broken_tie) and not run.violations:
        # failing-input search: the property's own oracle, deeper, against the implementation
        if hasattr(mod, 'search'):
            mod.search(run, proof)
    for key in sorted(run.known_hits):
        entry, case, message = run.known_hits[key]
        print('KNOWN-FINDING: property={} {} [{}]'.format(prop, entry['description'], key))
    status = 0
    if run.violations:
        key, message, case = run.violations[0]
        path = core.write_replay(prop, 'violation', {
            'property': prop, 'kind': 'failing-input', 'finding_key': key, 'message': message, 'case': case,
            'all_violations': [{'key': k, 'message': m, 'case': c} for k, m, c in run.violations[:20]],
            'replay_cmd': './check --replay replays/{}-violation.json'.format(prop),
        })
        print('VIOLATION property={} replay={}'.format(prop, path))
        print('  ' + message)
        status = 1
    elif not proof_ok or broken_tie:
        run.unproved = True
        payload = {
            'property': prop, 'kind': 'no-failing-input-found',
            'broken_obligations': proof.get('broken', []),
            'audit_failures': proof.get('audit_failures', []),
            'lean_log_tail': proof.get('log_tail', ''),
            'correspondence_disagreements': [
                {'case': c, 'line_index': i, 'model': m, 'implementation': r}
                for c, i, m, r in run.disagreements[:20]],
            'driver_ok': proof.get('driver_ok', False),
            'note': 'the property is no longer shown to hold: a theorem or the model/code correspondence no '
                    'longer checks, and the failing-input search found no input on which the implementation '
                    'violates the property',
        }
        path = core.write_replay(prop, 'unproved', payload)
        what = []
        if not proof_ok:
            what.append('theorems: ' + ', '.join(sorted({str(b.get('decl')) for b in proof.get('broken', [])})
                                                 or proof.get('audit_failures', ['?'])[:3]))
        if run.disagreements:
            what.append('correspondence: {} disagreement(s), first on {}'.format(
                len(run.disagreements), json.dumps(run.disagreements[0][0])[:200]))
        print('  broken ' + '; '.join(what))
        print('VIOLATION property={} replay={} no-failing-input-found'.format(prop, path))
        status = 1
    write_evidence(run, proof)
    print('{} {}: obligations {}/{} discharged, {} cases ({} distinct non-trivial), {} disagreements, {:.1f}s'.format(
        prop, tier, proof['discharged'], proof['obligations'], run.evaluations, len(run.nontrivial),
        len(run.disagreements), run.wall()))
    return status


def main_replay(path):
    with open(path) as f:
        payload = json.load(f)
    prop = payload['property']
    mod = importlib.import_module('harness.props.' + prop.lower())
    if payload.get('kind') != 'failing-input':
        print(json.dumps(payload, indent=1)[:6000])
        print('replay: no failing input recorded; the file names the obligations/correspondence that broke')
        return 1
    run = core.Run(prop, 'quick', 0)
    msgs = mod.replay(payload['case'])
    for key, message in msgs:
        print('REPRODUCED {}: {}'.format(key, message))
    if not msgs:
        print('not reproduced on the current tree')
        return 0
    return 1
