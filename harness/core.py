# -*- coding: utf-8 -*-
"""Core of the correspondence harness: driver invocation, outcome canonicalisation, the case /
oracle protocol, known findings, evidence and replay files.

A *case* is a JSON-serialisable dict with a 'kind' naming the oracle that understands it.
An oracle provides
    gen(rng, tier)   -> iterable of cases
    lines(case)      -> list of driver input lines (model side)
    impl(case)       -> list of result lines computed with the REAL code, same format as the driver
    prop(case)       -> list of (finding_key, message): the property itself evaluated on the real code
                        for this case, independently of the model (implementation-side oracle)
"""
from __future__ import print_function

import hashlib
import json
import os
import random
import subprocess
import sys
import tempfile
import time

VERIF = os.path.dirname(os.path.dirname(os.path.abspath(__file__)))
REPO = os.environ.get('CP_REPO', '/repo')
LEAN = os.environ.get('CP_LEAN', os.path.join(VERIF, 'lean'))   # overridable so that a scratch copy can be used
CPDRV = os.path.join(LEAN, '.lake', 'build', 'bin', 'cpdrv')

if REPO not in sys.path:
    sys.path.insert(0, REPO)


def hx(b):
    b = bytes(b)
    return b.hex() if b else '-'


def unhx(s):
    return b'' if s == '-' else bytes.fromhex(s)


def err_line(exc):
    """Map an exception raised by the real code to the five-way outcome of the line protocol."""
    from cryptodatahub.common.exception import InvalidValue
    from cryptoparser.common.exception import NotEnoughData, TooMuchData, InvalidType
    if isinstance(exc, NotEnoughData):
        return 'ERR NotEnoughData {}'.format(exc.bytes_needed)
    if isinstance(exc, TooMuchData):
        return 'ERR TooMuchData {}'.format(exc.bytes_needed)
    if isinstance(exc, InvalidValue):
        return 'ERR InvalidValue'
    if isinstance(exc, InvalidType):
        return 'ERR InvalidType'
    return 'CRASH {}'.format(type(exc).__name__)


def err_class(line):
    """Outcome class without numeric argument."""
    parts = line.split(' ')
    if parts[0] == 'ERR':
        return 'ERR ' + parts[1]
    if parts[0] == 'CRASH':
        return 'CRASH'
    return parts[0]


def outcome(fn, fmt):
    """Run fn(); on success fmt(result) gives the line, otherwise the mapped error."""
    try:
        res = fn()
    except RecursionError as e:  # pragma: no cover
        return err_line(e)
    except Exception as e:  # pylint: disable=broad-except
        return err_line(e)
    return fmt(res)


def run_driver(lines):
    """Pipe lines through the compiled model driver; returns the list of output lines."""
    if not lines:
        return []
    if not os.path.exists(CPDRV):
        raise RuntimeError('driver not built: ' + CPDRV)
    with tempfile.TemporaryDirectory(prefix='cpv-') as tmp:
        inp = os.path.join(tmp, 'ops.txt')
        with open(inp, 'w') as f:
            for line in lines:
                f.write(line)
                f.write('\n')
        with open(inp) as fin:
            proc = subprocess.run([CPDRV], stdin=fin, stdout=subprocess.PIPE, stderr=subprocess.PIPE,
                                  universal_newlines=True, check=False)
        if proc.returncode != 0:
            raise RuntimeError('driver failed: ' + proc.stderr[-2000:])
        out = proc.stdout.split('\n')
        if out and out[-1] == '':
            out.pop()
    if len(out) != len(lines):
        raise RuntimeError('driver produced {} lines for {} ops'.format(len(out), len(lines)))
    return out


class KnownFindings(object):
    def __init__(self):
        path = os.path.join(VERIF, 'known_findings.json')
        with open(path) as f:
            data = json.load(f)
        self.known = {}
        self.fixed = []
        for entry in data.get('findings', []):
            self.known[(entry['property'], entry['key'])] = entry
        for entry in data.get('fixed', []):
            self.fixed.append(entry)

    def lookup(self, prop, key):
        """exact key, or an entry whose key ends in '*' and is a prefix of `key` (one defect showing in a family of
        classes, e.g. one CSP directive class per directive name)"""
        entry = self.known.get((prop, key))
        if entry is not None:
            return entry
        for (p, k), e in self.known.items():
            if p == prop and k.endswith('*') and key.startswith(k[:-1]):
                return e
        return None


class Run(object):
    """Accumulates what one check run covered and found."""

    def __init__(self, prop, tier, seed):
        self.prop = prop
        self.tier = tier
        self.seed = seed
        self.rng = random.Random(seed)
        self.t0 = time.time()
        self.evaluations = 0
        self.nontrivial = set()
        self.samples = []
        self.dist = {}
        self.violations = []          # (key, message, case) not covered by known findings
        self.known_hits = {}          # key -> (entry, first case)
        self.disagreements = []       # (case, index, model line, impl line)
        self.notes = []
        self.kf = KnownFindings()

    def count(self, bucket, key, n=1):
        d = self.dist.setdefault(bucket, {})
        d[key] = d.get(key, 0) + n

    def sample(self, item, limit=12):
        if len(self.samples) < limit:
            self.samples.append(item)

    def note_nontrivial(self, token):
        # a 16-byte digest of the token: the set only counts distinct cases, and millions of 64 KB inputs must
        # not be kept in memory
        self.nontrivial.add(hashlib.blake2b(repr(token).encode('utf-8', 'replace'), digest_size=16).digest())

    def finding(self, key, message, case):
        entry = self.kf.lookup(self.prop, key)
        if entry is not None:
            if key not in self.known_hits:
                self.known_hits[key] = (entry, case, message)
        else:
            if len(self.violations) >= 500 and isinstance(case, dict):     # keep the count, not the payload
                case = dict(case, data=str(case.get('data', ''))[:64] + '...') if 'data' in case else case
                message = message[:300]
            self.violations.append((key, message, case))

    def wall(self):
        return time.time() - self.t0


def correspond(run, oracle, cases, compare=None):
    """Run all cases through the real code and the model driver and diff the outputs.

    Returns the list of disagreeing cases.  `compare(model_line, impl_line)` may relax the
    comparison (e.g. ignore the numeric argument of an error); default is string equality.
    The implementation-side oracle `prop` is evaluated on EVERY case, model or no model."""
    all_lines = []
    spans = []
    impl_out = []
    for case in cases:
        lines = oracle.lines(case)
        spans.append((len(all_lines), len(lines)))
        all_lines.extend(lines)
        impl_out.append(oracle.impl(case))
        run.evaluations += 1
        for key, message in oracle.prop(case):
            run.finding(key, message, case)
    try:
        model_out = run_driver(all_lines)
    except RuntimeError as e:
        run.notes.append('driver unavailable: {}'.format(e))
        return None
    bad = []
    for case, (start, n), impl_lines in zip(cases, spans, impl_out):
        mod = model_out[start:start + n]
        if len(impl_lines) != n:
            bad.append((case, -1, 'line-count {}'.format(n), 'line-count {}'.format(len(impl_lines))))
            continue
        for i, (m, r) in enumerate(zip(mod, impl_lines)):
            same = (m == r) if compare is None else compare(m, r)
            if not same:
                bad.append((case, i, m, r))
                break
    for item in bad:
        if len(run.disagreements) < 300:
            run.disagreements.append(item)
        else:               # keep the count, not the payload
            case = item[0]
            slim = dict(case, data=str(case.get('data', ''))[:64] + '...') if isinstance(case, dict) else case
            run.disagreements.append((slim, item[1], str(item[2])[:200], str(item[3])[:200]))
    return bad


def write_replay(prop, name, payload):
    directory = os.path.join(VERIF, 'replays')
    os.makedirs(directory, exist_ok=True)
    path = os.path.join(directory, '{}-{}.json'.format(prop, name))
    with open(path, 'w') as f:
        json.dump(payload, f, indent=1, sort_keys=True, default=str)
    return path
