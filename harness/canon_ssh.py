# -*- coding: utf-8 -*-
"""Canonical renderings of the SSH classes inside the Lean model; must equal
`lean/CpModel/Ssh/Canon.lean` character for character.

A known algorithm name is `K<index in list(enum)>`, a plain `str` name `S<hex of its ASCII bytes>`;
text and bytes in hex (`-` when empty); `~` for None; integers in decimal."""
from harness import canon
from harness.canon import Unmodelled, c_list, c_bool
from harness.core import hx


def _ascii(text):
    try:
        return text.encode('ascii')
    except (UnicodeError, AttributeError):
        raise Unmodelled('non-ascii text')


def c_name(item):
    if isinstance(item, str):
        return 'S' + hx(_ascii(item))
    return 'K{}'.format(list(type(item)).index(item))


def c_names(vector):
    return c_list([c_name(i) for i in vector])


def c_tag(tag):
    return 'T' + '.'.join(hx(_ascii(t)) for t in [tag.primary_subtag] + list(tag.subsequent_subtags))


def c_tags(vector):
    return c_list([c_tag(t) for t in vector])


def c_opt_text(value):
    return '~' if value is None else hx(_ascii(value))


def c_kexinit(k):
    return 'SshKeyExchangeInit(' + ','.join([
        hx(k.cookie), c_names(k.kex_algorithms), c_names(k.host_key_algorithms),
        c_names(k.encryption_algorithms_client_to_server), c_names(k.encryption_algorithms_server_to_client),
        c_names(k.mac_algorithms_client_to_server), c_names(k.mac_algorithms_server_to_client),
        c_names(k.compression_algorithms_client_to_server), c_names(k.compression_algorithms_server_to_client),
        c_tags(k.languages_client_to_server), c_tags(k.languages_server_to_client),
        c_bool(bool(k.first_kex_packet_follows)), str(int(k.reserved))]) + ')'


KEY_CLASSES = ('SshHostKeyRSA', 'SshHostKeyDSS', 'SshHostKeyECDSA', 'SshHostKeyEDDSA')


def c_host_key(k):
    from cryptodatahub.ssh.algorithm import SshHostKeyAlgorithm, SshEllipticCurveIdentifier
    name = type(k).__name__
    if name not in KEY_CLASSES:
        raise Unmodelled(name)
    algo = list(SshHostKeyAlgorithm).index(k.host_key_algorithm)
    p = k.public_key.params
    if name == 'SshHostKeyRSA':
        body = '{},{}'.format(p.public_exponent, p.modulus)
    elif name == 'SshHostKeyDSS':
        body = '{},{},{},{}'.format(p.prime, p.order, p.generator, p.public_key_value)
    elif name == 'SshHostKeyECDSA':
        curves = [c.value.named_group for c in SshEllipticCurveIdentifier]
        if p.named_group not in curves:
            raise Unmodelled('curve')
        body = '{},{},{}'.format(curves.index(p.named_group), p.point_x, p.point_y)
    else:
        body = hx(p.key_data)
    return '{}(K{},{})'.format(name, algo, body)


CERT_CLASSES = ('SshHostCertificateV01RSA', 'SshHostCertificateV01DSS', 'SshHostCertificateV01ECDSA',
                'SshHostCertificateV01EDDSA')
CERT_PLAIN = {'SshHostCertificateV01RSA': 'SshHostKeyRSA', 'SshHostCertificateV01DSS': 'SshHostKeyDSS',
              'SshHostCertificateV01ECDSA': 'SshHostKeyECDSA', 'SshHostCertificateV01EDDSA': 'SshHostKeyEDDSA'}


def c_key_params(kind, p):
    from cryptodatahub.ssh.algorithm import SshEllipticCurveIdentifier
    if kind == 'SshHostKeyRSA':
        return '{},{}'.format(p.public_exponent, p.modulus)
    if kind == 'SshHostKeyDSS':
        return '{},{},{},{}'.format(p.prime, p.order, p.generator, p.public_key_value)
    if kind == 'SshHostKeyECDSA':
        curves = [c.value.named_group for c in SshEllipticCurveIdentifier]
        if p.named_group not in curves:
            raise Unmodelled('curve')
        return '{},{},{}'.format(curves.index(p.named_group), p.point_x, p.point_y)
    return hx(p.key_data)


def c_opt(o):
    from cryptoparser.ssh.key import SshCertExtensionName
    name = type(o).__name__
    if name == 'SshCertExtensionUnparsed':
        return 'U{}:{}'.format(hx(_ascii(o.extension_name)), hx(o.extension_data))
    if name == 'SshCertExtensionForceCommand':
        return 'F' + hx(_ascii(o.command))
    if name == 'SshCertExtensionSourceAddress':
        raise Unmodelled(name)
    return 'N{}'.format(list(SshCertExtensionName).index(o.get_extension_name()))


def c_opts(v):
    return c_list([c_opt(o) for o in v])


def c_time(t):
    import calendar
    return '~' if t is None else str(calendar.timegm(t.utctimetuple()))


def c_cert(k):
    from cryptodatahub.ssh.algorithm import SshHostKeyAlgorithm
    name = type(k).__name__
    if name not in CERT_CLASSES:
        raise Unmodelled(name)
    algos = list(SshHostKeyAlgorithm)
    return '{}(K{},{},'.format(name, algos.index(k.host_key_algorithm), c_key_params(CERT_PLAIN[name], k.public_key.params)) + ','.join([
        hx(k.nonce), str(int(k.serial)), str(k.certificate_type.value.code), hx(_ascii(k.key_id)),
        c_list([hx(_ascii(p.value)) for p in k.valid_principals]), c_time(k.valid_after), c_time(k.valid_before),
        c_opts(k.critical_options), c_opts(k.extensions), hx(k.reserved), c_host_key(k.signature_key),
        'K{}'.format(algos.index(k.signature.signature_type)), hx(k.signature.signature_data)]) + ')'


def c_msg(m):
    name = type(m).__name__
    if name == 'SshKeyExchangeInit':
        return c_kexinit(m)
    if name == 'SshDisconnectMessage':
        try:
            desc = m.description.encode('utf-8')
        except UnicodeError:
            raise Unmodelled('description')
        return 'SshDisconnectMessage({},{},{})'.format(int(m.reason), hx(desc), hx(_ascii(m.language)))
    if name == 'SshUnimplementedMessage':
        return 'SshUnimplementedMessage({})'.format(int(m.sequence_number))
    if name in ('SshDHKeyExchangeInit', 'SshDHGroupExchangeInit'):
        return '{}({})'.format(name, hx(m.ephemeral_public_key))
    if name in ('SshDHKeyExchangeReply', 'SshDHGroupExchangeReply'):
        return '{}({},{},{})'.format(name, c_host_key(m.host_public_key), hx(m.ephemeral_public_key), hx(m.signature))
    if name == 'SshDHGroupExchangeRequest':
        return 'SshDHGroupExchangeRequest({},{},{})'.format(int(m.gex_min), int(m.gex_number), int(m.gex_max))
    if name == 'SshDHGroupExchangeGroup':
        return 'SshDHGroupExchangeGroup({},{})'.format(hx(m.p), hx(m.g))
    if name == 'SshNewKeys':
        return 'SshNewKeys()'
    raise Unmodelled(name)


def c_record(r):
    return '{}({})'.format(type(r).__name__, c_msg(r.packet))


def c_software(s):
    name = type(s).__name__
    if name == 'SshSoftwareVersionUnparsed':
        return '{}({})'.format(name, c_opt_text(s.raw))
    return '{}({})'.format(name, c_opt_text(s.version))


def c_protocol_version(v):
    return 'SshProtocolVersion({},{})'.format(int(v.major), int(v.minor))


def c_banner(b):
    return 'SshProtocolMessage({},{},{},{})'.format(
        int(b.protocol_version.major), int(b.protocol_version.minor), c_software(b.software_version),
        c_opt_text(b.comment))


def modelled():
    """lean class name -> (python class, canon function)"""
    from cryptoparser.ssh import subprotocol as sp, record as sr, key as sk, version as sv
    out = {
        'SshKexAlgorithmVector': (sp.SshKexAlgorithmVector, c_names),
        'SshHostKeyAlgorithmVector': (sp.SshHostKeyAlgorithmVector, c_names),
        'SshEncryptionAlgorithmVector': (sp.SshEncryptionAlgorithmVector, c_names),
        'SshMacAlgorithmVector': (sp.SshMacAlgorithmVector, c_names),
        'SshCompressionAlgorithmVector': (sp.SshCompressionAlgorithmVector, c_names),
        'SshLanguageVector': (sp.SshLanguageVector, c_tags),
        'SshMessageVariantInit': (sp.SshMessageVariantInit, c_msg),
        'SshMessageVariantKexDH': (sp.SshMessageVariantKexDH, c_msg),
        'SshMessageVariantKexDHGroup': (sp.SshMessageVariantKexDHGroup, c_msg),
        'SshRecordInit': (sr.SshRecordInit, c_record),
        'SshRecordKexDH': (sr.SshRecordKexDH, c_record),
        'SshRecordKexDHGroup': (sr.SshRecordKexDHGroup, c_record),
        'SshProtocolVersion': (sv.SshProtocolVersion, c_protocol_version),
        'SshProtocolMessage': (sp.SshProtocolMessage, c_banner),
        'SshHostPublicKeyVariant': (sk.SshHostPublicKeyVariant, c_host_key),
    }
    for name in ('SshKeyExchangeInit', 'SshDisconnectMessage', 'SshUnimplementedMessage', 'SshDHKeyExchangeInit',
                 'SshDHGroupExchangeInit', 'SshDHKeyExchangeReply', 'SshDHGroupExchangeReply',
                 'SshDHGroupExchangeRequest', 'SshDHGroupExchangeGroup', 'SshNewKeys'):
        out[name] = (getattr(sp, name), c_msg)
    for name in KEY_CLASSES:
        out[name] = (getattr(sk, name), c_host_key)
    for name in CERT_CLASSES:
        out[name] = (getattr(sk, name), c_cert)
    out['SshCertCriticalOptionVector'] = (sk.SshCertCriticalOptionVector, c_opts)
    out['SshCertExtensionVector'] = (sk.SshCertExtensionVector, c_opts)
    out['SshCertValidPrincipals'] = (sk.SshCertValidPrincipals, lambda v: c_list([hx(_ascii(p.value)) for p in v]))
    return out
