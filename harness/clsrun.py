# -*- coding: utf-8 -*-
"""Shared driver for the class-level properties C01, C02, C03, C05: case generation (valid
encodings of generated objects, mutations of them), correspondence with the model for the
modelled classes, and the implementation-side oracles for every class."""
from harness import core, clsops, gen_tls
from harness.core import hx, unhx

FRAMING_MODELLED = {'TlsRecord', 'TlsHandshakeClientHello', 'TlsHandshakeServerHello', 'TlsHandshakeHelloRetryRequest',
                    'TlsHandshakeCertificate', 'TlsHandshakeServerKeyExchange', 'TlsHandshakeCertificateStatus',
                    'TlsHandshakeServerHelloDone', 'TlsHandshakeCertificateRequest', 'TlsHandshakeMessageVariant'}


class ClsOracle(object):
    """case: {'kind':'cls','cls':model class name,'data':hex,'want':[...],'framing':bool}"""

    @staticmethod
    def lines(case):
        return clsops.model_lines(case['cls'], unhx(case['data']))

    @staticmethod
    def impl(case):
        return clsops.impl_lines(case['cls'], unhx(case['data']))

    @staticmethod
    def prop(case):
        cls = clsops.modelled()[case['cls']][0]
        out = []
        if 'C01' in case['want']:
            try:
                obj, _ = cls.parse_immutable(unhx(case['data']))
                for prop, key, msg in clsops.check_object(obj, suffix=b'\x00\x17' if case.get('framing') else b'')[0]:
                    out.append((key, msg))
            except Exception:  # pylint: disable=broad-except
                pass
        for prop, key, msg in clsops.check_input(cls, unhx(case['data']), want=tuple(case['want']),
                                                 framing=case.get('framing', False)):
            if prop in case['want']:
                out.append((key, msg))
        return out


def mutations(rng, data, n, length_offsets=()):
    """malformed variants of a valid encoding"""
    out = []
    ln = len(data)
    if ln == 0:
        return [b'\x00', b'\xff']
    for _ in range(n):
        r = rng.random()
        b = bytearray(data)
        if r < 0.25:
            out.append(bytes(b[:rng.randrange(ln)]))
        elif r < 0.5:
            i = rng.randrange(ln)
            b[i] ^= 1 << rng.randrange(8)
            out.append(bytes(b))
        elif r < 0.7:
            i = rng.choice(length_offsets) if length_offsets and rng.random() < 0.7 else rng.randrange(ln)
            b[i] = rng.choice([0, 1, 0xff, 0x7f, 0x80, (b[i] + 1) & 0xff, (b[i] - 1) & 0xff])
            out.append(bytes(b))
        elif r < 0.8:
            j = rng.randrange(ln)
            out.append(bytes(b[:j]) + bytes(data[rng.randrange(ln):]))
        elif r < 0.9:
            out.append(bytes(b) + bytes(rng.getrandbits(8) for _ in range(rng.randrange(1, 6))))
        else:
            i = rng.randrange(ln)
            del b[i:i + rng.randrange(1, 4)]
            out.append(bytes(b))
    return out


def all_truncations(data, limit=80):
    if len(data) <= limit:
        return [data[:i] for i in range(len(data))]
    step = max(1, len(data) // limit)
    cuts = sorted(set(list(range(0, 12)) + list(range(0, len(data), step)) + [len(data) - 1, len(data) - 2]))
    return [data[:i] for i in cuts if 0 <= i < len(data)]


def all_generators():
    """(model class name, generator) of every protocol family present (harness/gen_<family>.py)"""
    import importlib
    gens = list(gen_tls.MODELLED_GENERATORS)
    for family in FAMILIES:
        try:
            mod = importlib.import_module('harness.gen_' + family)
        except ImportError:
            continue
        gens.extend(mod.MODELLED_GENERATORS)
        FRAMING_MODELLED.update(getattr(mod, 'FRAMING_MODELLED', ()))
    return gens


FAMILIES = ('ssh', 'dns', 'opp', 'ssl2')


def all_raw_inputs():
    """(model class name, fn(rng) -> bytes) of every family: wire inputs no compose() of the library produces
    (other header forms, padding, non-canonical encodings); a family module exports them as RAW_INPUTS"""
    import importlib
    out = list(getattr(gen_tls, 'RAW_INPUTS', ()))
    for family in FAMILIES:
        try:
            mod = importlib.import_module('harness.gen_' + family)
        except ImportError:
            continue
        out.extend(getattr(mod, 'RAW_INPUTS', ()))
    return out


def modelled_object_cases(run, per_class, modelled_only=True, families=None):
    """(name, object) for generated objects of the modelled classes"""
    out = []
    for name, gen in all_generators():
        for _ in range(per_class):
            try:
                obj = gen(run.rng)
            except Exception as exc:  # pylint: disable=broad-except
                run.count('generator_errors', '{}:{}'.format(name, type(exc).__name__))
                continue
            out.append((name, obj))
    return out


def note_case(run, case):
    run.count('classes', case['cls'])
    data = case['data']
    if data.strip('0-'):
        run.note_nontrivial((case['cls'], data))


def run_cases(run, cases, driver_ok):
    for c in cases:
        note_case(run, c)
    if driver_ok:
        before = len(run.disagreements)
        core.correspond(run, ClsOracle, cases, compare=clsops.same)
        return len(run.disagreements) - before
    for case in cases:
        run.evaluations += 1
        for key, message in ClsOracle.prop(case):
            run.finding(key, message, case)
    return 0


def class_property_run(run, driver_ok, want, per_class, n_mut, truncations=0, suffixes=False):
    """Generated objects of every modelled class -> valid encodings (+ optional suffixes), mutations and
    truncations; correspondence with the model and the implementation-side oracles named in `want`.
    One class at a time (generate, compare, forget), so the thorough tier stays within a few hundred MB."""
    total = [0]
    sampled = [0]

    def flush(cases):
        if not cases:
            return
        if sampled[0] < 3:
            run.sample(cases[0] if sampled[0] != 1 else cases[len(cases) // 2])
            sampled[0] += 1
        total[0] += len(cases)
        run_cases(run, cases, driver_ok)

    for name, gen in all_generators():
        framing = name in FRAMING_MODELLED
        cases = []
        for _ in range(per_class):
            try:
                obj = gen(run.rng)
            except Exception as exc:  # pylint: disable=broad-except
                run.count('generator_errors', '{}:{}'.format(name, type(exc).__name__))
                continue
            try:
                b = bytes(obj.compose())
            except Exception as exc:  # pylint: disable=broad-except
                if 'C01' in want:
                    from harness import canon as _canon
                    run.finding('compose:{}:{}'.format(name, type(exc).__name__),
                                '{}: compose() of a constructed object raised {} [{}]'.format(
                                    name, core.err_line(exc), _canon.generic(obj)[:300]),
                                {'kind': 'obj', 'cls': name, 'repr': _canon.generic(obj)[:2000]})
                run.count('compose_errors', '{}:{}'.format(name, type(exc).__name__))
                continue
            if 'C01' in want:
                bad, _ = clsops.check_object(obj, suffix=b'\x00\x17' if framing else b'')
                for prop, key, msg in bad:
                    run.finding(key, msg, {'kind': 'cls', 'cls': name, 'data': hx(b), 'want': list(want), 'framing': framing})
            variants = [b]
            if suffixes:
                variants.append(b + bytes(run.rng.getrandbits(8) for _ in range(run.rng.randrange(1, 9))))
                variants.append(b + b)
            variants.extend(mutations(run.rng, b, n_mut))
            if truncations:
                variants.extend(all_truncations(b, truncations))
            for v in variants:
                cases.append({'kind': 'cls', 'cls': name, 'data': hx(v), 'want': [w for w in want if w != 'C01'],
                              'framing': framing})
            if len(cases) >= 4000:
                flush(cases)
                cases = []
        flush(cases)
    for name, gen in all_raw_inputs():
        framing = name in FRAMING_MODELLED
        cases = []
        for _ in range(per_class):
            try:
                b = bytes(gen(run.rng))
            except Exception as exc:  # pylint: disable=broad-except
                run.count('generator_errors', '{}:{}'.format(name, type(exc).__name__))
                continue
            run.count('raw_inputs', name)
            variants = [b] + mutations(run.rng, b, n_mut)
            if suffixes:
                variants.append(b + bytes(run.rng.getrandbits(8) for _ in range(run.rng.randrange(1, 9))))
            if truncations:
                variants.extend(all_truncations(b, truncations))
            for v in variants:
                cases.append({'kind': 'cls', 'cls': name, 'data': hx(v), 'want': list(want), 'framing': framing})
            if len(cases) >= 4000:
                flush(cases)
                cases = []
        flush(cases)
    return total[0]
