# -*- coding: utf-8 -*-
"""Canonical renderings of the opportunistic-TLS application messages (MySQL, RDP, OpenVPN,
PostgreSQL); must coincide character for character with `lean/CpModel/Opp/Canon.lean`.

`ClassName(field,...)`; naturals in decimal; bytes and ASCII strings in hex (`-` when empty); an
absent optional value as `~`; a flag set as the list of its members' values in increasing order; a
coded member as `E<code>`.  LDAP is outside the Lean model (asn1crypto)."""
from harness import canon
from harness.core import hx


def c_set(items):
    return '[' + ','.join(str(v) for v in sorted({int(x) for x in items})) + ']'


def c_nats(items):
    for x in items:
        if not isinstance(x, int) or isinstance(x, bool) or x < 0:
            raise canon.Unmodelled('non-natural item')
    return '[' + ','.join(str(int(x)) for x in items) + ']'


def c_nat(x):
    if not isinstance(x, int) or isinstance(x, bool) or x < 0:
        raise canon.Unmodelled('non-natural value')
    return str(int(x))


def c_opt_nat(x):
    return '~' if x is None else c_nat(x)


def c_ascii(s):
    if s is None:
        return '~'
    try:
        return hx(s.encode('ascii'))
    except UnicodeError:
        raise canon.Unmodelled('non-ASCII text')


def c_opt_bytes(b):
    return '~' if b is None else hx(b)


def c_mysql_record(r):
    return 'MySQLRecord({},{})'.format(c_nat(r.packet_number), hx(r.packet_bytes))


def c_mysql_ssl_request(r):
    cs = '~' if r.character_set is None else 'E{}'.format(r.character_set.value.code)
    return 'MySQLHandshakeSslRequest({},{},{})'.format(c_set(r.capabilities), c_nat(r.max_packet_size), cs)


def c_mysql_handshake_v10(h):
    if h.character_set is None:
        raise canon.Unmodelled('character_set None')
    return 'MySQLHandshakeV10(' + ','.join([
        str(int(h.protocol_version)), c_ascii(h.server_version), c_nat(h.connection_id), hx(h.auth_plugin_data),
        c_set(h.capabilities), 'E{}'.format(h.character_set.value.code), c_set(h.states),
        c_opt_bytes(h.auth_plugin_data_2), c_ascii(h.auth_plugin_name)]) + ')'


def c_tpkt(t):
    return 'TPKT({},{})'.format(c_nat(t.version), hx(t.message))


def c_cotp(c):
    return '{}({},{},{},{})'.format(type(c).__name__, c_nat(c.src_ref), c_nat(c.dst_ref), c_nat(c.class_option),
                                    hx(c.user_data))


def c_rdp_neg(r):
    return '{}({},{})'.format(type(r).__name__, c_set(r.flags), c_set(r.protocol))


def _ovpn_header(p):
    return '{},{},{}'.format(c_nat(p.session_id), c_nats(p.packet_id_array), c_opt_nat(p.remote_session_id))


def c_ovpn(p):
    name = type(p).__name__
    if name == 'OpenVpnPacketControlV1':
        return 'OpenVpnPacketControlV1({},{},{})'.format(_ovpn_header(p), c_nat(p.packet_id), hx(p.payload))
    if name == 'OpenVpnPacketAckV1':
        return 'OpenVpnPacketAckV1({})'.format(_ovpn_header(p))
    if name == 'OpenVpnPacketHardResetClientV2':
        if p.packet_id_array or p.remote_session_id is not None:
            raise canon.Unmodelled('hard reset client with acknowledgements')
        return 'OpenVpnPacketHardResetClientV2({},{})'.format(c_nat(p.session_id), c_nat(p.packet_id))
    if name == 'OpenVpnPacketHardResetServerV2':
        return 'OpenVpnPacketHardResetServerV2({},{})'.format(_ovpn_header(p), c_nat(p.packet_id))
    raise canon.Unmodelled(name)


class OppConsts(object):
    """Pseudo-class behind the driver's `OppConsts` entry: the live class attributes the Lean model
    restates as constants (header sizes, type codes, op codes), rendered in the model's order."""

    @staticmethod
    def text():
        from cryptoparser.tls import mysql, rdp, openvpn, postgresql
        vals = [
            mysql.MySQLRecord.HEADER_SIZE, mysql.MySQLHandshakeV10.MINIMUM_SIZE,
            mysql.MySQLHandshakeSslRequest.MINIMUM_SIZE, rdp.TPKT.HEADER_SIZE, rdp.COTPConnectionBase.HEADER_SIZE,
            rdp.RDPNegotiationBase.PACKET_LENGTH, openvpn.OpenVpnPacketBase.HEADER_SIZE, postgresql.Sync.MESSAGE_SIZE,
            hx(postgresql.Sync.COMMAND), postgresql.SslRequest.MESSAGE_SIZE, postgresql.SslRequest.REQUEST_CODE,
            int(mysql.MySQLCapability.CLIENT_PROTOCOL_41), int(mysql.MySQLCapability.CLIENT_PLUGIN_AUTH),
            int(mysql.MySQLCapability.CLIENT_SECURE_CONNECTION),
            int(rdp.COTPConnectionRequest._get_type()), int(rdp.COTPConnectionConfirm._get_type()),  # pylint: disable=protected-access
            int(rdp.RDPNegotiationRequest._get_type()), int(rdp.RDPNegotiationResponse._get_type()),  # pylint: disable=protected-access
            int(openvpn.OpenVpnPacketControlV1.get_op_code()), int(openvpn.OpenVpnPacketAckV1.get_op_code()),
            int(openvpn.OpenVpnPacketHardResetClientV2.get_op_code()),
            int(openvpn.OpenVpnPacketHardResetServerV2.get_op_code()),
        ]
        return 'OppConsts(' + ','.join(str(v) for v in vals) + ')'


_DRIVER_HAS_OPP = None


def driver_has_opp():
    """True when the model driver in use lists the classes of this family (`oppClasses` is part of `allClasses` in
    CpModel/Drv/Class.lean).  A driver that does not exist yet is given the benefit of the doubt: nothing is sent to it."""
    global _DRIVER_HAS_OPP  # pylint: disable=global-statement
    if _DRIVER_HAS_OPP is None:
        import os
        from harness import core
        if not os.path.exists(core.CPDRV):
            return True
        try:
            _DRIVER_HAS_OPP = 'OpenVpnPacketWrapperTcp' in core.run_driver(['CLASSES'])[0].split(' ')
        except (RuntimeError, IndexError):
            _DRIVER_HAS_OPP = False
    return _DRIVER_HAS_OPP


def modelled():
    """lean class name -> (python class, canon); empty while the driver does not know the family"""
    from cryptoparser.tls import mysql, rdp, openvpn, postgresql
    if not driver_has_opp():
        return {}
    return {
        'MySQLRecord': (mysql.MySQLRecord, c_mysql_record),
        'MySQLHandshakeSslRequest': (mysql.MySQLHandshakeSslRequest, c_mysql_ssl_request),
        'MySQLHandshakeV10': (mysql.MySQLHandshakeV10, c_mysql_handshake_v10),
        'TPKT': (rdp.TPKT, c_tpkt),
        'COTPConnectionRequest': (rdp.COTPConnectionRequest, c_cotp),
        'COTPConnectionConfirm': (rdp.COTPConnectionConfirm, c_cotp),
        'RDPNegotiationRequest': (rdp.RDPNegotiationRequest, c_rdp_neg),
        'RDPNegotiationResponse': (rdp.RDPNegotiationResponse, c_rdp_neg),
        'OpenVpnPacketWrapperTcp': (openvpn.OpenVpnPacketWrapperTcp,
                                    lambda p: 'OpenVpnPacketWrapperTcp({})'.format(hx(p.payload))),
        'OpenVpnPacketControlV1': (openvpn.OpenVpnPacketControlV1, c_ovpn),
        'OpenVpnPacketAckV1': (openvpn.OpenVpnPacketAckV1, c_ovpn),
        'OpenVpnPacketHardResetClientV2': (openvpn.OpenVpnPacketHardResetClientV2, c_ovpn),
        'OpenVpnPacketHardResetServerV2': (openvpn.OpenVpnPacketHardResetServerV2, c_ovpn),
        'OpenVpnPacketVariant': (openvpn.OpenVpnPacketVariant, c_ovpn),
        'SslRequest': (postgresql.SslRequest, lambda _: 'SslRequest()'),
        'Sync': (postgresql.Sync, lambda _: 'Sync()'),
    }
