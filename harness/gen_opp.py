# -*- coding: utf-8 -*-
"""Generators of the opportunistic-TLS application messages (MySQL, RDP, OpenVPN, PostgreSQL), built
with the library's own constructors.  All randomness comes from the `rng` argument.

The generators stay inside the constructible domain the theorems of C09 quantify over (`wf` in
`lean/CpProofs/Opp.lean`); the excluded points (references that differ, embedded NUL, a second part
of the MySQL auth plugin data that the capabilities do not call for, ...) are exercised separately by
`harness/props/c09.py`.  The zero-valued member `RDPProtocol.RDP` is inside the domain: the
constructor drops it, `{RDP}` and `set()` are one value."""


def rbytes(rng, n):
    return bytes(rng.getrandbits(8) for _ in range(n))


def rlen(rng, hi):
    r = rng.random()
    if r < 0.2:
        return 0
    if r < 0.5:
        return rng.randrange(0, min(hi, 4) + 1)
    if r < 0.9:
        return rng.randrange(0, min(hi, 40) + 1)
    return rng.randrange(0, hi + 1)


def subset(rng, members):
    """seeded subset: empty, full, singletons and arbitrary masks"""
    members = list(members)
    r = rng.random()
    if r < 0.08:
        return set()
    if r < 0.16:
        return set(members)
    if r < 0.3:
        return {rng.choice(members)}
    mask = rng.getrandbits(len(members))
    return {m for i, m in enumerate(members) if mask >> i & 1}


def nat(rng, bits):
    return rng.choice([0, 1, 2 ** bits - 1, 2 ** (bits - 1), rng.randrange(2 ** bits), rng.randrange(2 ** bits)])


def ascii_text(rng, hi, nul=False):
    n = rlen(rng, hi)
    lo = 0 if nul else 1
    return ''.join(chr(rng.randrange(lo, 128)) for _ in range(n))


# ------------------------------------------------------------------------------------------------ MySQL

def mysql_record(rng):
    from cryptoparser.tls.mysql import MySQLRecord
    n = rlen(rng, 300) if rng.random() < 0.97 else rng.choice([65535, 65536, 70000])
    return MySQLRecord(rng.choice([0, 1, 255, rng.randrange(256)]), rbytes(rng, n))


def mysql_ssl_request(rng):
    from cryptoparser.tls.mysql import MySQLHandshakeSslRequest, MySQLCapability, MySQLCharacterSet
    caps = subset(rng, MySQLCapability)
    if rng.random() < 0.5:
        caps.add(MySQLCapability.CLIENT_PROTOCOL_41)
    if MySQLCapability.CLIENT_PROTOCOL_41 in caps:
        return MySQLHandshakeSslRequest(caps, nat(rng, 32), rng.choice(list(MySQLCharacterSet) + [None]))
    caps = {c for c in caps if c.value < 2 ** 16}
    return MySQLHandshakeSslRequest(caps, nat(rng, 24), None)


def mysql_handshake_v10(rng):
    """the three kinds of greeting: CLIENT_PLUGIN_AUTH (5.5.7 and later: a second part of 13..247 bytes, its length on
    the wire, and the plugin name), CLIENT_SECURE_CONNECTION alone (4.1 .. 5.5.6: 13 bytes, the length octet is a
    filler), neither (no second part)"""
    from cryptoparser.tls.mysql import (MySQLHandshakeV10, MySQLCapability, MySQLCharacterSet, MySQLStatusFlag,
                                        MySQLVersion)
    caps = subset(rng, MySQLCapability)
    kind = rng.choice(['plugin', 'plugin', 'secure', 'secure', 'neither', 'any'])
    if kind == 'plugin':
        caps.add(MySQLCapability.CLIENT_PLUGIN_AUTH)
    elif kind == 'secure':
        caps.discard(MySQLCapability.CLIENT_PLUGIN_AUTH)
        caps.add(MySQLCapability.CLIENT_SECURE_CONNECTION)
    elif kind == 'neither':
        caps.discard(MySQLCapability.CLIENT_PLUGIN_AUTH)
        caps.discard(MySQLCapability.CLIENT_SECURE_CONNECTION)
    kwargs = {}
    if MySQLCapability.CLIENT_PLUGIN_AUTH in caps:
        n = rng.choice([13, 13, 14, 21, 247, 246, rng.randrange(13, 248), rng.randrange(13, 248)])
        kwargs['auth_plugin_data_2'] = rbytes(rng, n - 1) + rng.choice([b'\x00', rbytes(rng, 1)])
        kwargs['auth_plugin_name'] = rng.choice(['mysql_native_password', 'caching_sha2_password', ascii_text(rng, 30),
                                                 ascii_text(rng, 30)])
    elif MySQLCapability.CLIENT_SECURE_CONNECTION in caps:
        kwargs['auth_plugin_data_2'] = rbytes(rng, 12) + rng.choice([b'\x00', b'\x00', rbytes(rng, 1)])
    return MySQLHandshakeV10(
        protocol_version=rng.choice(list(MySQLVersion)), server_version=ascii_text(rng, 40),
        connection_id=nat(rng, 32), auth_plugin_data=rbytes(rng, 8), capabilities=caps,
        character_set=rng.choice(list(MySQLCharacterSet)), states=subset(rng, MySQLStatusFlag), **kwargs)


def mysql_handshake_v10_refused(rng):
    """constructible greetings whose second part is not the one the capabilities call for: compose() has to refuse them
    (InvalidValue); used by the probes of C09, not part of the round-trip domain"""
    from cryptoparser.tls.mysql import MySQLHandshakeV10, MySQLCapability, MySQLVersion
    kind = rng.choice(['plugin-short', 'plugin-none', 'plugin-long', 'secure-none', 'secure-other', 'neither-some'])
    caps = {MySQLCapability.CLIENT_SSL}
    kwargs = {}
    if kind.startswith('plugin'):
        caps |= {MySQLCapability.CLIENT_PLUGIN_AUTH, rng.choice([MySQLCapability.CLIENT_SECURE_CONNECTION,
                                                                 MySQLCapability.CLIENT_SSL])}
        kwargs['auth_plugin_name'] = 'mysql_native_password'
        if kind == 'plugin-short':
            kwargs['auth_plugin_data_2'] = rbytes(rng, rng.randrange(0, 13))
        elif kind == 'plugin-long':
            kwargs['auth_plugin_data_2'] = rbytes(rng, rng.choice([248, 249, 300]))
    elif kind.startswith('secure'):
        caps.add(MySQLCapability.CLIENT_SECURE_CONNECTION)
        if kind == 'secure-other':
            kwargs['auth_plugin_data_2'] = rbytes(rng, rng.choice([0, 1, 12, 14, 21, rng.randrange(14, 60)]))
    else:
        kwargs['auth_plugin_data_2'] = rbytes(rng, rng.randrange(1, 30))
    return MySQLHandshakeV10(protocol_version=MySQLVersion.MYSQL_10, server_version='5.5.5', connection_id=nat(rng, 32),
                             auth_plugin_data=rbytes(rng, 8), capabilities=caps, **kwargs)


def raw_mysql_greeting(rng):
    """HandshakeV10 as servers put it on the wire, laid out here from the protocol documentation (no library call):
    a pre-5.5.7 greeting (CLIENT_SECURE_CONNECTION without CLIENT_PLUGIN_AUTH, length octet 00 - or, off the
    documentation, any filler value -, 12 scramble bytes and a NUL), and greetings with CLIENT_PLUGIN_AUTH whose length
    octet is 21, 8, 0, 255, below 8 or arbitrary, followed by MAX(13, len - 8) bytes (sometimes by len - 8 bytes or by
    too few: the malformed side)"""
    import struct
    kind = rng.choice(['pre557', 'pre557', 'pre557-filler', 'plugin-21', 'plugin-21', 'plugin-8', 'plugin-0', 'plugin-255',
                       'plugin-low', 'plugin-any', 'neither'])
    caps = rng.getrandbits(25) & ~(1 << 19 | 1 << 15)
    if kind.startswith('pre557'):
        caps |= 1 << 15
    elif kind.startswith('plugin'):
        caps |= 1 << 19
        if rng.random() < 0.8:
            caps |= 1 << 15
    adl = {'pre557': 0, 'pre557-filler': rng.randrange(1, 256), 'plugin-21': 21, 'plugin-8': 8, 'plugin-0': 0,
           'plugin-255': 255, 'plugin-low': rng.randrange(1, 8), 'plugin-any': rng.randrange(256), 'neither': 0}[kind]
    version = rng.choice([b'5.1.73', b'5.0.96-log', b'5.5.62', b'8.0.36', b'5.5.5-10.6.12-MariaDB', b''])
    out = bytes([rng.choice([10, 10, 10, 9])]) + version + b'\x00' + struct.pack('<I', rng.getrandbits(32)) + \
        rbytes(rng, 8) + b'\x00'
    out += struct.pack('<HBHH', caps & 0xffff, rng.choice([8, 33, 45, 255]), rng.getrandbits(16) & 0x7ffb, caps >> 16)
    out += bytes([adl]) + bytes(10)
    if kind.startswith('pre557'):
        out += rbytes(rng, 12) + b'\x00'
    elif kind.startswith('plugin'):
        r = rng.random()
        n = max(13, adl - 8) if r < 0.7 else max(0, adl - 8) if r < 0.85 else rng.randrange(0, 13)
        out += bytes(rng.randrange(1, 256) for _ in range(max(0, n - 1))) + (b'\x00' if n else b'')
        out += rng.choice([b'mysql_native_password', b'caching_sha2_password', b'']) + rng.choice([b'\x00', b'\x00', b''])
    return out


# ------------------------------------------------------------------------------------------------ RDP

def tpkt(rng):
    from cryptoparser.tls.rdp import TPKT
    n = rlen(rng, 300) if rng.random() < 0.97 else rng.choice([65531, 65530])
    return TPKT(3, rbytes(rng, n))


class ConformantRefused(Exception):
    """a constructor refused field values that have an encoding in the protocol (the generators only build such values,
    apart from the documented over-long ones, which they shorten when a constructor refuses them)"""

    def __init__(self, cls_name, kwargs, exc):
        Exception.__init__(self, '{}({}) raised {}: {}'.format(
            cls_name, ', '.join('{}={!r}'.format(k, v if not isinstance(v, (bytes, bytearray)) or len(v) < 24
                                                  else '<{} octets>'.format(len(v))) for k, v in sorted(kwargs.items())),
            type(exc).__name__, str(exc)[:120]))
        self.cls_name = cls_name


COTP_MAX_USER_DATA = 248        # length indicator 6 + n <= 254 (255 is reserved, ISO 8073 13.2.1)


def _cotp(rng, cls):
    n = rlen(rng, 100) if rng.random() < 0.95 else rng.choice([249, 248, 248, 247])
    kwargs = dict(src_ref=nat(rng, 16), user_data=rbytes(rng, n), dst_ref=nat(rng, 16), class_option=0)
    try:
        return cls(**kwargs)
    except Exception as exc:  # pylint: disable=broad-except
        if n <= COTP_MAX_USER_DATA:
            raise ConformantRefused(cls.__name__, kwargs, exc)
    # 249 octets have no encoding: compose() must refuse them, and a constructor may; then the longest encodable value
    kwargs['user_data'] = kwargs['user_data'][:COTP_MAX_USER_DATA]
    try:
        return cls(**kwargs)
    except Exception as exc:  # pylint: disable=broad-except
        raise ConformantRefused(cls.__name__, kwargs, exc)


def cotp_request(rng):
    from cryptoparser.tls.rdp import COTPConnectionRequest
    return _cotp(rng, COTPConnectionRequest)


def cotp_confirm(rng):
    from cryptoparser.tls.rdp import COTPConnectionConfirm
    return _cotp(rng, COTPConnectionConfirm)


def _protocols(rng):
    from cryptoparser.tls.rdp import RDPProtocol
    return subset(rng, RDPProtocol)


def rdp_neg_request(rng):
    from cryptoparser.tls.rdp import RDPNegotiationRequest, RDPNegotiationRequestFlags
    return RDPNegotiationRequest(subset(rng, RDPNegotiationRequestFlags), _protocols(rng))


def rdp_neg_response(rng):
    from cryptoparser.tls.rdp import RDPNegotiationResponse, RDPNegotiationResponseFlags
    return RDPNegotiationResponse(subset(rng, RDPNegotiationResponseFlags), _protocols(rng))


# ------------------------------------------------------------------------------------------------ OpenVPN

def _ids(rng):
    r = rng.random()
    if r < 0.3:
        n = 0
    elif r < 0.7:
        n = rng.randrange(1, 5)
    elif r < 0.9:
        n = rng.randrange(0, 256)
    else:
        n = rng.choice([1, 254, 255])
    return [nat(rng, 32) for _ in range(n)]


def _header(rng):
    ids = _ids(rng)
    return nat(rng, 64), ids, (nat(rng, 64) if ids else None)


def ovpn_wrapper(rng):
    from cryptoparser.tls.openvpn import OpenVpnPacketWrapperTcp
    n = rlen(rng, 300) if rng.random() < 0.97 else rng.choice([65535, 65534])
    return OpenVpnPacketWrapperTcp(rbytes(rng, n))


def ovpn_control(rng):
    from cryptoparser.tls.openvpn import OpenVpnPacketControlV1
    sid, ids, rsid = _header(rng)
    return OpenVpnPacketControlV1(sid, ids, rsid, nat(rng, 32), rbytes(rng, rlen(rng, 200)))


def ovpn_ack(rng):
    from cryptoparser.tls.openvpn import OpenVpnPacketAckV1
    sid, ids, rsid = _header(rng)
    return OpenVpnPacketAckV1(sid, rsid, ids)


def ovpn_hard_reset_client(rng):
    from cryptoparser.tls.openvpn import OpenVpnPacketHardResetClientV2
    return OpenVpnPacketHardResetClientV2(nat(rng, 64), nat(rng, 32))


def ovpn_hard_reset_server(rng):
    from cryptoparser.tls.openvpn import OpenVpnPacketHardResetServerV2
    sid, ids, rsid = _header(rng)
    return OpenVpnPacketHardResetServerV2(sid, rsid, ids, nat(rng, 32))


def ovpn_any(rng):
    return rng.choice([ovpn_control, ovpn_ack, ovpn_hard_reset_client, ovpn_hard_reset_server])(rng)


# ------------------------------------------------------------------------------------------------ PostgreSQL

def pg_ssl_request(rng):
    from cryptoparser.tls.postgresql import SslRequest
    return SslRequest()


def pg_sync(rng):
    from cryptoparser.tls.postgresql import Sync
    return Sync()


ALL_GENERATORS = [
    ('MySQLRecord', mysql_record),
    ('MySQLHandshakeSslRequest', mysql_ssl_request),
    ('MySQLHandshakeV10', mysql_handshake_v10),
    ('TPKT', tpkt),
    ('COTPConnectionRequest', cotp_request),
    ('COTPConnectionConfirm', cotp_confirm),
    ('RDPNegotiationRequest', rdp_neg_request),
    ('RDPNegotiationResponse', rdp_neg_response),
    ('OpenVpnPacketWrapperTcp', ovpn_wrapper),
    ('OpenVpnPacketControlV1', ovpn_control),
    ('OpenVpnPacketAckV1', ovpn_ack),
    ('OpenVpnPacketHardResetClientV2', ovpn_hard_reset_client),
    ('OpenVpnPacketHardResetServerV2', ovpn_hard_reset_server),
    ('OpenVpnPacketVariant', ovpn_any),
    ('SslRequest', pg_ssl_request),
    ('Sync', pg_sync),
]

# what the shared class-level drivers (harness/clsrun.py) pick up: the whole family, unless the driver that is
# in use was built without `oppClasses` (then the family stays out of their way instead of producing BAD-OP lines)
from harness import canon_opp  # noqa: E402  pylint: disable=wrong-import-position
MODELLED_GENERATORS = list(ALL_GENERATORS) if canon_opp.driver_has_opp() else []

# wire inputs no compose() of the library produces (picked up by harness/clsrun.all_raw_inputs and by C09)
RAW_INPUTS = [('MySQLHandshakeV10', raw_mysql_greeting)] if MODELLED_GENERATORS else []

# stream framing units among them (C03 self-delimitation, C04 prefix rejection)
FRAMING_MODELLED = {'MySQLRecord', 'TPKT', 'OpenVpnPacketWrapperTcp', 'SslRequest'} if MODELLED_GENERATORS else set()

# classes whose last field is "the rest of the datagram": a composed message followed by more bytes parses to a
# DIFFERENT value by design (theorem `ovpn_roundtrip_control`); the "whatever follows" clause of the round trip does not
# apply to them (same situation as TlsApplicationDataMessage)
REST_OF_BUFFER = {'OpenVpnPacketControlV1'}
