# -*- coding: utf-8 -*-
"""Generators of the opportunistic-TLS application messages (MySQL, RDP, OpenVPN, PostgreSQL), built
with the library's own constructors.  All randomness comes from the `rng` argument.

The generators stay inside the constructible domain the theorems of C09 quantify over (`wf` in
`lean/CpProofs/Opp.lean`); the excluded points (zero-valued flag member, references that differ,
embedded NUL, ...) are exercised separately by `harness/props/c09.py`."""


def rbytes(rng, n):
    return bytes(rng.getrandbits(8) for _ in range(n))


def rlen(rng, hi):
    r = rng.random()
    if r < 0.2:
        return 0
    if r < 0.5:
        return rng.randrange(0, min(hi, 4) + 1)
    if r < 0.9:
        return rng.randrange(0, min(hi, 40) + 1)
    return rng.randrange(0, hi + 1)


def subset(rng, members):
    """seeded subset: empty, full, singletons and arbitrary masks"""
    members = list(members)
    r = rng.random()
    if r < 0.08:
        return set()
    if r < 0.16:
        return set(members)
    if r < 0.3:
        return {rng.choice(members)}
    mask = rng.getrandbits(len(members))
    return {m for i, m in enumerate(members) if mask >> i & 1}


def nat(rng, bits):
    return rng.choice([0, 1, 2 ** bits - 1, 2 ** (bits - 1), rng.randrange(2 ** bits), rng.randrange(2 ** bits)])


def ascii_text(rng, hi, nul=False):
    n = rlen(rng, hi)
    lo = 0 if nul else 1
    return ''.join(chr(rng.randrange(lo, 128)) for _ in range(n))


# ------------------------------------------------------------------------------------------------ MySQL

def mysql_record(rng):
    from cryptoparser.tls.mysql import MySQLRecord
    n = rlen(rng, 300) if rng.random() < 0.97 else rng.choice([65535, 65536, 70000])
    return MySQLRecord(rng.choice([0, 1, 255, rng.randrange(256)]), rbytes(rng, n))


def mysql_ssl_request(rng):
    from cryptoparser.tls.mysql import MySQLHandshakeSslRequest, MySQLCapability, MySQLCharacterSet
    caps = subset(rng, MySQLCapability)
    if rng.random() < 0.5:
        caps.add(MySQLCapability.CLIENT_PROTOCOL_41)
    if MySQLCapability.CLIENT_PROTOCOL_41 in caps:
        return MySQLHandshakeSslRequest(caps, nat(rng, 32), rng.choice(list(MySQLCharacterSet) + [None]))
    caps = {c for c in caps if c.value < 2 ** 16}
    return MySQLHandshakeSslRequest(caps, nat(rng, 24), None)


def mysql_handshake_v10(rng):
    from cryptoparser.tls.mysql import (MySQLHandshakeV10, MySQLCapability, MySQLCharacterSet, MySQLStatusFlag,
                                        MySQLVersion)
    caps = subset(rng, MySQLCapability)
    if rng.random() < 0.5:
        caps.add(MySQLCapability.CLIENT_PLUGIN_AUTH)
    plugin = MySQLCapability.CLIENT_PLUGIN_AUTH in caps
    kwargs = {}
    if plugin:
        kwargs['auth_plugin_data_2'] = rbytes(rng, rng.choice([0, 1, 12, 13, 13, 21, 247, rng.randrange(248),
                                                             rng.randrange(13, 248), rng.randrange(13, 248)]))
        kwargs['auth_plugin_name'] = ascii_text(rng, 30)
    return MySQLHandshakeV10(
        protocol_version=rng.choice(list(MySQLVersion)), server_version=ascii_text(rng, 40),
        connection_id=nat(rng, 32), auth_plugin_data=rbytes(rng, 8), capabilities=caps,
        character_set=rng.choice(list(MySQLCharacterSet)), states=subset(rng, MySQLStatusFlag), **kwargs)


# ------------------------------------------------------------------------------------------------ RDP

def tpkt(rng):
    from cryptoparser.tls.rdp import TPKT
    n = rlen(rng, 300) if rng.random() < 0.97 else rng.choice([65531, 65530])
    return TPKT(3, rbytes(rng, n))


def _cotp(rng, cls):
    n = rlen(rng, 100) if rng.random() < 0.95 else rng.choice([249, 248])
    return cls(src_ref=nat(rng, 16), user_data=rbytes(rng, n), dst_ref=nat(rng, 16), class_option=0)


def cotp_request(rng):
    from cryptoparser.tls.rdp import COTPConnectionRequest
    return _cotp(rng, COTPConnectionRequest)


def cotp_confirm(rng):
    from cryptoparser.tls.rdp import COTPConnectionConfirm
    return _cotp(rng, COTPConnectionConfirm)


def _protocols(rng):
    from cryptoparser.tls.rdp import RDPProtocol
    return subset(rng, [p for p in RDPProtocol if p.value != 0])


def rdp_neg_request(rng):
    from cryptoparser.tls.rdp import RDPNegotiationRequest, RDPNegotiationRequestFlags
    return RDPNegotiationRequest(subset(rng, RDPNegotiationRequestFlags), _protocols(rng))


def rdp_neg_response(rng):
    from cryptoparser.tls.rdp import RDPNegotiationResponse, RDPNegotiationResponseFlags
    return RDPNegotiationResponse(subset(rng, RDPNegotiationResponseFlags), _protocols(rng))


# ------------------------------------------------------------------------------------------------ OpenVPN

def _ids(rng):
    r = rng.random()
    if r < 0.3:
        n = 0
    elif r < 0.7:
        n = rng.randrange(1, 5)
    elif r < 0.9:
        n = rng.randrange(0, 256)
    else:
        n = rng.choice([1, 254, 255])
    return [nat(rng, 32) for _ in range(n)]


def _header(rng):
    ids = _ids(rng)
    return nat(rng, 64), ids, (nat(rng, 64) if ids else None)


def ovpn_wrapper(rng):
    from cryptoparser.tls.openvpn import OpenVpnPacketWrapperTcp
    n = rlen(rng, 300) if rng.random() < 0.97 else rng.choice([65535, 65534])
    return OpenVpnPacketWrapperTcp(rbytes(rng, n))


def ovpn_control(rng):
    from cryptoparser.tls.openvpn import OpenVpnPacketControlV1
    sid, ids, rsid = _header(rng)
    return OpenVpnPacketControlV1(sid, ids, rsid, nat(rng, 32), rbytes(rng, rlen(rng, 200)))


def ovpn_ack(rng):
    from cryptoparser.tls.openvpn import OpenVpnPacketAckV1
    sid, ids, rsid = _header(rng)
    return OpenVpnPacketAckV1(sid, rsid, ids)


def ovpn_hard_reset_client(rng):
    from cryptoparser.tls.openvpn import OpenVpnPacketHardResetClientV2
    return OpenVpnPacketHardResetClientV2(nat(rng, 64), nat(rng, 32))


def ovpn_hard_reset_server(rng):
    from cryptoparser.tls.openvpn import OpenVpnPacketHardResetServerV2
    sid, ids, rsid = _header(rng)
    return OpenVpnPacketHardResetServerV2(sid, rsid, ids, nat(rng, 32))


def ovpn_any(rng):
    return rng.choice([ovpn_control, ovpn_ack, ovpn_hard_reset_client, ovpn_hard_reset_server])(rng)


# ------------------------------------------------------------------------------------------------ PostgreSQL

def pg_ssl_request(rng):
    from cryptoparser.tls.postgresql import SslRequest
    return SslRequest()


def pg_sync(rng):
    from cryptoparser.tls.postgresql import Sync
    return Sync()


ALL_GENERATORS = [
    ('MySQLRecord', mysql_record),
    ('MySQLHandshakeSslRequest', mysql_ssl_request),
    ('MySQLHandshakeV10', mysql_handshake_v10),
    ('TPKT', tpkt),
    ('COTPConnectionRequest', cotp_request),
    ('COTPConnectionConfirm', cotp_confirm),
    ('RDPNegotiationRequest', rdp_neg_request),
    ('RDPNegotiationResponse', rdp_neg_response),
    ('OpenVpnPacketWrapperTcp', ovpn_wrapper),
    ('OpenVpnPacketControlV1', ovpn_control),
    ('OpenVpnPacketAckV1', ovpn_ack),
    ('OpenVpnPacketHardResetClientV2', ovpn_hard_reset_client),
    ('OpenVpnPacketHardResetServerV2', ovpn_hard_reset_server),
    ('OpenVpnPacketVariant', ovpn_any),
    ('SslRequest', pg_ssl_request),
    ('Sync', pg_sync),
]

# what the shared class-level drivers (harness/clsrun.py) pick up: the whole family, unless the driver that is
# in use was built without `oppClasses` (then the family stays out of their way instead of producing BAD-OP lines)
from harness import canon_opp  # noqa: E402  pylint: disable=wrong-import-position
MODELLED_GENERATORS = list(ALL_GENERATORS) if canon_opp.driver_has_opp() else []

# stream framing units among them (C03 self-delimitation, C04 prefix rejection)
FRAMING_MODELLED = {'MySQLRecord', 'TPKT', 'OpenVpnPacketWrapperTcp', 'SslRequest'} if MODELLED_GENERATORS else set()

# classes whose last field is "the rest of the datagram": a composed message followed by more bytes parses to a
# DIFFERENT value by design (theorem `ovpn_roundtrip_control`); the "whatever follows" clause of the round trip does not
# apply to them (same situation as TlsApplicationDataMessage)
REST_OF_BUFFER = {'OpenVpnPacketControlV1'}
