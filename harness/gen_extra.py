# -*- coding: utf-8 -*-
"""Accepted wire inputs of classes outside the Lean model that neither the repository's tests nor compose() of the
library produce: other legal encodings of the same message (BER long-form lengths, optional parts present, maximal
sizes).  `pairs(rng, tier)` -> [(class, bytes)]; the corpus oracles of C01/C02/C03/C05 run on them like on the
harvested corpus (each pair is first checked to be accepted by `parse_immutable`)."""


def ldap_pairs(rng, tier):
    from cryptoparser.tls import ldap
    out = []
    sizes = [0, 1, 100, 115, 116, 117, 127, 128, 129, 200, 255, 256, 300, 1000, 70000]
    if tier == 'quick':
        sizes = [0, 100, 116, 128, 200, 256, 1000]
    for n in sizes:
        diag = bytes(rng.getrandbits(8) & 0x7f or 0x41 for _ in range(n))
        for code in (0, 2, 80):
            msg = ldap.LDAPMessage({
                'messageID': rng.choice([1, 127, 128, 65535]),
                'protocolOp': {'extendedResp': {'resultCode': code, 'matchedDN': b'', 'diagnosticMessage': diag}},
            }).dump()
            out.append((ldap.LDAPExtendedResponseStartTLS, msg))
    for name_len in (22, 130, 300):
        msg = ldap.LDAPMessage({
            'messageID': 1,
            'protocolOp': {'extendedReq': {'requestName': (b'1.3.6.1.4.1.1466.20037' + b'.1' * name_len)[:max(22, name_len)]}},
        }).dump()
        out.append((ldap.LDAPExtendedRequestStartTLS, msg))
    return out


def pairs(rng, tier):
    out = []
    for fn in (ldap_pairs,):
        try:
            out.extend(fn(rng, tier))
        except Exception:  # pylint: disable=broad-except
            continue
    good = []
    for cls, data in out:
        try:
            cls.parse_immutable(bytes(data))
            good.append((cls, bytes(data)))
        except Exception:  # pylint: disable=broad-except
            continue
    return good
