# -*- coding: utf-8 -*-
"""Type-directed generators of DNS record-data objects.  Names, MX, DS, RRSIG and TXT objects are built
with the library's constructors; DNSKEY objects (whose key attribute is a cryptodatahub/asn1crypto
object) are obtained by parsing RDATA produced by the small reference encoder below.
All randomness comes from the `rng` argument."""
import datetime

from harness import canon_dns

LABEL_CHARS = 'abcdefghijklmnopqrstuvwxyzABCDEFGHIJKLMNOPQRSTUVWXYZ0123456789-_'


def rbytes(rng, n):
    return bytes(rng.getrandbits(8) for _ in range(n))


def label(rng, n=None):
    if n is None:
        n = rng.choice([1, 1, 2, 3, 7, 10, 63, 63, rng.randrange(1, 64)])
    while True:
        text = ''.join(rng.choice(LABEL_CHARS) for _ in range(n))
        if 'xn--' not in text.lower():
            return text


def labels(rng):
    r = rng.random()
    if r < 0.12:
        return []                                    # the root
    if r < 0.2:
        return [label(rng, 63), label(rng, 63), label(rng, 63), label(rng, 61)]   # 255 octets: the maximum
    if r < 0.25:
        return [label(rng, 1) for _ in range(127)]   # 255 octets in 127 labels
    out = [label(rng) for _ in range(rng.choice([1, 2, 2, 3, 3, 4, 6]))]
    while sum(1 + len(l) for l in out) + 1 > 255:     # RFC 1035 2.3.4: 255 octets or less
        out.pop()
    return out


def name(rng):
    from cryptoparser.dnsrec.record import DnsNameUncompressed
    return DnsNameUncompressed(labels(rng))


def mx(rng):
    from cryptoparser.dnsrec.record import DnsRecordMx
    prio = rng.choice([0, 1, 10, 255, 256, 65535, rng.randrange(65536)])
    if rng.random() < 0.5:
        return DnsRecordMx(prio, name(rng))
    return DnsRecordMx(prio, '.'.join(labels(rng)))   # the converter splits the text at the dots


def ds(rng):
    from cryptoparser.dnsrec.record import DnsRecordDs
    from cryptodatahub.dnsrec.algorithm import DnsSecAlgorithm, DnsSecDigestType
    dt = rng.choice(list(DnsSecDigestType))
    size = {1: 20, 2: 32, 3: 32, 4: 48}.get(dt.value.code, 32)
    if rng.random() < 0.25:
        size = rng.choice([0, 1, 19, 21, 64, rng.randrange(0, 80)])
    return DnsRecordDs(rng.choice([0, 1, 255, 256, 65535, rng.randrange(65536)]), rng.choice(list(DnsSecAlgorithm)),
                       dt, bytearray(rbytes(rng, size)))


def instant(rng):
    # the whole 32-bit range; 2^32 - 1 is the instant 2106-02-07 06:28:15 UTC
    t = rng.choice([0, 1, 2 ** 31 - 1, 2 ** 31, 2 ** 32 - 2, 2 ** 32 - 1, 1600000000, rng.randrange(2 ** 32),
                    rng.randrange(2 ** 32), rng.randrange(2 ** 32), rng.randrange(2 ** 32), rng.randrange(2 ** 32)])
    return datetime.datetime(1970, 1, 1) + datetime.timedelta(seconds=t)


def type_covered(rng):
    from cryptoparser.dnsrec.record import DnsRrTypePrivate
    from cryptodatahub.dnsrec.algorithm import DnsRrType
    if rng.random() < 0.3:
        return DnsRrTypePrivate(rng.choice([0xff00, 0xff01, 0xfffe, 0xfffd, rng.randrange(0xff00, 0xffff)]))
    return rng.choice(list(DnsRrType))


def rrsig(rng):
    from cryptoparser.dnsrec.record import DnsRecordRrsig
    from cryptodatahub.dnsrec.algorithm import DnsSecAlgorithm
    sig_len = rng.choice([32, 64, 64, 96, 128, 256, rng.randrange(5, 300)])
    if rng.random() < 0.04:
        sig_len = rng.randrange(0, 5)         # with a short signer name: RDATA shorter than HEADER_SIZE = 24
    return DnsRecordRrsig(
        type_covered=type_covered(rng), algorithm=rng.choice(list(DnsSecAlgorithm)),
        labels=rng.choice([0, 1, 2, 3, 127, 255]), original_ttl=rng.choice([0, 1, 3600, 86400, 2 ** 31 - 1, 2 ** 31, 2 ** 32 - 1]),
        signature_expiration=instant(rng), signature_inception=instant(rng),
        key_tag=rng.choice([0, 1, 65535, rng.randrange(65536)]),
        signers_name=name(rng) if rng.random() < 0.6 else '.'.join(labels(rng)),
        signature=bytearray(rbytes(rng, sig_len)))


def txt_text(rng, n):
    return ''.join(chr(rng.randrange(0x20, 0x7f)) if rng.random() < 0.9 else chr(rng.randrange(0x80)) for _ in range(n))


def txt(rng):
    from cryptoparser.dnsrec.record import DnsRecordTxt
    r = rng.random()
    if r < 0.08:
        # several character-strings on the wire (the only way to hold more than 255 octets)
        parts = [txt_text(rng, rng.choice([0, 1, 17, 255, 255])) for _ in range(rng.choice([2, 2, 3, 5]))]
        return DnsRecordTxt.parse_exact_size(b''.join(bytes([len(p)]) + p.encode('ascii') for p in parts))
    if r < 0.12:
        return DnsRecordTxt(txt_text(rng, rng.choice([256, 257, 300, 510, 511, 600])))   # several character-strings
    return DnsRecordTxt(txt_text(rng, rng.choice([0, 1, 2, 30, 100, 254, 255, rng.randrange(256)])))


def private_type(rng):
    from cryptoparser.dnsrec.record import DnsRrTypePrivate
    return DnsRrTypePrivate(rng.choice([0xff00, 0xfffe, rng.randrange(0xff00, 0xffff)]))


# ------------------------------------------------------------------------------------------------
# DNSKEY: reference RDATA encoder (RFC 4034 2.1, RFC 3110 2, RFC 6605 4, RFC 8080 3, RFC 2536 2)
# ------------------------------------------------------------------------------------------------

RSA_ALGS = [1, 5, 7, 8, 10]
DSA_ALGS = [3, 6]
FLAG_BITS = [0x0001, 0x0080, 0x0100]


def be(v, n):
    return int(v).to_bytes(n, 'big')


def min_be(v):
    return be(v, (v.bit_length() + 7) // 8)


def safe_int(rng, nbytes, top=None):
    """an integer of exactly nbytes octets (top octet non-zero) away from the float-logarithm zone"""
    while True:
        first = top if top is not None else rng.randrange(1, 256)
        v = int.from_bytes(bytes([first]) + rbytes(rng, nbytes - 1), 'big') if nbytes else 0
        if nbytes == 0 or not canon_dns.float_risk(v) and v != 256 ** (nbytes - 1):
            return v


def rsa_key_bytes(e, n, long_form=None):
    eb = min_be(e)
    if long_form is None:
        long_form = not 1 <= len(eb) <= 255
    head = b'\x00' + be(len(eb), 2) if long_form else be(len(eb), 1)
    return head + eb + min_be(n)


def flags_word(rng):
    return sum(f for f in FLAG_BITS if rng.random() < 0.5)


def dnskey_rdata(rng, kind=None):
    """(RDATA of a DNSKEY the library round-trips, description)"""
    kind = kind or rng.choice(['rsa', 'rsa', 'rsa', 'rsa3', 'ec256', 'ec384', 'gost', 'ed25519', 'ed448', 'dsa'])
    head = be(flags_word(rng), 2) + b'\x03'
    if kind in ('rsa', 'rsa3'):
        alg = rng.choice(RSA_ALGS)
        if kind == 'rsa3':
            e = safe_int(rng, rng.choice([256, 257, 300]))     # needs the three-octet length form
        else:
            e = rng.choice([3, 17, 65537, 2 ** 32 + 1, safe_int(rng, rng.choice([1, 2, 3, 4, 8, 255]))])
        n = safe_int(rng, rng.choice([2, 3, 4, 5, 63, 64, 65, 127, 128, 129, 255, 256, 257, 512, rng.randrange(2, 300)]))
        return head + be(alg, 1) + rsa_key_bytes(e, n), kind
    if kind in ('ec256', 'ec384', 'gost'):
        alg, size = {'ec256': (13, 32), 'ec384': (14, 48), 'gost': (12, 32)}[kind]
        xs, ys = rng.choice([(size, size), (size, size), (size - 1, size), (size - 1, size - 2), (size, 1)])
        return head + be(alg, 1) + be(safe_int(rng, xs), size) + be(safe_int(rng, ys), size), kind
    if kind == 'ed25519':
        return head + be(15, 1) + rbytes(rng, 32), kind
    if kind == 'ed448':
        return head + be(16, 1) + rbytes(rng, 56), kind      # what the library reads; RFC 8080 keys have 57 octets
    t = rng.choice([0, 0, 1, 8])
    size = 64 + 8 * t
    return (head + be(rng.choice(DSA_ALGS), 1) + be(t, 1) + be(safe_int(rng, 20), 20) + be(safe_int(rng, size), size) +
            be(rng.randrange(1, 256 ** size), size) + be(rng.randrange(1, 256 ** size), size)), 'dsa'


def dnskey(rng):
    from cryptoparser.dnsrec.record import DnsRecordDnskey
    return DnsRecordDnskey.parse_exact_size(dnskey_rdata(rng)[0])


# (model class name, generator) for the classes inside the Lean model; empty while the driver in use
# does not know the DNS classes
MODELLED_GENERATORS = [
    ('DnsNameUncompressed', name),
    ('DnsRecordMx', mx),
    ('DnsRecordDs', ds),
    ('DnsRecordRrsig', rrsig),
    ('DnsRecordTxt', txt),
    ('DnsRecordDnskey', dnskey),
    ('DnsRrTypePrivate', private_type),
] if canon_dns.driver_has_dns() else []

FRAMING_MODELLED = set()
