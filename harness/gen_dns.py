# -*- coding: utf-8 -*-
"""Type-directed generators of DNS record-data objects.  Names, MX, DS, RRSIG and TXT objects are built
with the library's constructors; DNSKEY objects (whose key attribute is a cryptodatahub/asn1crypto
object) are obtained by parsing RDATA produced by the small reference encoder below.
All randomness comes from the `rng` argument."""
import datetime

from harness import canon_dns

LABEL_CHARS = 'abcdefghijklmnopqrstuvwxyzABCDEFGHIJKLMNOPQRSTUVWXYZ0123456789-_'


def rbytes(rng, n):
    return bytes(rng.getrandbits(8) for _ in range(n))


def label(rng, n=None):
    if n is None:
        n = rng.choice([1, 1, 2, 3, 7, 10, 63, 63, rng.randrange(1, 64)])
    while True:
        text = ''.join(rng.choice(LABEL_CHARS) for _ in range(n))
        if 'xn--' not in text.lower():
            return text


def labels(rng):
    r = rng.random()
    if r < 0.12:
        return []                                    # the root
    if r < 0.2:
        return [label(rng, 63), label(rng, 63), label(rng, 63), label(rng, 61)]   # 255 octets: the maximum
    if r < 0.25:
        return [label(rng, 1) for _ in range(127)]   # 255 octets in 127 labels
    out = [label(rng) for _ in range(rng.choice([1, 2, 2, 3, 3, 4, 6]))]
    while sum(1 + len(l) for l in out) + 1 > 255:     # RFC 1035 2.3.4: 255 octets or less
        out.pop()
    return out


def name(rng):
    from cryptoparser.dnsrec.record import DnsNameUncompressed
    return DnsNameUncompressed(labels(rng))


def mx(rng):
    from cryptoparser.dnsrec.record import DnsRecordMx
    prio = rng.choice([0, 1, 10, 255, 256, 65535, rng.randrange(65536)])
    if rng.random() < 0.5:
        return DnsRecordMx(prio, name(rng))
    return DnsRecordMx(prio, '.'.join(labels(rng)))   # the converter splits the text at the dots


def ds(rng):
    from cryptoparser.dnsrec.record import DnsRecordDs
    from cryptodatahub.dnsrec.algorithm import DnsSecAlgorithm, DnsSecDigestType
    dt = rng.choice(list(DnsSecDigestType))
    size = {1: 20, 2: 32, 3: 32, 4: 48}.get(dt.value.code, 32)
    if rng.random() < 0.25:
        size = rng.choice([0, 1, 19, 21, 64, rng.randrange(0, 80)])
    return DnsRecordDs(rng.choice([0, 1, 255, 256, 65535, rng.randrange(65536)]), rng.choice(list(DnsSecAlgorithm)),
                       dt, bytearray(rbytes(rng, size)))


def instant(rng):
    # the whole 32-bit range; 2^32 - 1 is the instant 2106-02-07 06:28:15 UTC
    t = rng.choice([0, 1, 2 ** 31 - 1, 2 ** 31, 2 ** 32 - 2, 2 ** 32 - 1, 1600000000, rng.randrange(2 ** 32),
                    rng.randrange(2 ** 32), rng.randrange(2 ** 32), rng.randrange(2 ** 32), rng.randrange(2 ** 32)])
    return datetime.datetime(1970, 1, 1) + datetime.timedelta(seconds=t)


def type_covered(rng):
    from cryptoparser.dnsrec.record import DnsRrTypePrivate
    from cryptodatahub.dnsrec.algorithm import DnsRrType
    if rng.random() < 0.3:
        return DnsRrTypePrivate(rng.choice([0xff00, 0xff01, 0xfffe, 0xfffd, rng.randrange(0xff00, 0xffff)]))
    return rng.choice(list(DnsRrType))


def rrsig(rng):
    from cryptoparser.dnsrec.record import DnsRecordRrsig
    from cryptodatahub.dnsrec.algorithm import DnsSecAlgorithm
    sig_len = rng.choice([32, 64, 64, 96, 128, 256, rng.randrange(5, 300)])
    if rng.random() < 0.04:
        sig_len = rng.randrange(0, 5)         # with a short signer name: 19..23 octets of RDATA (fixed part: 18)
    return DnsRecordRrsig(
        type_covered=type_covered(rng), algorithm=rng.choice(list(DnsSecAlgorithm)),
        labels=rng.choice([0, 1, 2, 3, 127, 255]), original_ttl=rng.choice([0, 1, 3600, 86400, 2 ** 31 - 1, 2 ** 31, 2 ** 32 - 1]),
        signature_expiration=instant(rng), signature_inception=instant(rng),
        key_tag=rng.choice([0, 1, 65535, rng.randrange(65536)]),
        signers_name=name(rng) if rng.random() < 0.6 else '.'.join(labels(rng)),
        signature=bytearray(rbytes(rng, sig_len)))


def txt_text(rng, n):
    return ''.join(chr(rng.randrange(0x20, 0x7f)) if rng.random() < 0.9 else chr(rng.randrange(0x80)) for _ in range(n))


def txt(rng):
    from cryptoparser.dnsrec.record import DnsRecordTxt
    r = rng.random()
    if r < 0.08:
        # several character-strings on the wire (the only way to hold more than 255 octets)
        parts = [txt_text(rng, rng.choice([0, 1, 17, 255, 255])) for _ in range(rng.choice([2, 2, 3, 5]))]
        return DnsRecordTxt.parse_exact_size(b''.join(bytes([len(p)]) + p.encode('ascii') for p in parts))
    if r < 0.12:
        return DnsRecordTxt(txt_text(rng, rng.choice([256, 257, 300, 510, 511, 600])))   # several character-strings
    return DnsRecordTxt(txt_text(rng, rng.choice([0, 1, 2, 30, 100, 254, 255, rng.randrange(256)])))


def private_type(rng):
    from cryptoparser.dnsrec.record import DnsRrTypePrivate
    return DnsRrTypePrivate(rng.choice([0xff00, 0xfffe, rng.randrange(0xff00, 0xffff)]))


# ------------------------------------------------------------------------------------------------
# DNSKEY: reference RDATA encoder (RFC 4034 2.1, RFC 3110 2, RFC 6605 4, RFC 8080 3, RFC 2536 2)
# ------------------------------------------------------------------------------------------------

RSA_ALGS = [1, 5, 7, 8, 10]
DSA_ALGS = [3, 6]
FLAG_BITS = [0x0001, 0x0080, 0x0100]


def be(v, n):
    return int(v).to_bytes(n, 'big')


def min_be(v):
    return be(v, (v.bit_length() + 7) // 8)


def safe_int(rng, nbytes, top=None):
    """an integer of exactly nbytes octets (top octet non-zero) away from the float-logarithm zone"""
    while True:
        first = top if top is not None else rng.randrange(1, 256)
        v = int.from_bytes(bytes([first]) + rbytes(rng, nbytes - 1), 'big') if nbytes else 0
        if nbytes == 0 or not canon_dns.float_risk(v) and v != 256 ** (nbytes - 1):
            return v


def rsa_key_bytes(e, n, long_form=None):
    eb = min_be(e)
    if long_form is None:
        long_form = not 1 <= len(eb) <= 255
    head = b'\x00' + be(len(eb), 2) if long_form else be(len(eb), 1)
    return head + eb + min_be(n)


def flags_word(rng):
    return sum(f for f in FLAG_BITS if rng.random() < 0.5)


def dnskey_rdata(rng, kind=None):
    """(RDATA of a DNSKEY the library round-trips, description)"""
    kind = kind or rng.choice(['rsa', 'rsa', 'rsa', 'rsa3', 'ec256', 'ec384', 'gost', 'ed25519', 'ed448', 'dsa'])
    head = be(flags_word(rng), 2) + b'\x03'
    if kind in ('rsa', 'rsa3'):
        alg = rng.choice(RSA_ALGS)
        if kind == 'rsa3':
            e = safe_int(rng, rng.choice([256, 257, 300]))     # needs the three-octet length form
        else:
            e = rng.choice([3, 17, 65537, 2 ** 32 + 1, safe_int(rng, rng.choice([1, 2, 3, 4, 8, 255]))])
        n = safe_int(rng, rng.choice([2, 3, 4, 5, 63, 64, 65, 127, 128, 129, 255, 256, 257, 512, rng.randrange(2, 300)]))
        if rng.random() < 0.1:
            # moduli at and next to a power of 256 / of two: sized by bit_length(), not by a float logarithm
            k = rng.choice([1, 4, 8, 64, 128, 256])
            n = rng.choice([256 ** k, 256 ** k + 1, 256 ** k - 1, 2 ** (8 * k - 1), 2 ** (8 * k - 1) + 1, 1, 255, 256])
        return head + be(alg, 1) + rsa_key_bytes(e, n), kind
    if kind in ('ec256', 'ec384', 'gost'):
        alg, size = {'ec256': (13, 32), 'ec384': (14, 48), 'gost': (12, 32)}[kind]
        xs, ys = rng.choice([(size, size), (size, size), (size - 1, size), (size - 1, size - 2), (size, 1)])
        return head + be(alg, 1) + be(safe_int(rng, xs), size) + be(safe_int(rng, ys), size), kind
    if kind == 'ed25519':
        return head + be(15, 1) + rbytes(rng, 32), kind
    if kind == 'ed448':
        return head + be(16, 1) + rbytes(rng, 56), kind      # what the library reads; RFC 8080 keys have 57 octets
    t = rng.choice([0, 0, 1, 8])
    size = 64 + 8 * t
    prime = rng.choice([safe_int(rng, size), safe_int(rng, size), 256 ** (size - 1), 256 ** (size - 1) + 1, 256 ** size - 1])
    return (head + be(rng.choice(DSA_ALGS), 1) + be(t, 1) + be(safe_int(rng, 20), 20) + be(prime, size) +
            be(rng.randrange(1, 256 ** size), size) + be(rng.randrange(1, 256 ** size), size)), 'dsa'


def dnskey(rng):
    from cryptoparser.dnsrec.record import DnsRecordDnskey
    return DnsRecordDnskey.parse_exact_size(dnskey_rdata(rng)[0])


# (model class name, generator) for the classes inside the Lean model; empty while the driver in use
# does not know the DNS classes
MODELLED_GENERATORS = [
    ('DnsNameUncompressed', name),
    ('DnsRecordMx', mx),
    ('DnsRecordDs', ds),
    ('DnsRecordRrsig', rrsig),
    ('DnsRecordTxt', txt),
    ('DnsRecordDnskey', dnskey),
    ('DnsRrTypePrivate', private_type),
] if canon_dns.driver_has_dns() else []

FRAMING_MODELLED = set()


# ------------------------------------------------------------------------------------------------
# wire inputs that no compose() produces: RDATA the parsers must refuse or read canonically
# ------------------------------------------------------------------------------------------------

def raw_dnskey(rng):
    """DNSKEY RDATA at the edges of what the key parsers accept"""
    head = be(flags_word(rng) | rng.choice([0, 0, 0x0200, 0x8000]), 2) + b'\x03'
    rsa = head + be(rng.choice(RSA_ALGS), 1)
    modulus = min_be(safe_int(rng, rng.choice([1, 2, 64, 65])))
    size = rng.choice([32, 32, 48])
    ec = head + be({32: rng.choice([12, 13]), 48: 14}[size], 1)
    coord = be(safe_int(rng, size), size)
    t = rng.choice([0, 1])
    dsa_size = 64 + 8 * t
    dsa = head + be(rng.choice(DSA_ALGS), 1) + be(t, 1) + be(safe_int(rng, 20), 20)
    rest = be(rng.randrange(1, 256 ** dsa_size), dsa_size) + be(rng.randrange(1, 256 ** dsa_size), dsa_size)
    return rng.choice([
        head + be(rng.choice([0, 2]), 1) + rbytes(rng, rng.choice([0, 10, 64])),   # DELETE, DH: no signature key type
        rsa + b'\x03\x01\x00\x01',                                  # no modulus octets
        rsa + b'\x03\x01\x00\x01' + bytes(rng.choice([1, 64])),   # modulus 0 in some octets
        rsa + b'\x01\x00' + modulus,                                # exponent 0
        rsa + b'\x00\x00\x00' + modulus,                            # exponent of no octets (long length form)
        rsa + b'\x03\x00\x00\x00' + modulus,                        # exponent 0 in three octets
        rsa + b'\x03\x01\x00\x01\x01' + bytes(rng.choice([1, 64, 128])),          # modulus 256^k
        rsa + b'\x03\x01\x00\x01\x01' + bytes(rng.choice([63, 127])) + b'\x01',   # modulus 256^k + 1
        rsa + b'\x03\x01\x00\x01' + bytes(rng.choice([1, 3])) + modulus,          # leading zero octets (tolerated)
        rsa + b'\x03\x00\x00\x03' + modulus,                        # exponent with leading zero octets (tolerated)
        rsa + b'\x00\x00\x03\x01\x00\x01' + modulus,                # long length form for a short exponent (tolerated)
        ec + bytes(size) + coord,                                    # x = 0
        ec + coord + bytes(size),                                    # y = 0
        ec + be(256 ** rng.randrange(0, size), size) + be(rng.choice([1, 255]), size),   # wider coordinate a power of 256
        ec + be(1, size) + be(1, size),
        ec + coord + coord + rbytes(rng, rng.choice([1, 2, 32])),    # octets after the key
        head + be(15, 1) + rbytes(rng, 32 + rng.choice([1, 2, 25])),
        head + be(16, 1) + rbytes(rng, 57),                          # an RFC 8080 Ed448 key: 57 octets
        dsa + b'\x00' + rbytes(rng, dsa_size - 1) + rest,            # prime with a leading zero octet
        dsa + bytes(dsa_size) + rest,                                # prime 0
        dsa + be(256 ** (dsa_size - 1), dsa_size) + rest,            # prime 256^(size-1): fills its octets
        dsa + be(safe_int(rng, dsa_size), dsa_size) + rest + rbytes(rng, rng.choice([1, 8])),   # octets after the key
        dsa + be(safe_int(rng, dsa_size), dsa_size) + rest[:-rng.choice([1, 8, dsa_size])],     # truncated
    ])


def raw_name(rng):
    """names at and beyond the limits of RFC 1035 2.3.4, and labels holding the label separator"""
    def lab(n, ch=None):
        return bytes([n]) + (ch or label(rng, 1).encode('ascii')) * n
    return rng.choice([
        lab(63) + b'\x00', lab(64) + b'\x00', lab(rng.choice([65, 127, 128, 191, 192, 255])) + b'\x00',
        lab(63) * 3 + lab(61) + b'\x00',             # 255 octets
        lab(63) * 3 + lab(62) + b'\x00',             # 256 octets
        lab(63) * rng.choice([4, 5]) + b'\x00',
        lab(1) * 127 + b'\x00', lab(1) * 128 + b'\x00',
        lab(1) * 127 + lab(1)[:1],                   # the limit is reached before the name ends: NotEnoughData first
        b'\x03a.b\x00', b'\x04a..b\x00', b'\x01.\x00', b'\x02a.\x00', b'\x02.a\x00',
        lab(63) + b'\x7f' + b'a' * 63 + b'.' + b'b' * 63 + b'\x00',     # 127 octets that the idna codec takes as two pieces
        lab(3) + bytes([0xc0, 0x0c]),                # a compression pointer
    ])


def raw_mx(rng):
    return be(rng.randrange(65536), 2) + raw_name(rng)


def raw_rrsig(rng):
    fixed = (be(rng.choice([1, 48, 0xff00, 0xfeff, 0xffff]), 2) + be(rng.choice([8, 13, 15]), 1) + be(rng.randrange(4), 1) +
             be(3600, 4) + be(rng.randrange(2 ** 32), 4) + be(rng.randrange(2 ** 32), 4) + be(rng.randrange(65536), 2))
    return rng.choice([
        fixed,                                                       # 18 octets: the signer's name is missing
        fixed + b'\x00',                                             # 19 octets: root signer, empty signature
        fixed + b'\x00' + rbytes(rng, rng.randrange(1, 5)),          # 20..23 octets
        fixed + b'\x01a\x00' + rbytes(rng, rng.randrange(0, 3)),
        fixed[:rng.randrange(0, 18)],
        fixed + raw_name(rng) + rbytes(rng, rng.choice([0, 4, 64])),
    ])


RAW_INPUTS = [
    ('DnsRecordDnskey', raw_dnskey),
    ('DnsNameUncompressed', raw_name),
    ('DnsRecordMx', raw_mx),
    ('DnsRecordRrsig', raw_rrsig),
] if canon_dns.driver_has_dns() else []
