# -*- coding: utf-8 -*-
"""pytest plugin (loaded with `-p harness.corpus_plugin`, PYTHONPATH=/verif) that records every successful
parse the repo's own test-suite performs.

It wraps `ParsableBaseNoABC.parse_exact_size / parse_immutable / parse_mutable` in the pytest child process
only (nothing in /repo is modified) and appends one JSON line `{"cls": "<module>:<qualname>", "hex": "<consumed
bytes>"}` per distinct (class, consumed input) to the file named by $CP_CORPUS_OUT."""
import json
import os

_SEEN = set()
_OUT = None


def _record(cls, data):
    global _OUT
    if '<locals>' in cls.__qualname__:
        return
    key = (cls.__module__, cls.__qualname__, data)
    if key in _SEEN:
        return
    _SEEN.add(key)
    if _OUT is None:
        _OUT = open(os.environ['CP_CORPUS_OUT'], 'a')
    _OUT.write(json.dumps({'cls': cls.__module__ + ':' + cls.__qualname__, 'hex': data.hex()}) + '\n')
    _OUT.flush()


def _install():
    from cryptoparser.common.parse import ParsableBaseNoABC

    orig_exact = ParsableBaseNoABC.__dict__['parse_exact_size'].__func__
    orig_immutable = ParsableBaseNoABC.__dict__['parse_immutable'].__func__
    orig_mutable = ParsableBaseNoABC.__dict__['parse_mutable'].__func__

    def parse_exact_size(cls, parsable):
        data = bytes(parsable)
        result = orig_exact(cls, parsable)
        _record(cls, data)
        return result

    def parse_immutable(cls, parsable):
        data = bytes(parsable)
        result = orig_immutable(cls, parsable)
        _record(cls, data[:result[1]])
        return result

    def parse_mutable(cls, parsable):
        data = bytes(parsable)
        result = orig_mutable(cls, parsable)
        _record(cls, data[:len(data) - len(parsable)])
        return result

    ParsableBaseNoABC.parse_exact_size = classmethod(parse_exact_size)
    ParsableBaseNoABC.parse_immutable = classmethod(parse_immutable)
    ParsableBaseNoABC.parse_mutable = classmethod(parse_mutable)


if os.environ.get('CP_CORPUS_OUT'):
    _install()
