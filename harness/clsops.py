# -*- coding: utf-8 -*-
"""Class-level operations of the line protocol (P/X/M/R) executed against the real code, and the
implementation-side statements of C01/C02/C03/C05 for a single input."""
from harness import core, canon
from harness.core import hx, unhx, err_line

_MODELLED = None


def modelled():
    global _MODELLED  # pylint: disable=global-statement
    if _MODELLED is None:
        _MODELLED = dict(canon.modelled())
        # protocol families are pluggable: harness/canon_<family>.py with a modelled() function
        import importlib
        for family in ('ssh', 'dns', 'opp', 'ssl2'):
            try:
                mod = importlib.import_module('harness.canon_' + family)
            except ImportError:
                continue
            _MODELLED.update(mod.modelled())
    return _MODELLED


def compose_text(obj):
    try:
        return hx(bytes(obj.compose()))
    except Exception as exc:  # pylint: disable=broad-except
        return 'COMPOSE-' + err_line(exc).replace(' ', '_')


def canon_text(fn, obj):
    try:
        return fn(obj)
    except canon.Unmodelled:
        return 'UNMODELLED'


def impl_lines(name, data):
    """[R line, X line, M line] for a modelled class on the real code."""
    cls, fn = modelled()[name]
    out = []
    try:
        obj, n = cls.parse_immutable(bytes(data))
        text = canon_text(fn, obj)
        if text == 'UNMODELLED':
            out.append('UNMODELLED')
        else:
            comp = compose_text(obj)
            out.append('UNMODELLED' if 'UNMODELLED' in comp else 'OK {} {} {}'.format(n, text, comp))
    except Exception as exc:  # pylint: disable=broad-except
        out.append(err_line(exc))
    try:
        obj = cls.parse_exact_size(bytes(data))
        text = canon_text(fn, obj)
        out.append('UNMODELLED' if text == 'UNMODELLED' else 'OK ' + text)
    except Exception as exc:  # pylint: disable=broad-except
        out.append(err_line(exc))
    buf = bytearray(data)
    try:
        obj = cls.parse_mutable(buf)
        text = canon_text(fn, obj)
        out.append('UNMODELLED' if text == 'UNMODELLED' else 'OK {} {}'.format(text, hx(buf)))
    except Exception as exc:  # pylint: disable=broad-except
        out.append('{} {}'.format(err_line(exc), hx(buf)))
    return out


def model_lines(name, data):
    h = hx(data)
    return ['R {} {}'.format(name, h), 'X {} {}'.format(name, h), 'M {} {}'.format(name, h)]


def same(model_line, impl_line):
    if model_line.startswith('UNMODELLED') or impl_line.startswith('UNMODELLED'):
        return True
    return model_line == impl_line


# ------------------------------------------------------------------------------------------------
# the properties themselves, on the real code, for one (class, input)
# ------------------------------------------------------------------------------------------------

FRAMING = set()  # filled by the property modules: class objects that are stream framing units


def check_input(cls, data, want=('C02', 'C03', 'C05'), framing=False, suffixes=(b'', b'\x00', b'\xff\x16\x03')):
    """Evaluate C02/C03/C05 for `cls` on `data`.  Returns list of (property, key, message)."""
    bad = []
    name = cls.__name__
    data = bytes(data)
    try:
        obj, n = cls.parse_immutable(data)
        ok = True
    except Exception as exc:  # pylint: disable=broad-except
        ok = False
        line = err_line(exc)
        if line.startswith('CRASH') and 'C02' in want:
            bad.append(('C02', 'crash:{}:{}'.format(name, type(exc).__name__),
                        '{}.parse_immutable({}) raised {}: {}'.format(name, hx(data), type(exc).__name__, str(exc)[:120])))
    if 'C03' in want:
        buf = bytearray(data)
        try:
            cls.parse_mutable(buf)
            mut_ok = True
        except Exception:  # pylint: disable=broad-except
            mut_ok = False
        if ok:
            if not 0 <= n <= len(data):
                bad.append(('C03', 'len-bound:' + name, '{}: consumed {} of {} bytes on {}'.format(name, n, len(data), hx(data))))
            elif not mut_ok or bytes(buf) != data[n:]:
                bad.append(('C03', 'mutable:' + name, '{}.parse_mutable({}) left {} expected {}'.format(
                    name, hx(data), hx(buf), hx(data[n:]))))
            try:
                cls.parse_exact_size(data)
                exact_ok = True
            except Exception:  # pylint: disable=broad-except
                exact_ok = False
            if exact_ok != (n == len(data)):
                bad.append(('C03', 'exact:' + name, '{}: parse_exact_size success={} but consumed {} of {} on {}'.format(
                    name, exact_ok, n, len(data), hx(data))))
            if framing:
                if n <= 0:
                    bad.append(('C03', 'positive:' + name, '{}: consumed {} on {}'.format(name, n, hx(data))))
                ref = canon.generic(obj)
                # besides the fixed suffixes: the unit's own last byte repeated (a terminator must be taken once),
                # line terminators, and the unit itself (a stream of units)
                own = tuple(x for x in (data[n - 1:n] * 2, b'\n', b'\n\n\x00', b'\r\n', b' ', data[:n]) if x)
                for sfx in tuple(suffixes) + own:
                    try:
                        o2, n2 = cls.parse_immutable(data[:n] + sfx)
                        same_obj = canon.generic(o2) == ref and n2 == n
                        why = 'n={} obj-equal={}'.format(n2, canon.generic(o2) == ref)
                    except Exception as exc:  # pylint: disable=broad-except
                        same_obj = False
                        why = err_line(exc)
                    if not same_obj:
                        bad.append(('C03', 'self-delim:' + name,
                                    '{}: parse of the first {} bytes of {} followed by {} differs ({})'.format(
                                        name, n, hx(data), hx(sfx), why)))
                        break
        else:
            if mut_ok or bytes(buf) != data:
                bad.append(('C03', 'fail-untouched:' + name, '{}: failed parse_immutable but parse_mutable ok={} buffer {}'.format(
                    name, mut_ok, hx(buf))))
    if ok and 'C05' in want and hasattr(obj, 'compose'):
        try:
            b2 = bytes(obj.compose())
        except Exception as exc:  # pylint: disable=broad-except
            bad.append(('C05', 'recompose:{}:{}'.format(name, type(exc).__name__),
                        '{}: accepted {} but compose() raised {}'.format(name, hx(data), err_line(exc))))
            return bad
        try:
            o2, n2 = cls.parse_immutable(b2)
        except Exception as exc:  # pylint: disable=broad-except
            bad.append(('C05', 'reparse:{}'.format(name), '{}: {} -> compose {} is rejected: {}'.format(
                name, hx(data), hx(b2), err_line(exc))))
            return bad
        if n2 != len(b2) or canon.generic(o2) != canon.generic(obj):
            bad.append(('C05', 'meaning:{}'.format(name), '{}: {} -> {} re-parses (n={}) to a different object: {} vs {}'.format(
                name, hx(data), hx(b2), n2, canon.generic(o2)[:200], canon.generic(obj)[:200])))
            return bad
        try:
            b3 = bytes(o2.compose())
        except Exception as exc:  # pylint: disable=broad-except
            b3 = None
        if b3 != b2:
            bad.append(('C05', 'stable:{}'.format(name), '{}: compose not stable: {} then {}'.format(name, hx(b2), b3 and hx(b3))))
    return bad


def check_object(obj, suffix=b''):
    """C01 for a constructed object: compose, parse (exact and with a suffix), equal field by field."""
    bad = []
    cls = type(obj)
    name = cls.__name__
    if not hasattr(cls, 'parse_exact_size'):
        return [], None     # composable enum members (NByteEnumComposer): parsed by their factory class, not by themselves
    before = canon.generic(obj)
    try:
        b = bytes(obj.compose())
    except Exception as exc:  # pylint: disable=broad-except
        return [('C01', 'compose:{}:{}'.format(name, type(exc).__name__),
                 '{}: compose() of a constructed object raised {} [{}]'.format(name, err_line(exc), before[:300]))], None
    try:
        o2 = cls.parse_exact_size(b)
    except Exception as exc:  # pylint: disable=broad-except
        return [('C01', 'parse:{}'.format(name), '{}: own composition {} rejected: {} [{}]'.format(
            name, hx(b), err_line(exc), before[:300]))], b
    if canon.generic(o2) != before:
        bad.append(('C01', 'equal:{}'.format(name), '{}: round trip changed the object: {} -> {} (bytes {})'.format(
            name, before[:300], canon.generic(o2)[:300], hx(b))))
    if suffix:
        try:
            o3, n3 = cls.parse_immutable(b + suffix)
            if n3 != len(b) or canon.generic(o3) != before:
                bad.append(('C01', 'suffix:{}'.format(name), '{}: with trailing bytes consumed {} of {} / object differs'.format(
                    name, n3, len(b))))
        except Exception as exc:  # pylint: disable=broad-except
            bad.append(('C01', 'suffix:{}'.format(name), '{}: own composition followed by {} rejected: {}'.format(
                name, hx(suffix), err_line(exc))))
    return bad, b
