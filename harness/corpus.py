# -*- coding: utf-8 -*-
"""Corpus of (class, input bytes) pairs harvested at run time from the repo's own test-suite.

`harvest()` runs the repo's pytest in a child process with `harness.corpus_plugin` loaded, which logs
every successful `parse_exact_size / parse_immutable / parse_mutable` call, and returns the pairs that
re-parse in this process with `parse_exact_size`.  Nothing is copied from a previous run: the log lives
in a temporary file outside /verif, is shared with child processes of this run through $CP_CORPUS_FILE,
and is removed at exit of the process that created it."""
from __future__ import print_function

import atexit
import importlib
import json
import os
import subprocess
import sys
import tempfile

from harness import core

_CACHE = {}


def _run_pytest(path):
    env = dict(os.environ)
    env['CP_CORPUS_OUT'] = path
    env['PYTHONPATH'] = os.pathsep.join([core.VERIF, core.REPO] + [p for p in env.get('PYTHONPATH', '').split(os.pathsep) if p])
    env['PYTHONDONTWRITEBYTECODE'] = '1'
    env.pop('CP_CORPUS_FILE', None)
    proc = subprocess.run(
        [sys.executable, '-m', 'pytest', '-q', '--no-header', '-p', 'no:cacheprovider', '-p', 'harness.corpus_plugin',
         '--continue-on-collection-errors', '-o', 'addopts=', 'test'],
        cwd=core.REPO, env=env, stdout=subprocess.PIPE, stderr=subprocess.STDOUT, universal_newlines=True,
        timeout=600, check=False)
    return proc.returncode, proc.stdout


def raw_entries():
    """[(class path, hex)] exactly as logged, in the order of first occurrence."""
    if 'raw' in _CACHE:
        return _CACHE['raw']
    path = os.environ.get('CP_CORPUS_FILE')
    if not path or not os.path.exists(path):
        fd, path = tempfile.mkstemp(prefix='cpverif-corpus-', suffix='.jsonl')
        os.close(fd)
        atexit.register(lambda p=path: os.path.exists(p) and os.remove(p))
        _, out = _run_pytest(path)
        if os.path.getsize(path) == 0:
            raise RuntimeError('corpus harvest produced nothing:\n' + out[-2000:])
        os.environ['CP_CORPUS_FILE'] = path
    entries = []
    seen = set()
    with open(path) as f:
        for line in f:
            line = line.strip()
            if not line:
                continue
            rec = json.loads(line)
            key = (rec['cls'], rec['hex'])
            if key not in seen:
                seen.add(key)
                entries.append(key)
    _CACHE['raw'] = entries
    return entries


def resolve(cls_path):
    module, qualname = cls_path.split(':')
    obj = importlib.import_module(module)
    for part in qualname.split('.'):
        obj = getattr(obj, part)
    return obj


def harvest():
    """[(cls, bytes)] for every logged pair whose class is importable here and whose bytes re-parse with
    `cls.parse_exact_size`."""
    if 'pairs' in _CACHE:
        return _CACHE['pairs']
    if core.REPO not in sys.path:
        sys.path.insert(0, core.REPO)
    pairs = []
    for cls_path, hexstr in raw_entries():
        try:
            cls = resolve(cls_path)
            data = bytes.fromhex(hexstr)
            cls.parse_exact_size(data)
        except Exception:  # pylint: disable=broad-except
            continue
        pairs.append((cls, data))
    _CACHE['pairs'] = pairs
    return pairs


def class_path(cls):
    return cls.__module__ + ':' + cls.__qualname__
