# -*- coding: utf-8 -*-
"""C02 — parsing untrusted bytes fails only with the documented parse errors."""
from harness import core, clsrun, clsops

LEAN_MODULES = ['CpProps.C02', 'CpProps.C02Hello', 'CpProps.C02Ssl2', 'CpProps.C02Ext']
RULE = ('objects of every modelled class are built with the library constructors by type-directed generators (all enum '
        'members, unknown/GREASE code points, empty and maximal vectors, optional parts absent/present, boundary integers), '
        'composed, and the encodings are used as they are, with trailing bytes, concatenated, truncated at many offsets, '
        'bit-flipped, length-corrupted and spliced; each input runs through the real parse_immutable/parse_exact_size/'
        'parse_mutable and through the Lean model (ops R/X/M) and the outcomes (value in canonical form, consumed length, '
        'error class and count, buffer afterwards, recomposition) are compared; the property itself is evaluated on the '
        'real code for every input. Non-trivial: the input is not all zero; distinct: (class, bytes).')
WANT = ('C02',)


def run(run, driver_ok=True, deep=False):
    tier = 'thorough' if deep else run.tier
    clsrun.class_property_run(run, driver_ok, WANT, per_class=40 if tier == 'quick' else 300, n_mut=25, truncations=40)
    extra(run, tier)


def extra(run, tier):
    try:
        from harness import corpus_props
    except ImportError:
        return
    corpus_props.run(run, WANT, tier)


def search(run, proof):
    if run.tier != 'thorough':
        sub = core.Run(run.prop, 'thorough', run.seed + 1)
        sub.kf = run.kf
        globals()['run'](sub, driver_ok=False, deep=True)
        run.violations.extend(sub.violations)
        run.known_hits.update(sub.known_hits)
        run.evaluations += sub.evaluations
        run.notes.append('failing-input search: thorough-tier implementation oracle, {} cases'.format(sub.evaluations))


def replay(case):
    if case.get('kind') == 'cls':
        return clsrun.ClsOracle.prop(case)
    if case.get('kind') == 'corpus':
        from harness import corpus_props
        return corpus_props.replay(case)
    return []
