# -*- coding: utf-8 -*-
"""C15 — JA3 of a client hello equals the published algorithm applied to its bytes."""
from harness import core, gen_tls, canon
from harness.core import hx, unhx

LEAN_MODULES = ['CpProps.C15', 'CpProps.C15Partial']
RULE = ('generated client hellos (any version, ordered lists of known/unknown/GREASE cipher suites with and without the '
        'SCSV markers, extension sets of parsed, unparsed, GREASE and unknown types, supported-groups and point-format '
        'lists with GREASE and unknown values, with or without those extensions, also repeated and in first/last position) are composed; JA3 is computed by the '
        'library on the object and on its parse image, by the Lean model, by the Lean spec from the bytes, and by an '
        'independent Python reading of the published definition from the bytes. Non-trivial: at least one extension '
        'or more than one cipher suite; distinct: composed bytes.')
ASSUMPTIONS = ['the published JA3 definition (salesforce/ja3 README): GREASE values per RFC 8701 ignored in every section; '
               'SCSV cipher suites are ordinary cipher-suite values and stay in the string']

GREASE16 = {(0x0a + 0x10 * i) * 0x101 for i in range(16)}


def ja3_reference(msg, keep_grease_ciphers=False, drop_scsv=False, drop_grease8_formats=False):
    """JA3 straight from the bytes of a ClientHello handshake message."""
    assert msg[0] == 1
    ln = int.from_bytes(msg[1:4], 'big')
    b = msg[4:4 + ln]
    version = int.from_bytes(b[0:2], 'big')
    pos = 34
    sid = b[pos]
    pos += 1 + sid
    n = int.from_bytes(b[pos:pos + 2], 'big')
    pos += 2
    suites = [int.from_bytes(b[i:i + 2], 'big') for i in range(pos, pos + n, 2)]
    pos += n
    n = b[pos]
    pos += 1 + n
    exts = []
    if pos < len(b):
        n = int.from_bytes(b[pos:pos + 2], 'big')
        pos += 2
        end = pos + n
        while pos < end:
            t = int.from_bytes(b[pos:pos + 2], 'big')
            el = int.from_bytes(b[pos + 2:pos + 4], 'big')
            exts.append((t, b[pos + 4:pos + 4 + el]))
            pos += 4 + el
    groups = []
    formats = []
    for t, d in exts:
        if t == 10:
            n = int.from_bytes(d[0:2], 'big')
            groups = [int.from_bytes(d[i:i + 2], 'big') for i in range(2, 2 + n, 2)]
        elif t == 11:
            formats = list(d[1:1 + d[0]])
    if not keep_grease_ciphers:
        suites = [c for c in suites if c not in GREASE16]
    if drop_scsv:
        suites = [c for c in suites if c not in (0x00ff, 0x5600)]
    if drop_grease8_formats:
        formats = [f for f in formats if f not in {0x0b + 0x1f * i for i in range(8)}]
    return ','.join([
        str(version),
        '-'.join(str(c) for c in suites),
        '-'.join(str(t) for t, _ in exts if t not in GREASE16),
        '-'.join(str(g) for g in groups if g not in GREASE16),
        '-'.join(str(f) for f in formats),
    ])


class Ja3Oracle(object):
    """case {'kind':'ja3','data':hex of a composed ClientHello}"""

    @staticmethod
    def lines(case):
        return ['J3 ' + case['data']]

    @staticmethod
    def impl(case):
        from cryptoparser.tls.subprotocol import TlsHandshakeClientHello
        data = unhx(case['data'])
        try:
            obj, n = TlsHandshakeClientHello.parse_immutable(data)
            try:
                for e in obj.extensions:
                    canon.c_ext(e)
            except canon.Unmodelled:
                return ['UNMODELLED']
            model = 'OK {} {}'.format(n, hx(obj.ja3().encode('utf-8')))
        except Exception as exc:  # pylint: disable=broad-except
            model = core.err_line(exc)
        try:
            spec = hx(ja3_reference(data).encode('utf-8'))
        except Exception:  # pylint: disable=broad-except
            spec = 'NONE'
        return ['{} {}'.format(model, spec)]

    @staticmethod
    def prop(case):
        from cryptoparser.tls.subprotocol import TlsHandshakeClientHello
        data = unhx(case['data'])
        obj = TlsHandshakeClientHello.parse_exact_size(data)
        got = obj.ja3()
        bad = []
        if obj.ja3() != got or bytes(obj.compose()) != data:
            bad.append(('ja3-not-a-function', 'ja3() changed its result or the object: {}'.format(case['data'][:80])))
        again = TlsHandshakeClientHello.parse_exact_size(bytes(obj.compose())).ja3()
        if again != got:
            bad.append(('ja3-recompose', 'JA3 changes when the message is composed and parsed again: {} vs {}'.format(got, again)))
        want = ja3_reference(data)
        if got == want:
            return bad
        # classify the deviation: known classes are the three recorded findings, anything else is new
        suites_section = want.split(',')[1]
        ref_dev = ja3_reference(data, keep_grease_ciphers=True, drop_scsv=True, drop_grease8_formats=True)
        if got == ref_dev:
            if got == ja3_reference(data, keep_grease_ciphers=True):
                bad.append(('ja3-grease-cipher-kept', 'GREASE cipher suite kept in JA3: {} expected {}'.format(got, want)))
            elif got == ja3_reference(data, drop_scsv=True):
                bad.append(('ja3-scsv-dropped', 'SCSV cipher suite missing from JA3: {} expected {}'.format(got, want)))
            elif got == ja3_reference(data, drop_grease8_formats=True):
                bad.append(('ja3-pointformat-grease8', 'point format equal to a one-byte GREASE value dropped: {} expected {}'.format(got, want)))
            else:
                if got.split(',')[1] != suites_section:
                    if any(int(c) in GREASE16 for c in got.split(',')[1].split('-') if c):
                        bad.append(('ja3-grease-cipher-kept', 'GREASE cipher suite kept in JA3: {} expected {}'.format(got, want)))
                    if ('255' in suites_section.split('-') or '22016' in suites_section.split('-')):
                        bad.append(('ja3-scsv-dropped', 'SCSV cipher suite missing from JA3: {} expected {}'.format(got, want)))
                if got.split(',')[4] != want.split(',')[4]:
                    bad.append(('ja3-pointformat-grease8', 'point format equal to a one-byte GREASE value dropped: {} expected {}'.format(got, want)))
        else:
            bad.append(('ja3-other', 'JA3 {} differs from the published definition {} (hello {})'.format(got, want, case['data'][:160])))
        return bad


NEAR_GREASE = [0x1a2a, 0x0a1a, 0xfa0a, 0x3a0a, 0x2aea, 0x0a8a, 0x0a0b, 0x1a1b, 0xaa0a, 0x0aaa]


def near_grease(rng, hello):
    """unknown extension types and supported-group codes that LOOK like RFC 8701 GREASE (low nibbles 'a') but are not
    (the two bytes differ): they are ordinary unknown values and belong into JA3"""
    from cryptoparser.tls import extension as ex
    from cryptoparser.tls.grease import TlsInvalidTypeTwoByte
    from cryptodatahub.tls.algorithm import TlsExtensionType, TlsNamedCurve
    known_ext = {m.value.code for m in TlsExtensionType}
    known_grp = {m.value.code for m in TlsNamedCurve}
    code = rng.choice([c for c in NEAR_GREASE if c not in known_ext])
    present = {e.extension_type.value.code for e in hello.extensions}
    if code not in present:
        hello.extensions.append(ex.TlsExtensionUnparsed(TlsInvalidTypeTwoByte(code), bytearray(b'')))
    if 10 not in present:
        grp = rng.choice([c for c in NEAR_GREASE if c not in known_grp])
        hello.extensions.append(ex.TlsExtensionEllipticCurves(
            [TlsInvalidTypeTwoByte(grp), TlsNamedCurve.X25519, TlsInvalidTypeTwoByte(0x11ec if 0x11ec not in known_grp else 0xfe32)]))


def repeated_ec_extensions(rng, hello):
    """supported-groups / point-format extensions occurring more than once and in unusual positions (first, last,
    separated by other extensions): the published definition reads the last one of each type (as the Lean spec and
    `ja3_reference` do), every occurrence shows in the extension-type section"""
    from cryptoparser.tls import extension as ex
    from cryptodatahub.tls.algorithm import TlsNamedCurve, TlsECPointFormat
    curves = list(TlsNamedCurve)
    for _ in range(rng.randrange(1, 4)):
        if rng.random() < 0.6:
            new = ex.TlsExtensionEllipticCurves([rng.choice(curves) for _ in range(rng.randrange(1, 5))])
        else:
            new = ex.TlsExtensionECPointFormats([rng.choice(list(TlsECPointFormat)) for _ in range(rng.randrange(1, 3))])
        pos = rng.choice([0, len(hello.extensions), rng.randrange(len(hello.extensions) + 1)])
        hello.extensions.insert(pos, new)


def run(run, driver_ok=True, deep=False):
    tier = 'thorough' if deep else run.tier
    n = 400 if tier == 'quick' else 20000
    cases = []
    for i in range(n):
        try:
            h = gen_tls.client_hello(run.rng, modelled_only=(i % 4 != 0))
            if i % 5 == 0:
                near_grease(run.rng, h)
            if i % 6 == 1:
                repeated_ec_extensions(run.rng, h)
                run.count('repeated_ec_extensions', 'hellos')
            data = bytes(h.compose())
        except Exception as exc:  # pylint: disable=broad-except
            run.count('generator_errors', type(exc).__name__)
            continue
        case = {'kind': 'ja3', 'data': hx(data)}
        cases.append(case)
        if i % 3 == 0:
            # the same hello as written by the independent RFC encoder of C06 (bytes that do not come from compose():
            # a composer that rewrites a field produces a fixed point of its own output)
            try:
                from harness.props import c06
                ref = c06.reference(h)
                if ref != data:
                    run.count('reference_differs_from_compose', 'hellos')
                cases.append({'kind': 'ja3', 'data': hx(ref)})
            except Exception:  # pylint: disable=broad-except
                pass
        if len(h.extensions) or len(h.cipher_suites) > 1:
            run.note_nontrivial(case['data'])
        run.count('extensions', str(min(len(h.extensions), 8)))
        run.count('scsv', '{}{}'.format(int(h.fallback_scsv), int(h.empty_renegotiation_info_scsv)))
    if cases:
        run.sample(cases[0])
        run.sample({'kind': 'ja3', 'data': cases[-1]['data'], 'ja3_reference': ja3_reference(unhx(cases[-1]['data']))})
    if driver_ok:
        from harness import clsops
        core.correspond(run, Ja3Oracle, cases, compare=clsops.same)
    else:
        for case in cases:
            run.evaluations += 1
            for key, message in Ja3Oracle.prop(case):
                run.finding(key, message, case)


def search(run, proof):
    if run.tier != 'thorough':
        sub = core.Run(run.prop, 'thorough', run.seed + 1)
        sub.kf = run.kf
        globals()['run'](sub, driver_ok=False, deep=True)
        run.violations.extend(sub.violations)
        run.known_hits.update(sub.known_hits)
        run.evaluations += sub.evaluations
        run.notes.append('failing-input search: thorough-tier implementation oracle, {} cases'.format(sub.evaluations))


def replay(case):
    return Ja3Oracle.prop(case)
