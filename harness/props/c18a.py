# -*- coding: utf-8 -*-
"""C18 (scanner layer) — the text scanner `ParserText` behind every HTTP header field and DNS TXT policy parser:
optional whitespace around separators and empty list elements never change what `_parse_string_array` returns.

Correspondence: the model `CpModel/Text/Scan.lean` against the REAL `ParserText` methods, op by op
(TA `_parse_string_array`, TU `_parse_string_until_separator`, TAQ / TUQ the same two calls with `quote_aware=True`,
TC `_check_separators`, TN `parse_numeric`, TS `parse_string`, TL `_parse_string_by_length`, TK cost model, TKQ cost model
of the quote-aware call).
Implementation-side oracle: spelling variants parse like the canonical spelling.

`quote_aware=True` (the repair behind `NameValuePairList`, i.e. HTTP header value lists and DNS TXT policy records): a
separator inside an RFC 7230 3.2.6 quoted-string (DQUOTE ... DQUOTE, backslash quoted-pair, an unclosed quoted-string
extends to the end of the input) does not split.  REQUIRED since that repair (finding key `quoted-separator:split`): a
list rendered from trimmed non-empty items whose separators all lie inside balanced quoted-strings, spelled with any
whitespace / empty elements, parses to exactly these items; the whitespace / empty-element invariance holds around every
separator that an independent reference tokenizer (`quote_states`) places OUTSIDE quoted-strings.  A library without the
`quote_aware` parameter (TypeError) violates `quoted-separator:split` on every quote-aware case."""
from __future__ import print_function

import itertools
import signal

from harness import core
from harness.core import hx, unhx

LEAN_MODULES = ['CpProps.C18a']
RULE = ('_parse_string_array: every (separator, separator_spaces, skip_empty, max_item_num) combination used under '
        '/repo/cryptoparser plus synthetic ones (multi-byte separator sets, separator inside separator_spaces, empty '
        'separator, max_item_num 1..3) on (a) every string of length <= 5 (quick) / <= 7 (thorough) over {a, separator, SP, HTAB}, '
        '(b) seeded strings over a b ; , = - SP HTAB " CR LF and an occasional non-ASCII byte, (c) lists of trimmed non-empty '
        'items rendered with random whitespace runs around separators and at both ends, empty elements and a trailing '
        'separator; _parse_string_until_separator: every separator list used under /repo plus tie/ordering/empty cases, '
        'may_end on/off, offsets 0..len+1, with and without separator_spaces; _check_separators: sets x min x max x offsets; '
        'parse_numeric: digit runs incl. 4300/4301 digits; parse_string; cost model: ticks of the model against line events of the '
        'real call on 8 scalable shapes at sizes 64..256 (thorough: ..2048). quote_aware=True (TAQ/TUQ): the NameValuePairList '
        'combinations ("," | ";", SP HTAB, skip_empty) plus strict / no-whitespace / two-byte separator sets / max_item_num / '
        'separator = DQUOTE / separator = backslash, on (a) every string of length <= 6 (quick; other combinations <= 4..5) / <= 7 '
        '(thorough; <= 5..6) over {a, DQUOTE, backslash, separator(s), SP}, (b) seeded strings dense in DQUOTE, backslash, '
        'separators, whitespace and non-ASCII bytes, (c) lists of items that are tokens and quoted-strings containing the '
        'separator, escaped quotes and escaped backslashes, rendered with random whitespace and empty elements (REQUIRED: exactly '
        'these items), (d) malformed inputs: unbalanced quotes, a backslash at the end, a quote behind a backslash outside quotes, '
        'nested-looking quotes, and one-byte mutations of (c); TUQ: every separator list of TU plus DQUOTE / backslash / '
        'multi-byte lists, offsets inside / at the end / behind the end, may_end 0/1, separator_spaces "" / SP / SP HTAB, every '
        'string of length <= 3 (thorough <= 4) over {a, DQUOTE, backslash, ";", SP} at every offset; TKQ: ticks of the quote-aware '
        'cost model (bound 21*len+15) against line events of the real quote-aware call on the 8 shapes plus 8 quoted shapes (quoted '
        'items, one long / unclosed quoted-string, escapes, runs of DQUOTE / backslash), same envelope. A case is non-trivial when '
        'the input contains a separator or a whitespace byte; distinct by (op, parameters, input).')
ASSUMPTIONS = [
    'only item_class=str / fallback_class=None is driven through the scanner ops; item classes are the header layer (C18 proper)',
    'separator and separator_spaces parameters are ASCII (they are literals in /repo)',
    'CPython int() refuses more than 4300 digits (sys.int_info.default_max_str_digits)',
]
TIME_LIMIT = 2.0        # seconds for one real call (inputs are a few bytes) before it is reported as non-terminating
TU_TIME_LIMIT = 0.25    # _parse_string_until_separator called out of contract may loop forever by design of the code
MAX_TIMEOUTS = 12       # after that many non-terminating calls the remaining real calls are not waited for
_timeouts = [0]


class Timeout(Exception):
    pass


def timed(fn, limit, counted=True):
    """Run fn() under a wall-clock limit; raises Timeout if the real code does not come back.  Once MAX_TIMEOUTS
    calls have hung (the check is failing anyway) the limit drops to 20 ms so that the run still ends."""
    def handler(signum, frame):
        raise Timeout()
    if counted and _timeouts[0] >= MAX_TIMEOUTS:
        limit = 0.02
    old = signal.signal(signal.SIGALRM, handler)
    signal.setitimer(signal.ITIMER_REAL, limit)
    try:
        return fn()
    except Timeout:
        if counted:
            _timeouts[0] += 1
        raise
    finally:
        signal.setitimer(signal.ITIMER_REAL, 0)
        signal.signal(signal.SIGALRM, old)


def _text(b):
    return bytes(b).decode('latin-1')


def _opt(v):
    return '-' if v is None else str(v)


def _items_line(items, off):
    return 'OK {} [{}]'.format(off, ','.join(hx(i.encode('latin-1')) for i in items))


# ------------------------------------------------------------------------------------------------
# TA  _parse_string_array
# ------------------------------------------------------------------------------------------------

def real_array(data, sep, ws, skip, mx, qa=False):
    from cryptoparser.common.parse import ParserText
    extra = {'quote_aware': True} if qa else {}     # (not passed at all for the plain call: libraries without the parameter)

    def fn():
        p = ParserText(data)
        p.parse_string_array('x', _text(sep), separator_spaces=_text(ws), skip_empty=bool(skip), max_item_num=mx, **extra)
        return p['x'], p.parsed_length
    return timed(fn, TIME_LIMIT)


def array_line(data, sep, ws, skip, mx, qa=False):
    try:
        items, off = real_array(data, sep, ws, skip, mx, qa)
    except Timeout:
        return 'CRASH Timeout'
    except Exception as e:  # pylint: disable=broad-except
        return core.err_line(e)
    return _items_line(items, off)


def _insert_ws(data, sep, ws, doubled):
    """A spelling variant: one whitespace byte before and after every separator and at both ends; with
    `doubled` every separator is written twice (an empty element)."""
    w = ws[:1]
    out = bytearray(w)
    for x in bytearray(data):
        if x in bytearray(sep):
            out += w + bytes(bytearray([x])) * (2 if doubled else 1) + w
        else:
            out.append(x)
    out += w
    return bytes(out)


# ---- quote_aware=True: the reference reading of RFC 7230 3.2.6 (written from the RFC, shares nothing with the library) ----

Q_OUT, Q_IN, Q_PAIR = 0, 1, 2
NO_QUOTE_AWARE = 'CRASH TypeError'      # what a library without the `quote_aware` parameter answers to a quote-aware call
_no_quote_aware_reported = set()


def no_quote_aware(op, message):
    """the violation `quoted-separator:split` of a library that has no quote-aware splitting at all: reported on the first
    case of each op of a process (every quote-aware case fails the same way; a replay of any of them reproduces it)"""
    if op in _no_quote_aware_reported:
        return []
    _no_quote_aware_reported.add(op)
    return [('quoted-separator:split', message)]


def quote_states(data):
    """states[i] = where byte i stands, states[len] = where the input ends: Q_OUT outside any quoted-string (an opening
    DQUOTE itself stands outside), Q_IN inside one (qdtext, the closing DQUOTE, the backslash of a quoted-pair), Q_PAIR the
    second byte of a quoted-pair.  `quoted-string = DQUOTE *( qdtext / quoted-pair ) DQUOTE`, `quoted-pair = "\\" any`;
    a backslash outside a quoted-string is an ordinary byte; a quoted-string that is not closed extends to the end."""
    states, state = [], Q_OUT
    for x in bytearray(data):
        states.append(state)
        if state == Q_OUT:
            state = Q_IN if x == 0x22 else Q_OUT
        elif state == Q_IN:
            state = Q_PAIR if x == 0x5c else (Q_OUT if x == 0x22 else Q_IN)
        else:
            state = Q_IN
    states.append(state)
    return states


def _insert_ws_q(data, sep, ws, doubled):
    """`_insert_ws` for a quote-aware list: only the separators OUTSIDE quoted-strings are list separators"""
    w = ws[:1]
    states = quote_states(data)
    out = bytearray(w)
    for i, x in enumerate(bytearray(data)):
        if x in bytearray(sep) and states[i] == Q_OUT:
            out += w + bytes(bytearray([x])) * (2 if doubled else 1) + w
        else:
            out.append(x)
    out += w
    return bytes(out)


def quoted_item_ok(item, sep, ws):
    """a list element in the sense of the REQUIRED behaviour: non-empty, trimmed, quotes balanced, and the separator occurs
    only inside its quoted-strings"""
    if not item or item.strip(ws) != item:
        return False
    states = quote_states(item)
    if states[-1] != Q_OUT:
        return False
    return all(states[i] != Q_OUT for i, x in enumerate(bytearray(item)) if x in bytearray(sep))


class ArrayOracle(object):
    """case {'kind':'ta','sep':hex,'ws':hex,'skip':0/1,'max':None|n,'data':hex,'items':[hex,…] (optional),
    'qa':1 (optional: `quote_aware=True`, driver op TAQ)}"""

    @staticmethod
    def lines(case):
        return ['{} {} {} {} {} {}'.format('TAQ' if case.get('qa') else 'TA', case['sep'], case['ws'], case['skip'],
                                           _opt(case['max']), case['data'])]

    @staticmethod
    def impl(case):
        return [array_line(unhx(case['data']), unhx(case['sep']), unhx(case['ws']), case['skip'], case['max'],
                           bool(case.get('qa')))]

    @staticmethod
    def prop(case):
        """C18 on the real code: a spelling variant parses to the same items as the canonical spelling."""
        bad = []
        data, sep, ws = unhx(case['data']), unhx(case['sep']), unhx(case['ws'])
        skip, mx, qa = case['skip'], case['max'], bool(case.get('qa'))
        call = '_parse_string_array' + ('[quote_aware]' if qa else '')
        got = array_line(data, sep, ws, skip, mx, qa)
        if got == 'CRASH Timeout':
            return [('array-hang', '{} does not terminate within {}s on {!r} (sep {!r} ws {!r} skip {})'.format(
                call, TIME_LIMIT, data, sep, ws, skip))]
        if qa and got == NO_QUOTE_AWARE:
            return no_quote_aware('ta', 'parse_string_array(..., quote_aware=True) raises TypeError: the library has no quote-aware '
                                  'splitting, a separator inside a quoted-string splits the list (input {!r} sep {!r}; every quote-aware '
                                  'case fails like this, reported once)'.format(data, sep))
        if got.startswith('CRASH'):
            bad.append(('array-crash', '{}({!r}, sep {!r} ws {!r} skip {} max {}) -> {}'.format(
                call, data, sep, ws, skip, mx, got)))
        if len(sep) != 1 or sep in ws or mx is not None:
            return bad
        if qa and sep in (b'"', b'\\'):
            return bad                  # DQUOTE / backslash as the list separator: correspondence only, no RFC reading
        if case.get('items') is not None:
            # rendered from a list of trimmed, non-empty items that are separator-free (quote-aware: the separator only
            # inside balanced quoted-strings): must give exactly that list, and so must the canonical spellings
            # "a;b" and "a; b"
            want = [unhx(i) for i in case['items']]
            usable = not qa or all(quoted_item_ok(i, sep, ws) for i in want)
            for spelling in (data, sep.join(want), (sep + b' ').join(want) if b' ' in ws else sep.join(want)):
                if (not want and not skip) or not usable:
                    continue
                line = array_line(spelling, sep, ws, skip, None, qa)
                exp = 'OK {} [{}]'.format(len(spelling), ','.join(hx(i) for i in want))
                if line != exp:
                    bad.append(('quoted-separator:split' if qa else 'array-variant',
                                'items {!r} spelled {!r} (sep {!r} ws {!r} skip {}{}) parsed as {} expected {}'.format(
                                    want, spelling, sep, ws, skip, ' quote_aware' if qa else '', line, exp)))
        if ws:
            # metamorphic: whitespace around every separator and at both ends is insignificant; so are doubled separators
            # when skip_empty.  quote-aware: the separators outside quoted-strings (reference tokenizer `quote_states`)
            for doubled in ((False, True) if skip else (False,)):
                variant = _insert_ws_q(data, sep, ws, doubled) if qa else _insert_ws(data, sep, ws, doubled)
                other = array_line(variant, sep, ws, skip, None, qa)
                if got.split(' ', 2)[0] == 'OK' and other.split(' ', 2)[0] == 'OK':
                    same = got.split(' ', 2)[2] == other.split(' ', 2)[2] and other.split(' ')[1] == str(len(variant))
                else:
                    same = got == other
                if not same:
                    bad.append(('array-invariance', '{!r} -> {} but variant {!r} -> {} (sep {!r} ws {!r} skip {}{})'.format(
                        data, got, variant, other, sep, ws, skip, ' quote_aware' if qa else '')))
        return bad


# the parameter combinations of parse_string_array found under /repo/cryptoparser (grep `parse_string_array(`):
#   common/field.py NameValuePairList: (',' | ';', ' \t', skip_empty)      httpx/header.py CSP: (';', ' ', skip_empty)
#   httpx/header.py 669, 965: (' ', '', skip_empty)      common/classes.py LanguageTag: ('-', '', strict)
#   common/base.py ListParsable (vector_param.separator, SSH name lists ','): (',', '', strict)
REPO_COMBOS = [
    (b',', b' \t', 1, None), (b';', b' \t', 1, None), (b';', b' ', 1, None), (b' ', b'', 1, None),
    (b'-', b'', 0, None), (b',', b'', 0, None),
]
EXTRA_COMBOS = [
    (b';', b' ', 0, None), (b';', b' \t', 0, None), (b';', b'', 1, None), (b';', b' ', 1, 1), (b';', b' ', 1, 2),
    (b';', b' ', 0, 1), (b';', b' \t', 0, 2), (b',', b'', 0, 3), (b',;', b' ', 1, None), (b',;', b' ', 0, None),
    (b' ', b' ', 1, None), (b' ', b' \t', 0, None), (b'', b' ', 1, None), (b'', b'', 0, None), (b';', b';', 1, None),
]
ALPHABET = [b'a', b'b', b';', b',', b'=', b'-', b' ', b'\t', b'"', b'\r', b'\n']


def _rand_bytes(rng, n, sep):
    out = bytearray()
    for _ in range(n):
        r = rng.random()
        if r < 0.04:
            out.append(rng.choice([0x80, 0xff, 0xc3, 0xa0]))
        elif r < 0.30 and sep:
            out += bytes(bytearray([rng.choice(bytearray(sep))]))
        elif r < 0.50:
            out += rng.choice([b' ', b'\t', b' '])
        else:
            out += rng.choice(ALPHABET)
    return bytes(out)


def _render(rng, items, sep, ws, skip):
    """Spell a list with random insignificant material."""
    def run():
        if not ws:
            return b''
        return bytes(bytearray(rng.choice(bytearray(ws)) for _ in range(rng.choice([0, 0, 1, 1, 2, 3]))))
    out = run()
    if skip and rng.random() < 0.3:
        out += sep * rng.randrange(1, 3) + run()
    for i, item in enumerate(items):
        out += item + run()
        last = i == len(items) - 1
        if not last or rng.random() < 0.3:
            out += sep + run()
            if skip:
                for _ in range(rng.choice([0, 0, 0, 1, 2])):
                    out += sep + run()
    return out


def array_cases(rng, tier):
    cases = []
    maxlen = 5 if tier == 'quick' else 7
    for sep, ws, skip, mx in REPO_COMBOS + EXTRA_COMBOS:
        letters = sorted(set([b'a', b' ', b'\t'] + [bytes(bytearray([x])) for x in bytearray(sep)]))
        n_ex = maxlen if (sep, ws, skip, mx) in REPO_COMBOS or tier != 'quick' else maxlen - 1
        for n in range(0, n_ex + 1):
            for tup in itertools.product(letters, repeat=n):
                cases.append({'kind': 'ta', 'sep': hx(sep), 'ws': hx(ws), 'skip': skip, 'max': mx, 'data': hx(b''.join(tup))})
        for _ in range(150 if tier == 'quick' else 6000):
            data = _rand_bytes(rng, rng.randrange(0, 16), sep)
            cases.append({'kind': 'ta', 'sep': hx(sep), 'ws': hx(ws), 'skip': skip, 'max': mx, 'data': hx(data)})
        if len(sep) == 1 and sep not in ws and mx is None:
            for _ in range(150 if tier == 'quick' else 6000):
                items = []
                for _ in range(rng.choice([0, 1, 1, 2, 3, 5])):
                    while True:
                        item = bytes(bytearray(rng.choice(b'abz=".0 \t-/') for _ in range(rng.randrange(1, 5))))
                        item = item.replace(sep, b'x')
                        if item.strip(ws) == item and item and (ws or True):
                            break
                    items.append(item)
                data = _render(rng, items, sep, ws, skip)
                if not skip and not items:
                    continue
                cases.append({'kind': 'ta', 'sep': hx(sep), 'ws': hx(ws), 'skip': skip, 'max': mx, 'data': hx(data),
                              'items': [hx(i) for i in items]})
    return cases


# ---- TAQ: `_parse_string_array(..., quote_aware=True)` --------------------------------------------------------------
# under /repo/cryptoparser: common/field.py NameValuePairList (',' | ';', ' \t', skip_empty, quote_aware)
Q_REPO_COMBOS = [(b',', b' \t', 1, None), (b';', b' \t', 1, None)]
Q_MAIN_EXTRA = [(b';', b' \t', 0, None), (b',', b'', 0, None), (b';', b'', 1, None), (b';', b' ', 1, None)]   # strict, no whitespace
Q_EXTRA_COMBOS = Q_MAIN_EXTRA + [
    (b',;', b' ', 1, None), (b',;', b' \t', 0, None),                             # two-byte separator sets
    (b';', b' ', 1, 1), (b';', b' \t', 1, 2), (b',', b'', 0, 2),                    # max_item_num
    (b'"', b' ', 1, None), (b'"', b'', 0, None), (b'";', b' ', 1, None),            # the separator is DQUOTE
    (b'\\', b' ', 1, None), (b'\\', b'', 0, None), (b'\\;', b' \t', 1, None),       # the separator is the backslash
    (b' ', b'', 1, None), (b'', b' ', 1, None),                                    # SP separated, no separator at all
]
# malformed / borderline lists, written for ';' (replaced by the separator of the combination)
Q_MALFORMED = [
    b'"a; b', b'a"; b', b'a; b"', b'"a; b" c"; d', b'"a\\', b'a\\', b'a;\\', b'a; \\', b'"a\\"; b', b'"a\\\\"; b', b'"a\\\\\\"; b',
    b'\\"; a', b'\\";a"', b'\\"; a"; b', b'a\\"b; c', b'a\\"b; c"; d', b'"a "b; c" d"; e', b'"a; "b; c" ;d"', b'""; a', b'"""; a',
    b'""""; a', b'"a"b"c; d', b'x="a; y="b"; z', b'"; "; ";', b'";";";"', b'\\\\"; a', b'\\\\"; a"', b'"\\', b'"\\"', b'"\\""',
    b'"\\"";a', b'a=";', b'a=";"', b'a=";";', b'";', b';"', b'";"', b' " ; " ', b'"a;b"\\;c', b'"a;b\\";c', b'"a;b\\\\";c',
    b'"\xff;"; a', b'"a; b"\xff; c', b'"a; b" ; c', b'"a; b"  ', b'  "a; b', b'"a; b \t', b'a;"', b'a; " ', b'a;"\\', b'a; "b\\ ',
    b'"a"; "b; c"; "d\\"; e"; f', b'x="a\\"; y; \\\\"; z', b"'a; b'", b'"a\r\n; b"; c', b'"\\;"; a', b'\\;"a; b"', b'"a;b', b'"',
    b'""', b'\\', b'"\\\\', b';";', b';";"', b'; ";" ;',
]


def _rand_bytes_q(rng, n, sep):
    """dense in DQUOTE, backslash, separators, whitespace; an occasional non-ASCII byte"""
    out = bytearray()
    for _ in range(n):
        r = rng.random()
        if r < 0.22:
            out.append(0x22)
        elif r < 0.36:
            out.append(0x5c)
        elif r < 0.56 and sep:
            out.append(rng.choice(bytearray(sep)))
        elif r < 0.70:
            out += rng.choice([b' ', b'\t', b' '])
        elif r < 0.75:
            out.append(rng.choice([0x80, 0xff, 0xc3, 0xa0]))
        else:
            out += rng.choice(ALPHABET)
    return bytes(out)


def _quoted_string(rng, sep):
    """a well-formed quoted-string whose text contains separators, escaped quotes and escaped backslashes"""
    atoms = [b'a', b'b', b'z', b' ', b'=', b'\t', b',', b';', b'\\"', b'\\\\', b'\\a', b'\\;', b"'"]
    if sep:
        atoms += [sep[:1], sep[-1:], sep[:1] + b' ', b'\\' + sep[:1], b'\\"' + sep[:1], b'\\\\' + sep[-1:]]
    return b'"' + b''.join(rng.choice(atoms) for _ in range(rng.randrange(0, 6))) + b'"'


def _token(rng, sep):
    return bytes(bytearray(x for x in bytearray(rng.choice(b'abz=.0-/') for _ in range(rng.randrange(1, 4)))
                           if x not in bytearray(sep)))


def _quoted_item(rng, sep, ws):
    """token, quoted-string, name="…", "…"suffix, several of them with inner whitespace, a backslash outside quotes
    (an ordinary byte there, also directly in front of a DQUOTE); accepted only if `quoted_item_ok`"""
    while True:
        r = rng.random()
        if r < 0.18:
            item = _token(rng, sep)
        elif r < 0.40:
            item = _quoted_string(rng, sep)
        elif r < 0.70:
            item = _token(rng, sep) + b'=' + _quoted_string(rng, sep)
        elif r < 0.80:
            item = _token(rng, sep) + _quoted_string(rng, sep) + _token(rng, sep)
        elif r < 0.90:
            item = _token(rng, sep) + rng.choice([b' ', b'\t', b'  ']) + _quoted_string(rng, sep) + _quoted_string(rng, sep)
        else:
            item = _token(rng, sep) + b'\\' + rng.choice([b'', _token(rng, sep), _quoted_string(rng, sep)])
        if quoted_item_ok(item, sep, ws):
            return item


def _mutate(rng, data):
    """one-byte damage: drop a byte, insert a DQUOTE or a backslash, cut the tail"""
    pos = rng.randrange(len(data) + 1)
    r = rng.random()
    if r < 0.3 and data:
        pos = min(pos, len(data) - 1)
        return data[:pos] + data[pos + 1:]
    if r < 0.6:
        return data[:pos] + b'"' + data[pos:]
    if r < 0.85:
        return data[:pos] + b'\\' + data[pos:]
    return data[:pos]


def array_cases_q(rng, tier):
    """`quote_aware=True`: op TAQ"""
    cases = []
    quick = tier == 'quick'
    for combo in Q_REPO_COMBOS + Q_EXTRA_COMBOS:
        sep, ws, skip, mx = combo

        def case(data, items=None):
            c = {'kind': 'ta', 'qa': 1, 'sep': hx(sep), 'ws': hx(ws), 'skip': skip, 'max': mx, 'data': hx(data)}
            if items is not None:
                c['items'] = [hx(i) for i in items]
            cases.append(c)
        # (a) exhaustive
        letters = sorted(set([b'a', b' ', b'"', b'\\'] + [bytes(bytearray([x])) for x in bytearray(sep)]))
        if combo in Q_REPO_COMBOS:
            n_ex = 6 if quick else 7
        elif combo in Q_MAIN_EXTRA:
            n_ex = 5 if quick else 6
        else:
            n_ex = 4 if quick else 5
        for n in range(0, n_ex + 1):
            for tup in itertools.product(letters, repeat=n):
                case(b''.join(tup))
        # (b) seeded strings
        for _ in range(150 if quick else 4000):
            case(_rand_bytes_q(rng, rng.randrange(0, 20), sep))
        # (c) well-formed lists (REQUIRED behaviour where the combination has one separator that is neither whitespace nor
        # DQUOTE / backslash; otherwise correspondence only, rendered with the first separator)
        required = len(sep) == 1 and sep not in ws and mx is None and sep not in (b'"', b'\\')
        rsep = sep[:1] if sep else b';'
        isep = rsep if rsep not in (b'"', b'\\', b' ') else b';'
        valid = []
        for _ in range(200 if quick else 4000):
            items = [_quoted_item(rng, isep, ws) for _ in range(rng.choice([0, 1, 1, 2, 3, 5]))]
            data = _render(rng, items, rsep, ws, skip)
            valid.append(data)
            if not skip and not items:
                continue
            case(data, items if required else None)
        # (d) malformed lists
        for text in Q_MALFORMED:
            text = text.replace(b';', rsep)
            case(text)
            if ws:
                case(ws[-1:] + text + ws[:1])
        for _ in range(100 if quick else 2000):
            case(_mutate(rng, rng.choice(valid)))
    return cases


# ------------------------------------------------------------------------------------------------
# TU  _parse_string_until_separator
# ------------------------------------------------------------------------------------------------

class UntilOracle(object):
    """case {'kind':'tu','seps':[hex,…],'may_end':0/1,'ws':hex,'off':n,'data':hex,'qa':1 (optional: `quote_aware=True`, op TUQ)}"""

    @staticmethod
    def lines(case):
        seps = ','.join(case['seps']) if case['seps'] else '~'
        return ['{} {} {} {} {} {}'.format('TUQ' if case.get('qa') else 'TU', seps, case['may_end'], case['ws'], case['off'],
                                           case['data'])]

    @staticmethod
    def real(case):
        from cryptoparser.common.parse import ParserText
        data = unhx(case['data'])
        seps = [_text(unhx(s)) for s in case['seps']]

        extra = (True,) if case.get('qa') else ()       # quote_aware, the eighth positional parameter

        def fn():
            p = ParserText(data)
            return p._parse_string_until_separator(  # pylint: disable=protected-access
                'x', case['off'], seps, str, None, bool(case['may_end']), _text(unhx(case['ws'])), *extra)
        return timed(fn, TU_TIME_LIMIT, counted=False)

    @classmethod
    def impl(cls, case):
        try:
            item, n = cls.real(case)
        except Timeout:
            return ['CRASH OutOfContract']
        except Exception as e:  # pylint: disable=broad-except
            return [core.err_line(e)]
        if n < 0:
            return ['CRASH OutOfContract']
        return ['OK {} {}'.format(n, hx(item.encode('latin-1')))]

    @classmethod
    def prop(cls, case):
        """Through the public entry points (no separator_spaces, offset inside the buffer) the scan stays in contract:
        the item is the bytes before the first separator and the length is its length."""
        if unhx(case['ws']) or case['off'] > len(unhx(case['data'])):
            return []
        line = cls.impl(case)[0]
        if case.get('qa'):
            if line == NO_QUOTE_AWARE:
                return no_quote_aware('tu', '_parse_string_until_separator(..., quote_aware=True) raises TypeError: the library has no '
                                      'quote-aware scan ({}; every quote-aware case fails like this, reported once)'.format(case))
            want = cls.reference_q(case)
            if line != want:
                return [('quoted-separator:until', '_parse_string_until_separator[quote_aware] {} -> {} but the first separator '
                         'outside a quoted-string (RFC 7230 3.2.6 reference) gives {}'.format(case, line, want))]
        if line.startswith('CRASH'):
            return [('until-crash', '_parse_string_until_separator {} -> {}'.format(case, line))]
        if line.startswith('OK'):
            n = int(line.split(' ')[1])
            data = unhx(case['data'])
            rest = data[case['off'] + n:]
            if rest and not any(rest.startswith(unhx(s)) for s in case['seps']):
                return [('until-sep', '{}: {} but no separator follows the item'.format(case, line))]
            if not rest and not case['may_end'] and b'' not in [unhx(s) for s in case['seps']]:
                return [('until-end', '{}: {} accepted the end of input without may_end'.format(case, line))]
        return []


    @staticmethod
    def reference_q(case):
        """quote-aware scan without separator_spaces, offset inside the buffer: the item ends in front of the first separator
        that ends at a position outside every quoted-string of the item (first position, then first separator of the list)"""
        data, off = unhx(case['data']), case['off']
        seps = [unhx(s) for s in case['seps']]
        states = quote_states(data[off:])
        end = None
        for e in range(off, len(data) + 1):
            if states[e - off] != Q_OUT:
                continue
            hit = [s for s in seps if len(s) <= e - off and data[e - len(s):e] == s]
            if hit:
                end = e - len(hit[0])
                break
        if end is None:
            if not case['may_end']:
                return 'ERR InvalidValue'
            end = len(data)
        item = data[off:end]
        if any(x > 0x7f for x in bytearray(item)):
            return 'ERR InvalidValue'
        return 'OK {} {}'.format(len(item), hx(item))


# separator lists of parse_string_until_separator[_or_end] under /repo/cryptoparser (a str is iterated per character)
REPO_SEPS = [[b'\n'], [b' '], [b' ', b'/'], [b'"'], [b'/'], [b':'], [b'='], [b';', b' '], [b'\r\n'], [b'\r', b'\n'], [b'-'], [b'_']]
EXTRA_SEPS = [[b';', b';='], [b';=', b'='], [b'ab', b'b'], [b'b', b'ab'], [b''], [], [b'a', b''], [b'=;', b';']]


def until_cases(rng, tier):
    cases = []
    n = 60 if tier == 'quick' else 2500
    for seps in REPO_SEPS + EXTRA_SEPS:
        pool = b''.join(seps) or b';'
        for ws in (b'', b'', b' ', b' \t'):
            for _ in range(n):
                data = _rand_bytes(rng, rng.randrange(0, 12), pool)
                off = rng.randrange(0, len(data) + 1) if rng.random() < 0.93 else len(data) + rng.randrange(1, 3)
                cases.append({'kind': 'tu', 'seps': [hx(s) for s in seps], 'may_end': rng.randrange(2), 'ws': hx(ws),
                              'off': off, 'data': hx(data)})
    # the out-of-contract scans: an item of whitespace only, with whitespace (or nothing) in front of it
    for data, off in ((b' ', 0), (b'  ', 0), (b'   ;', 0), (b'a  ;', 2), (b'a  ;', 1), (b' \t ', 1), (b'x ', 1), (b'  x', 0),
                      (b';  ', 1), (b'  ;  ', 3)):
        for may_end in (0, 1):
            cases.append({'kind': 'tu', 'seps': [hx(b';')], 'may_end': may_end, 'ws': hx(b' \t'), 'off': off, 'data': hx(data)})
    return cases


Q_SEPS = [[b','], [b';', b','], [b'\\'], [b'";'], [b'\\"'], [b'"', b';'], [b'";', b';'], [b'; ', b';'], [b'"\\']]


def until_cases_q(rng, tier):
    """`quote_aware=True`: op TUQ"""
    cases = []
    quick = tier == 'quick'

    def case(seps, may_end, ws, off, data):
        cases.append({'kind': 'tu', 'qa': 1, 'seps': [hx(s) for s in seps], 'may_end': may_end, 'ws': hx(ws), 'off': off,
                      'data': hx(data)})
    for seps in REPO_SEPS + EXTRA_SEPS + Q_SEPS:
        pool = b''.join(seps) or b';'
        for ws in (b'', b' ', b' \t'):
            for _ in range(40 if quick else 1500):
                data = _rand_bytes_q(rng, rng.randrange(0, 14), pool)
                r = rng.random()
                off = len(data) if r < 0.12 else (len(data) + rng.randrange(1, 3) if r < 0.19 else rng.randrange(0, len(data) + 1))
                case(seps, rng.randrange(2), ws, off, data)
    # every short string at every offset (also one behind the end)
    letters = [b'a', b'"', b'\\', b';', b' ']
    for n in range(0, (3 if quick else 4) + 1):
        for tup in itertools.product(letters, repeat=n):
            data = b''.join(tup)
            for off in range(0, n + 2):
                for may_end in (0, 1):
                    for ws in (b'', b' ', b' \t'):
                        case([b';'], may_end, ws, off, data)
    # well-formed and damaged name="quoted" elements, the separator lists of a list scan
    for text in Q_MALFORMED + [b'a="b; c"; d', b'a="b\\"; c"; d', b'a="b\\\\"; c; d', b'"a; b"="c; d"; e']:
        for seps in ([b';'], [b';', b' '], [b'"'], [b'=']):
            for may_end in (0, 1):
                for off in sorted({0, 1, len(text) // 2, len(text)}):
                    case(seps, may_end, rng.choice([b'', b'', b' ', b' \t']), off, text)
    return cases


# ------------------------------------------------------------------------------------------------
# TC  _check_separators, TN parse_numeric, TS parse_string
# ------------------------------------------------------------------------------------------------

class CheckOracle(object):
    """case {'kind':'tc','seps':hex,'min':None|n,'max':None|n,'off':n,'data':hex}"""

    @staticmethod
    def lines(case):
        return ['TC {} {} {} {} {}'.format(case['seps'], _opt(case['min']), _opt(case['max']), case['off'], case['data'])]

    @staticmethod
    def impl(case):
        from cryptoparser.common.parse import ParserText

        def fn():
            p = ParserText(unhx(case['data']))
            return p._check_separators('x', case['off'], _text(unhx(case['seps'])), case['min'], case['max'])  # pylint: disable=protected-access
        return [core.outcome(lambda: timed(fn, TIME_LIMIT), lambda n: 'OK {}'.format(n))]

    @classmethod
    def prop(cls, case):
        """counts exactly the run of member bytes"""
        data, seps = unhx(case['data']), unhx(case['seps'])
        run = 0
        while case['off'] + run < len(data) and data[case['off'] + run] in bytearray(seps):
            run += 1
        ok = (case['max'] is None or run <= case['max']) and (case['min'] is None or run >= case['min'])
        want = 'OK {}'.format(run) if ok else 'ERR InvalidValue'
        got = cls.impl(case)[0]
        if got != want:
            return [('check-separators', '{} -> {} expected {}'.format(case, got, want))]
        return []


class NumericOracle(object):
    """case {'kind':'tn','data':hex}"""

    @staticmethod
    def lines(case):
        return ['TN {}'.format(case['data'])]

    @staticmethod
    def impl(case):
        from cryptoparser.common.parse import ParserText

        def fn():
            p = ParserText(unhx(case['data']))
            p.parse_numeric('x')
            return p.parsed_length, p['x']
        return [core.outcome(lambda: timed(fn, TIME_LIMIT), lambda r: 'OK {} {}'.format(r[0], r[1]))]

    @staticmethod
    def prop(case):
        return []


class StringOracle(object):
    """case {'kind':'ts','value':hex,'off':n,'data':hex}"""

    @staticmethod
    def lines(case):
        return ['TS {} {} {}'.format(case['value'], case['off'], case['data'])]

    @staticmethod
    def impl(case):
        from cryptoparser.common.parse import ParserText

        def fn():
            p = ParserText(unhx(case['data']))
            p._parsed_length = case['off']  # pylint: disable=protected-access
            p.parse_string('x', _text(unhx(case['value'])))
            return p.parsed_length - case['off']
        return [core.outcome(lambda: timed(fn, TIME_LIMIT), lambda n: 'OK {}'.format(n))]

    @classmethod
    def prop(cls, case):
        data, value, off = unhx(case['data']), unhx(case['value']), case['off']
        want = 'OK {}'.format(len(value)) if data[off:off + len(value)] == value and off + len(value) <= len(data) \
            else 'ERR InvalidValue'
        got = cls.impl(case)[0]
        if got != want:
            return [('parse-string', '{} -> {} expected {}'.format(case, got, want))]
        return []


class ByLengthOracle(object):
    """case {'kind':'tl','min':n,'max':None|n,'off':n,'data':hex}"""

    @staticmethod
    def lines(case):
        return ['TL {} {} {} {}'.format(case['min'], _opt(case['max']), case['off'], case['data'])]

    @staticmethod
    def impl(case):
        from cryptoparser.common.parse import ParserText

        def fn():
            p = ParserText(unhx(case['data']))
            p._parsed_length = case['off']  # pylint: disable=protected-access
            return p._parse_string_by_length('x', case['min'], case['max'], 'ascii', str)  # pylint: disable=protected-access
        return [core.outcome(lambda: timed(fn, TIME_LIMIT), lambda r: 'OK {} {}'.format(r[1], hx(r[0].encode('latin-1'))))]

    @staticmethod
    def prop(case):
        return []


def small_cases(rng, tier):
    cases = []
    n = 400 if tier == 'quick' else 20000
    for _ in range(n):
        seps = rng.choice([b' ', b' \t', b';', b',;', b'', b'=', b'"'])
        data = _rand_bytes(rng, rng.randrange(0, 10), seps or b';')
        cases.append({'kind': 'tc', 'seps': hx(seps), 'min': rng.choice([None, 0, 1, 2]), 'max': rng.choice([None, 0, 1, 2, 3]),
                      'off': rng.randrange(0, len(data) + 2), 'data': hx(data)})
    for data in [b'', b'0', b'7', b'007', b'12a', b'a12', b' 1', b'1 ', b'1.5', b'-1', b'+1', b'\xb2', b'1\xb2', b'\xff',
                 b'123456789012345678901234567890', b'1' * 4300, b'1' * 4301, b'0' * 4301 + b'x', b'9' * 4299 + b';']:
        cases.append({'kind': 'tn', 'data': hx(data)})
    for _ in range(n // 4):
        digits = bytes(bytearray(rng.choice(b'0123456789') for _ in range(rng.randrange(0, 25))))
        cases.append({'kind': 'tn', 'data': hx(digits + _rand_bytes(rng, rng.randrange(0, 3), b';'))})
    for _ in range(n // 2):
        data = _rand_bytes(rng, rng.randrange(0, 9), b';')
        cases.append({'kind': 'tl', 'min': rng.randrange(0, 6), 'max': rng.choice([None, 0, 1, 2, 3, 8, 20]),
                      'off': rng.randrange(0, len(data) + 1), 'data': hx(data)})
    for _ in range(n // 2):
        value = rng.choice([b'', b'a', b'ab', b'v=spf1', b'; ', b'yes', b'no'])
        data = _rand_bytes(rng, rng.randrange(0, 4), b';') + (value if rng.random() < 0.6 else value[:-1]) + \
            _rand_bytes(rng, rng.randrange(0, 3), b';')
        if rng.random() < 0.1:
            data = data.replace(b'a', b'\xe1')
        cases.append({'kind': 'ts', 'value': hx(value), 'off': rng.randrange(0, len(data) + 1), 'data': hx(data)})
    return cases


# ------------------------------------------------------------------------------------------------
# TK  cost model: ticks of the model against line events of the real call
# ------------------------------------------------------------------------------------------------

TICK_ALPHA, TICK_BETA = 6, 16      # 2*ticks - BETA <= line events <= ALPHA*ticks + BETA   (measured: 2.5 .. 5.6 events per tick)
SHAPES = {
    'one-item': lambda n: b'a' * n, 'separators': lambda n: b';' * n, 'sep-space': lambda n: b'; ' * (n // 2),
    'items': lambda n: b'a ; ' * (n // 4), 'spaces': lambda n: b' ' * n, 'long-items': lambda n: (b'abcdefghij' * 3 + b'; ') * (n // 32),
    'trailing-space': lambda n: b'a' + b' ' * (n - 2) + b';', 'name-values': lambda n: b'max-age=31536000; includeSubDomains ;' * (n // 37),
}


# the same shapes plus quoted material for the quote-aware call (op TKQ, `arrayTicksQ`, proved <= 21*len + 15)
Q_SHAPES = dict(SHAPES)
Q_SHAPES.update({
    'quoted-items': lambda n: b'a="b; c"; ' * (n // 10), 'one-quoted': lambda n: b'"' + b'a;' * ((n - 2) // 2) + b'"',
    'unclosed': lambda n: b'"' + b'; ' * ((n - 1) // 2), 'escapes': lambda n: b'"' + b'\\"\\\\;' * ((n - 2) // 5) + b'"',
    'quotes': lambda n: b'"' * n, 'backslashes': lambda n: b'"' + b'\\' * (n - 1), 'empty-quoted': lambda n: b'"";' * (n // 3),
    'quoted-name-values': lambda n: b'max-age="31536000"; report-uri="https://a.example/r;a=1,2" ; x=";" ;' * (n // 68),
})


def line_events(data, sep, ws, skip, qa=False):
    """Number of 'line' trace events inside cryptoparser/common/parse.py during the real call."""
    import sys
    import cryptoparser.common.parse as parse_module
    from cryptoparser.common.parse import ParserText
    filename = parse_module.__file__
    count = [0]

    def local(frame, event, arg):
        if event == 'line':
            count[0] += 1
        return local

    def tracer(frame, event, arg):
        return local if frame.f_code.co_filename == filename else None
    parser = ParserText(data)
    extra = {'quote_aware': True} if qa else {}
    old = sys.gettrace()
    sys.settrace(tracer)
    try:
        try:
            parser.parse_string_array('x', _text(sep), separator_spaces=_text(ws), skip_empty=bool(skip), **extra)
        except Exception:  # pylint: disable=broad-except
            pass
    finally:
        sys.settrace(old)
    return count[0]


def tick_cases(tier):
    sizes = (64, 128, 256) if tier == 'quick' else (64, 128, 256, 512, 1024, 2048)
    cases = []
    for name in sorted(SHAPES):
        for n in sizes:
            for skip in (0, 1):
                for sep, ws in ((b';', b' '), (b',', b' \t'), (b';', b'')):
                    data = SHAPES[name](n).replace(b';', sep)
                    cases.append({'kind': 'tk', 'shape': name, 'n': n, 'sep': hx(sep), 'ws': hx(ws), 'skip': skip, 'data': hx(data)})
    for name in sorted(Q_SHAPES):
        for n in sizes:
            for skip in (0, 1):
                for sep, ws in ((b';', b' '), (b',', b' \t'), (b';', b'')):
                    data = Q_SHAPES[name](n).replace(b';', sep)
                    cases.append({'kind': 'tk', 'qa': 1, 'shape': name, 'n': n, 'sep': hx(sep), 'ws': hx(ws), 'skip': skip, 'data': hx(data)})
    return cases


def _driver_has_tkq():
    try:
        return core.run_driver(['TKQ 3b 20 1 613b2062']) != ['BAD-OP']
    except RuntimeError:
        return False


def run_ticks(run, tier, driver_ok):
    """Validates the cost model behind C18.array_ticks_linear: it is neither blind to work the real code does nor
    counting work it does not do.  (The quadratic byte copying inside `endswith` is invisible to both counts.)"""
    cases = tick_cases(tier)
    if not driver_ok:
        return
    if not _driver_has_tkq():
        run.notes.append('the driver has no TKQ op: the cost model of the quote-aware call is not compared with the code')
        cases = [c for c in cases if not c.get('qa')]
    out = core.run_driver(['{} {} {} {} {}'.format('TKQ' if c.get('qa') else 'TK', c['sep'], c['ws'], c['skip'], c['data']) for c in cases])
    ratios = {False: [], True: []}
    for case, line in zip(cases, out):
        qa = bool(case.get('qa'))
        run.evaluations += 1
        run.count('ops', 'tkq' if qa else 'tk')
        run.note_nontrivial(('tkq' if qa else 'tk', case['shape'], case['n'], case['sep'], case['ws'], case['skip']))
        ticks = int(line.split(' ')[1]) if line.startswith('OK ') else -1
        events = line_events(unhx(case['data']), unhx(case['sep']), unhx(case['ws']), case['skip'], qa)
        length = len(unhx(case['data']))
        bound = 21 * length + 15 if qa else 19 * length + 13       # C18.array_ticks_linear / its quote-aware twin
        ok = ticks >= 0 and 2 * ticks - TICK_BETA <= events <= TICK_ALPHA * ticks + TICK_BETA and ticks <= bound
        if ticks > 0:
            ratios[qa].append(events / float(ticks))
        if not ok:
            run.disagreements.append((dict(case, data=case['data'][:64] + '...'), 0,
                                      'ticks {} (bound {})'.format(ticks, bound), 'line events {}'.format(events)))
    run.notes.append('cost model: {} shapes x sizes ({} of them quote-aware, op TKQ), line events of the real call within '
                     '[2*ticks-{b}, {a}*ticks+{b}]; observed line events per tick: {}'.format(
                         len(cases), sum(1 for c in cases if c.get('qa')), '; '.join(
                             '{} {:.2f}..{:.2f}'.format('TKQ' if qa else 'TK', min(r), max(r)) for qa, r in sorted(ratios.items()) if r),
                         a=TICK_ALPHA, b=TICK_BETA))


ORACLES = {'ta': ArrayOracle, 'tu': UntilOracle, 'tc': CheckOracle, 'tn': NumericOracle, 'ts': StringOracle,
           'tl': ByLengthOracle}


class Dispatch(object):
    @staticmethod
    def lines(case):
        return ORACLES[case['kind']].lines(case)

    @staticmethod
    def impl(case):
        return ORACLES[case['kind']].impl(case)

    @staticmethod
    def prop(case):
        return ORACLES[case['kind']].prop(case)


def gen_cases(rng, tier):
    # the quote-aware cases come last: the cases of the other ops are the ones they were for a given seed
    return array_cases(rng, tier) + until_cases(rng, tier) + small_cases(rng, tier) + array_cases_q(rng, tier) + \
        until_cases_q(rng, tier)


def run(run, driver_ok=True, deep=False):
    tier = 'thorough' if deep else run.tier
    cases = gen_cases(run.rng, tier)
    marks = bytearray(b' \t;,-=/"\r\n')
    for c in cases:
        run.count('ops', c['kind'] + ('q' if c.get('qa') else ''))
        if c['kind'] == 'ta':
            run.count('array_params', '{}{}|{}|{}|{}'.format('quote_aware ' if c.get('qa') else '', c['sep'], c['ws'], c['skip'], c['max']))
            if c.get('qa') and c.get('items'):
                run.count('quote_aware', 'required-lists')
        data = unhx(c['data'])
        if any(x in marks for x in bytearray(data)):
            token = (c['kind'], c.get('sep'), c.get('ws'), c.get('skip'), c.get('max'), tuple(c.get('seps', ())), c.get('off'), c['data'])
            run.note_nontrivial(token + ('qa',) if c.get('qa') else token)
    for qa in (None, 1):
        for c in cases:
            if c['kind'] == 'ta' and c.get('items') and c.get('qa') == qa and (not qa or b'"' in unhx(c['data'])):
                run.sample(c)
                break
    for c in cases:
        if c['kind'] == 'tu' and c.get('qa') and b'"' in unhx(c['data']) and len(c['data']) > 12:
            run.sample(c)
            break
    for kind in ('tu', 'tc', 'tn', 'ts', 'tl'):
        for c in cases:
            if c['kind'] == kind and len(c['data']) > 6:
                run.sample(c)
                break
    run.notes.append('exhaustive part: all strings up to length {} over the letter, the separator(s), SP and HTAB for each '
                     'parameter combination used in /repo'.format(5 if tier == 'quick' else 7))
    run.notes.append('quote_aware=True (ops TAQ/TUQ): all strings up to length {} over a, DQUOTE, backslash, the separator and SP for the '
                     'NameValuePairList combinations; REQUIRED since the repair `quote_aware`: a separator inside a quoted-string does '
                     'not split (finding key quoted-separator:split; a library without the parameter violates it)'.format(
                         6 if tier == 'quick' else 7))
    if driver_ok:
        core.correspond(run, Dispatch, cases)
    else:
        for case in cases:
            run.evaluations += 1
            for key, message in Dispatch.prop(case):
                run.finding(key, message, case)
    run_ticks(run, tier, driver_ok)


def search(run, proof):
    if run.tier != 'thorough':
        sub = core.Run(run.prop, 'thorough', run.seed + 1)
        sub.kf = run.kf
        globals()['run'](sub, driver_ok=False, deep=True)
        run.violations.extend(sub.violations)
        run.evaluations += sub.evaluations
        run.notes.append('failing-input search: thorough-tier implementation oracle, {} cases'.format(sub.evaluations))


def replay(case):
    return Dispatch.prop(case)
