# -*- coding: utf-8 -*-
"""C18 (scanner layer) — the text scanner `ParserText` behind every HTTP header field and DNS TXT policy parser:
optional whitespace around separators and empty list elements never change what `_parse_string_array` returns.

Correspondence: the model `CpModel/Text/Scan.lean` against the REAL `ParserText` methods, op by op
(TA `_parse_string_array`, TU `_parse_string_until_separator`, TC `_check_separators`, TN `parse_numeric`,
TS `parse_string`, TL `_parse_string_by_length`, TK cost model).  Implementation-side oracle: spelling variants parse like the canonical spelling."""
from __future__ import print_function

import itertools
import signal

from harness import core
from harness.core import hx, unhx

LEAN_MODULES = ['CpProps.C18a']
RULE = ('_parse_string_array: every (separator, separator_spaces, skip_empty, max_item_num) combination used under '
        '/repo/cryptoparser plus synthetic ones (multi-byte separator sets, separator inside separator_spaces, empty '
        'separator, max_item_num 1..3) on (a) every string of length <= 5 (quick) / <= 7 (thorough) over {a, separator, SP, HTAB}, '
        '(b) seeded strings over a b ; , = - SP HTAB " CR LF and an occasional non-ASCII byte, (c) lists of trimmed non-empty '
        'items rendered with random whitespace runs around separators and at both ends, empty elements and a trailing '
        'separator; _parse_string_until_separator: every separator list used under /repo plus tie/ordering/empty cases, '
        'may_end on/off, offsets 0..len+1, with and without separator_spaces; _check_separators: sets x min x max x offsets; '
        'parse_numeric: digit runs incl. 4300/4301 digits; parse_string; cost model: ticks of the model against line events of the '
        'real call on 8 scalable shapes at sizes 64..256 (thorough: ..2048). A case is non-trivial when the input contains a '
        'separator or a whitespace byte; distinct by (op, parameters, input).')
ASSUMPTIONS = [
    'only item_class=str / fallback_class=None is driven through the scanner ops; item classes are the header layer (C18 proper)',
    'separator and separator_spaces parameters are ASCII (they are literals in /repo)',
    'CPython int() refuses more than 4300 digits (sys.int_info.default_max_str_digits)',
]
TIME_LIMIT = 2.0        # seconds for one real call (inputs are a few bytes) before it is reported as non-terminating
TU_TIME_LIMIT = 0.25    # _parse_string_until_separator called out of contract may loop forever by design of the code
MAX_TIMEOUTS = 12       # after that many non-terminating calls the remaining real calls are not waited for
_timeouts = [0]


class Timeout(Exception):
    pass


def timed(fn, limit, counted=True):
    """Run fn() under a wall-clock limit; raises Timeout if the real code does not come back.  Once MAX_TIMEOUTS
    calls have hung (the check is failing anyway) the limit drops to 20 ms so that the run still ends."""
    def handler(signum, frame):
        raise Timeout()
    if counted and _timeouts[0] >= MAX_TIMEOUTS:
        limit = 0.02
    old = signal.signal(signal.SIGALRM, handler)
    signal.setitimer(signal.ITIMER_REAL, limit)
    try:
        return fn()
    except Timeout:
        if counted:
            _timeouts[0] += 1
        raise
    finally:
        signal.setitimer(signal.ITIMER_REAL, 0)
        signal.signal(signal.SIGALRM, old)


def _text(b):
    return bytes(b).decode('latin-1')


def _opt(v):
    return '-' if v is None else str(v)


def _items_line(items, off):
    return 'OK {} [{}]'.format(off, ','.join(hx(i.encode('latin-1')) for i in items))


# ------------------------------------------------------------------------------------------------
# TA  _parse_string_array
# ------------------------------------------------------------------------------------------------

def real_array(data, sep, ws, skip, mx):
    from cryptoparser.common.parse import ParserText

    def fn():
        p = ParserText(data)
        p.parse_string_array('x', _text(sep), separator_spaces=_text(ws), skip_empty=bool(skip), max_item_num=mx)
        return p['x'], p.parsed_length
    return timed(fn, TIME_LIMIT)


def array_line(data, sep, ws, skip, mx):
    try:
        items, off = real_array(data, sep, ws, skip, mx)
    except Timeout:
        return 'CRASH Timeout'
    except Exception as e:  # pylint: disable=broad-except
        return core.err_line(e)
    return _items_line(items, off)


def _insert_ws(data, sep, ws, doubled):
    """A spelling variant: one whitespace byte before and after every separator and at both ends; with
    `doubled` every separator is written twice (an empty element)."""
    w = ws[:1]
    out = bytearray(w)
    for x in bytearray(data):
        if x in bytearray(sep):
            out += w + bytes(bytearray([x])) * (2 if doubled else 1) + w
        else:
            out.append(x)
    out += w
    return bytes(out)


class ArrayOracle(object):
    """case {'kind':'ta','sep':hex,'ws':hex,'skip':0/1,'max':None|n,'data':hex,'items':[hex,…] (optional)}"""

    @staticmethod
    def lines(case):
        return ['TA {} {} {} {} {}'.format(case['sep'], case['ws'], case['skip'], _opt(case['max']), case['data'])]

    @staticmethod
    def impl(case):
        return [array_line(unhx(case['data']), unhx(case['sep']), unhx(case['ws']), case['skip'], case['max'])]

    @staticmethod
    def prop(case):
        """C18 on the real code: a spelling variant parses to the same items as the canonical spelling."""
        bad = []
        data, sep, ws = unhx(case['data']), unhx(case['sep']), unhx(case['ws'])
        skip, mx = case['skip'], case['max']
        got = array_line(data, sep, ws, skip, mx)
        if got == 'CRASH Timeout':
            return [('array-hang', '_parse_string_array does not terminate within {}s on {!r} (sep {!r} ws {!r} skip {})'.format(
                TIME_LIMIT, data, sep, ws, skip))]
        if got.startswith('CRASH'):
            bad.append(('array-crash', '_parse_string_array({!r}, sep {!r} ws {!r} skip {} max {}) -> {}'.format(
                data, sep, ws, skip, mx, got)))
        if len(sep) != 1 or sep in ws or mx is not None:
            return bad
        if case.get('items') is not None:
            # rendered from a list of trimmed, non-empty, separator-free items: must give exactly that list,
            # and so must the canonical spellings "a;b" and "a; b"
            want = [unhx(i) for i in case['items']]
            for spelling in (data, sep.join(want), (sep + b' ').join(want) if b' ' in ws else sep.join(want)):
                if not want and not skip:
                    continue
                line = array_line(spelling, sep, ws, skip, None)
                exp = 'OK {} [{}]'.format(len(spelling), ','.join(hx(i) for i in want))
                if line != exp:
                    bad.append(('array-variant', 'items {!r} spelled {!r} (sep {!r} ws {!r} skip {}) parsed as {} expected {}'.format(
                        want, spelling, sep, ws, skip, line, exp)))
        if ws:
            # metamorphic: whitespace around every separator and at both ends is insignificant; so are doubled separators
            # when skip_empty
            for doubled in ((False, True) if skip else (False,)):
                variant = _insert_ws(data, sep, ws, doubled)
                other = array_line(variant, sep, ws, skip, None)
                if got.split(' ', 2)[0] == 'OK' and other.split(' ', 2)[0] == 'OK':
                    same = got.split(' ', 2)[2] == other.split(' ', 2)[2] and other.split(' ')[1] == str(len(variant))
                else:
                    same = got == other
                if not same:
                    bad.append(('array-invariance', '{!r} -> {} but variant {!r} -> {} (sep {!r} ws {!r} skip {})'.format(
                        data, got, variant, other, sep, ws, skip)))
        return bad


# the parameter combinations of parse_string_array found under /repo/cryptoparser (grep `parse_string_array(`):
#   common/field.py NameValuePairList: (',' | ';', ' \t', skip_empty)      httpx/header.py CSP: (';', ' ', skip_empty)
#   httpx/header.py 669, 965: (' ', '', skip_empty)      common/classes.py LanguageTag: ('-', '', strict)
#   common/base.py ListParsable (vector_param.separator, SSH name lists ','): (',', '', strict)
REPO_COMBOS = [
    (b',', b' \t', 1, None), (b';', b' \t', 1, None), (b';', b' ', 1, None), (b' ', b'', 1, None),
    (b'-', b'', 0, None), (b',', b'', 0, None),
]
EXTRA_COMBOS = [
    (b';', b' ', 0, None), (b';', b' \t', 0, None), (b';', b'', 1, None), (b';', b' ', 1, 1), (b';', b' ', 1, 2),
    (b';', b' ', 0, 1), (b';', b' \t', 0, 2), (b',', b'', 0, 3), (b',;', b' ', 1, None), (b',;', b' ', 0, None),
    (b' ', b' ', 1, None), (b' ', b' \t', 0, None), (b'', b' ', 1, None), (b'', b'', 0, None), (b';', b';', 1, None),
]
ALPHABET = [b'a', b'b', b';', b',', b'=', b'-', b' ', b'\t', b'"', b'\r', b'\n']


def _rand_bytes(rng, n, sep):
    out = bytearray()
    for _ in range(n):
        r = rng.random()
        if r < 0.04:
            out.append(rng.choice([0x80, 0xff, 0xc3, 0xa0]))
        elif r < 0.30 and sep:
            out += bytes(bytearray([rng.choice(bytearray(sep))]))
        elif r < 0.50:
            out += rng.choice([b' ', b'\t', b' '])
        else:
            out += rng.choice(ALPHABET)
    return bytes(out)


def _render(rng, items, sep, ws, skip):
    """Spell a list with random insignificant material."""
    def run():
        if not ws:
            return b''
        return bytes(bytearray(rng.choice(bytearray(ws)) for _ in range(rng.choice([0, 0, 1, 1, 2, 3]))))
    out = run()
    if skip and rng.random() < 0.3:
        out += sep * rng.randrange(1, 3) + run()
    for i, item in enumerate(items):
        out += item + run()
        last = i == len(items) - 1
        if not last or rng.random() < 0.3:
            out += sep + run()
            if skip:
                for _ in range(rng.choice([0, 0, 0, 1, 2])):
                    out += sep + run()
    return out


def array_cases(rng, tier):
    cases = []
    maxlen = 5 if tier == 'quick' else 7
    for sep, ws, skip, mx in REPO_COMBOS + EXTRA_COMBOS:
        letters = sorted(set([b'a', b' ', b'\t'] + [bytes(bytearray([x])) for x in bytearray(sep)]))
        n_ex = maxlen if (sep, ws, skip, mx) in REPO_COMBOS or tier != 'quick' else maxlen - 1
        for n in range(0, n_ex + 1):
            for tup in itertools.product(letters, repeat=n):
                cases.append({'kind': 'ta', 'sep': hx(sep), 'ws': hx(ws), 'skip': skip, 'max': mx, 'data': hx(b''.join(tup))})
        for _ in range(150 if tier == 'quick' else 6000):
            data = _rand_bytes(rng, rng.randrange(0, 16), sep)
            cases.append({'kind': 'ta', 'sep': hx(sep), 'ws': hx(ws), 'skip': skip, 'max': mx, 'data': hx(data)})
        if len(sep) == 1 and sep not in ws and mx is None:
            for _ in range(150 if tier == 'quick' else 6000):
                items = []
                for _ in range(rng.choice([0, 1, 1, 2, 3, 5])):
                    while True:
                        item = bytes(bytearray(rng.choice(b'abz=".0 \t-/') for _ in range(rng.randrange(1, 5))))
                        item = item.replace(sep, b'x')
                        if item.strip(ws) == item and item and (ws or True):
                            break
                    items.append(item)
                data = _render(rng, items, sep, ws, skip)
                if not skip and not items:
                    continue
                cases.append({'kind': 'ta', 'sep': hx(sep), 'ws': hx(ws), 'skip': skip, 'max': mx, 'data': hx(data),
                              'items': [hx(i) for i in items]})
    return cases


# ------------------------------------------------------------------------------------------------
# TU  _parse_string_until_separator
# ------------------------------------------------------------------------------------------------

class UntilOracle(object):
    """case {'kind':'tu','seps':[hex,…],'may_end':0/1,'ws':hex,'off':n,'data':hex}"""

    @staticmethod
    def lines(case):
        seps = ','.join(case['seps']) if case['seps'] else '~'
        return ['TU {} {} {} {} {}'.format(seps, case['may_end'], case['ws'], case['off'], case['data'])]

    @staticmethod
    def real(case):
        from cryptoparser.common.parse import ParserText
        data = unhx(case['data'])
        seps = [_text(unhx(s)) for s in case['seps']]

        def fn():
            p = ParserText(data)
            return p._parse_string_until_separator(  # pylint: disable=protected-access
                'x', case['off'], seps, str, None, bool(case['may_end']), _text(unhx(case['ws'])))
        return timed(fn, TU_TIME_LIMIT, counted=False)

    @classmethod
    def impl(cls, case):
        try:
            item, n = cls.real(case)
        except Timeout:
            return ['CRASH OutOfContract']
        except Exception as e:  # pylint: disable=broad-except
            return [core.err_line(e)]
        if n < 0:
            return ['CRASH OutOfContract']
        return ['OK {} {}'.format(n, hx(item.encode('latin-1')))]

    @classmethod
    def prop(cls, case):
        """Through the public entry points (no separator_spaces, offset inside the buffer) the scan stays in contract:
        the item is the bytes before the first separator and the length is its length."""
        if unhx(case['ws']) or case['off'] > len(unhx(case['data'])):
            return []
        line = cls.impl(case)[0]
        if line.startswith('CRASH'):
            return [('until-crash', '_parse_string_until_separator {} -> {}'.format(case, line))]
        if line.startswith('OK'):
            n = int(line.split(' ')[1])
            data = unhx(case['data'])
            rest = data[case['off'] + n:]
            if rest and not any(rest.startswith(unhx(s)) for s in case['seps']):
                return [('until-sep', '{}: {} but no separator follows the item'.format(case, line))]
            if not rest and not case['may_end'] and b'' not in [unhx(s) for s in case['seps']]:
                return [('until-end', '{}: {} accepted the end of input without may_end'.format(case, line))]
        return []


# separator lists of parse_string_until_separator[_or_end] under /repo/cryptoparser (a str is iterated per character)
REPO_SEPS = [[b'\n'], [b' '], [b' ', b'/'], [b'"'], [b'/'], [b':'], [b'='], [b';', b' '], [b'\r\n'], [b'\r', b'\n'], [b'-'], [b'_']]
EXTRA_SEPS = [[b';', b';='], [b';=', b'='], [b'ab', b'b'], [b'b', b'ab'], [b''], [], [b'a', b''], [b'=;', b';']]


def until_cases(rng, tier):
    cases = []
    n = 60 if tier == 'quick' else 2500
    for seps in REPO_SEPS + EXTRA_SEPS:
        pool = b''.join(seps) or b';'
        for ws in (b'', b'', b' ', b' \t'):
            for _ in range(n):
                data = _rand_bytes(rng, rng.randrange(0, 12), pool)
                off = rng.randrange(0, len(data) + 1) if rng.random() < 0.93 else len(data) + rng.randrange(1, 3)
                cases.append({'kind': 'tu', 'seps': [hx(s) for s in seps], 'may_end': rng.randrange(2), 'ws': hx(ws),
                              'off': off, 'data': hx(data)})
    # the out-of-contract scans: an item of whitespace only, with whitespace (or nothing) in front of it
    for data, off in ((b' ', 0), (b'  ', 0), (b'   ;', 0), (b'a  ;', 2), (b'a  ;', 1), (b' \t ', 1), (b'x ', 1), (b'  x', 0),
                      (b';  ', 1), (b'  ;  ', 3)):
        for may_end in (0, 1):
            cases.append({'kind': 'tu', 'seps': [hx(b';')], 'may_end': may_end, 'ws': hx(b' \t'), 'off': off, 'data': hx(data)})
    return cases


# ------------------------------------------------------------------------------------------------
# TC  _check_separators, TN parse_numeric, TS parse_string
# ------------------------------------------------------------------------------------------------

class CheckOracle(object):
    """case {'kind':'tc','seps':hex,'min':None|n,'max':None|n,'off':n,'data':hex}"""

    @staticmethod
    def lines(case):
        return ['TC {} {} {} {} {}'.format(case['seps'], _opt(case['min']), _opt(case['max']), case['off'], case['data'])]

    @staticmethod
    def impl(case):
        from cryptoparser.common.parse import ParserText

        def fn():
            p = ParserText(unhx(case['data']))
            return p._check_separators('x', case['off'], _text(unhx(case['seps'])), case['min'], case['max'])  # pylint: disable=protected-access
        return [core.outcome(lambda: timed(fn, TIME_LIMIT), lambda n: 'OK {}'.format(n))]

    @classmethod
    def prop(cls, case):
        """counts exactly the run of member bytes"""
        data, seps = unhx(case['data']), unhx(case['seps'])
        run = 0
        while case['off'] + run < len(data) and data[case['off'] + run] in bytearray(seps):
            run += 1
        ok = (case['max'] is None or run <= case['max']) and (case['min'] is None or run >= case['min'])
        want = 'OK {}'.format(run) if ok else 'ERR InvalidValue'
        got = cls.impl(case)[0]
        if got != want:
            return [('check-separators', '{} -> {} expected {}'.format(case, got, want))]
        return []


class NumericOracle(object):
    """case {'kind':'tn','data':hex}"""

    @staticmethod
    def lines(case):
        return ['TN {}'.format(case['data'])]

    @staticmethod
    def impl(case):
        from cryptoparser.common.parse import ParserText

        def fn():
            p = ParserText(unhx(case['data']))
            p.parse_numeric('x')
            return p.parsed_length, p['x']
        return [core.outcome(lambda: timed(fn, TIME_LIMIT), lambda r: 'OK {} {}'.format(r[0], r[1]))]

    @staticmethod
    def prop(case):
        return []


class StringOracle(object):
    """case {'kind':'ts','value':hex,'off':n,'data':hex}"""

    @staticmethod
    def lines(case):
        return ['TS {} {} {}'.format(case['value'], case['off'], case['data'])]

    @staticmethod
    def impl(case):
        from cryptoparser.common.parse import ParserText

        def fn():
            p = ParserText(unhx(case['data']))
            p._parsed_length = case['off']  # pylint: disable=protected-access
            p.parse_string('x', _text(unhx(case['value'])))
            return p.parsed_length - case['off']
        return [core.outcome(lambda: timed(fn, TIME_LIMIT), lambda n: 'OK {}'.format(n))]

    @classmethod
    def prop(cls, case):
        data, value, off = unhx(case['data']), unhx(case['value']), case['off']
        want = 'OK {}'.format(len(value)) if data[off:off + len(value)] == value and off + len(value) <= len(data) \
            else 'ERR InvalidValue'
        got = cls.impl(case)[0]
        if got != want:
            return [('parse-string', '{} -> {} expected {}'.format(case, got, want))]
        return []


class ByLengthOracle(object):
    """case {'kind':'tl','min':n,'max':None|n,'off':n,'data':hex}"""

    @staticmethod
    def lines(case):
        return ['TL {} {} {} {}'.format(case['min'], _opt(case['max']), case['off'], case['data'])]

    @staticmethod
    def impl(case):
        from cryptoparser.common.parse import ParserText

        def fn():
            p = ParserText(unhx(case['data']))
            p._parsed_length = case['off']  # pylint: disable=protected-access
            return p._parse_string_by_length('x', case['min'], case['max'], 'ascii', str)  # pylint: disable=protected-access
        return [core.outcome(lambda: timed(fn, TIME_LIMIT), lambda r: 'OK {} {}'.format(r[1], hx(r[0].encode('latin-1'))))]

    @staticmethod
    def prop(case):
        return []


def small_cases(rng, tier):
    cases = []
    n = 400 if tier == 'quick' else 20000
    for _ in range(n):
        seps = rng.choice([b' ', b' \t', b';', b',;', b'', b'=', b'"'])
        data = _rand_bytes(rng, rng.randrange(0, 10), seps or b';')
        cases.append({'kind': 'tc', 'seps': hx(seps), 'min': rng.choice([None, 0, 1, 2]), 'max': rng.choice([None, 0, 1, 2, 3]),
                      'off': rng.randrange(0, len(data) + 2), 'data': hx(data)})
    for data in [b'', b'0', b'7', b'007', b'12a', b'a12', b' 1', b'1 ', b'1.5', b'-1', b'+1', b'\xb2', b'1\xb2', b'\xff',
                 b'123456789012345678901234567890', b'1' * 4300, b'1' * 4301, b'0' * 4301 + b'x', b'9' * 4299 + b';']:
        cases.append({'kind': 'tn', 'data': hx(data)})
    for _ in range(n // 4):
        digits = bytes(bytearray(rng.choice(b'0123456789') for _ in range(rng.randrange(0, 25))))
        cases.append({'kind': 'tn', 'data': hx(digits + _rand_bytes(rng, rng.randrange(0, 3), b';'))})
    for _ in range(n // 2):
        data = _rand_bytes(rng, rng.randrange(0, 9), b';')
        cases.append({'kind': 'tl', 'min': rng.randrange(0, 6), 'max': rng.choice([None, 0, 1, 2, 3, 8, 20]),
                      'off': rng.randrange(0, len(data) + 1), 'data': hx(data)})
    for _ in range(n // 2):
        value = rng.choice([b'', b'a', b'ab', b'v=spf1', b'; ', b'yes', b'no'])
        data = _rand_bytes(rng, rng.randrange(0, 4), b';') + (value if rng.random() < 0.6 else value[:-1]) + \
            _rand_bytes(rng, rng.randrange(0, 3), b';')
        if rng.random() < 0.1:
            data = data.replace(b'a', b'\xe1')
        cases.append({'kind': 'ts', 'value': hx(value), 'off': rng.randrange(0, len(data) + 1), 'data': hx(data)})
    return cases


# ------------------------------------------------------------------------------------------------
# TK  cost model: ticks of the model against line events of the real call
# ------------------------------------------------------------------------------------------------

TICK_ALPHA, TICK_BETA = 6, 16      # 2*ticks - BETA <= line events <= ALPHA*ticks + BETA   (measured: 2.5 .. 5.6 events per tick)
SHAPES = {
    'one-item': lambda n: b'a' * n, 'separators': lambda n: b';' * n, 'sep-space': lambda n: b'; ' * (n // 2),
    'items': lambda n: b'a ; ' * (n // 4), 'spaces': lambda n: b' ' * n, 'long-items': lambda n: (b'abcdefghij' * 3 + b'; ') * (n // 32),
    'trailing-space': lambda n: b'a' + b' ' * (n - 2) + b';', 'name-values': lambda n: b'max-age=31536000; includeSubDomains ;' * (n // 37),
}


def line_events(data, sep, ws, skip):
    """Number of 'line' trace events inside cryptoparser/common/parse.py during the real call."""
    import sys
    import cryptoparser.common.parse as parse_module
    from cryptoparser.common.parse import ParserText
    filename = parse_module.__file__
    count = [0]

    def local(frame, event, arg):
        if event == 'line':
            count[0] += 1
        return local

    def tracer(frame, event, arg):
        return local if frame.f_code.co_filename == filename else None
    parser = ParserText(data)
    old = sys.gettrace()
    sys.settrace(tracer)
    try:
        try:
            parser.parse_string_array('x', _text(sep), separator_spaces=_text(ws), skip_empty=bool(skip))
        except Exception:  # pylint: disable=broad-except
            pass
    finally:
        sys.settrace(old)
    return count[0]


def tick_cases(tier):
    sizes = (64, 128, 256) if tier == 'quick' else (64, 128, 256, 512, 1024, 2048)
    cases = []
    for name in sorted(SHAPES):
        for n in sizes:
            for skip in (0, 1):
                for sep, ws in ((b';', b' '), (b',', b' \t'), (b';', b'')):
                    data = SHAPES[name](n).replace(b';', sep)
                    cases.append({'kind': 'tk', 'shape': name, 'n': n, 'sep': hx(sep), 'ws': hx(ws), 'skip': skip, 'data': hx(data)})
    return cases


def run_ticks(run, tier, driver_ok):
    """Validates the cost model behind C18.array_ticks_linear: it is neither blind to work the real code does nor
    counting work it does not do.  (The quadratic byte copying inside `endswith` is invisible to both counts.)"""
    cases = tick_cases(tier)
    if not driver_ok:
        return
    out = core.run_driver(['TK {} {} {} {}'.format(c['sep'], c['ws'], c['skip'], c['data']) for c in cases])
    for case, line in zip(cases, out):
        run.evaluations += 1
        run.count('ops', 'tk')
        run.note_nontrivial(('tk', case['shape'], case['n'], case['sep'], case['ws'], case['skip']))
        ticks = int(line.split(' ')[1]) if line.startswith('OK ') else -1
        events = line_events(unhx(case['data']), unhx(case['sep']), unhx(case['ws']), case['skip'])
        length = len(unhx(case['data']))
        ok = ticks >= 0 and 2 * ticks - TICK_BETA <= events <= TICK_ALPHA * ticks + TICK_BETA and ticks <= 19 * length + 13
        if not ok:
            run.disagreements.append((dict(case, data=case['data'][:64] + '...'), 0,
                                      'ticks {} (bound {})'.format(ticks, 19 * length + 13), 'line events {}'.format(events)))
    run.notes.append('cost model: {} shapes x sizes, line events of the real call within [2*ticks-{b}, {a}*ticks+{b}]'.format(
        len(cases), a=TICK_ALPHA, b=TICK_BETA))


ORACLES = {'ta': ArrayOracle, 'tu': UntilOracle, 'tc': CheckOracle, 'tn': NumericOracle, 'ts': StringOracle,
           'tl': ByLengthOracle}


class Dispatch(object):
    @staticmethod
    def lines(case):
        return ORACLES[case['kind']].lines(case)

    @staticmethod
    def impl(case):
        return ORACLES[case['kind']].impl(case)

    @staticmethod
    def prop(case):
        return ORACLES[case['kind']].prop(case)


def gen_cases(rng, tier):
    return array_cases(rng, tier) + until_cases(rng, tier) + small_cases(rng, tier)


def run(run, driver_ok=True, deep=False):
    tier = 'thorough' if deep else run.tier
    cases = gen_cases(run.rng, tier)
    marks = bytearray(b' \t;,-=/"\r\n')
    for c in cases:
        run.count('ops', c['kind'])
        if c['kind'] == 'ta':
            run.count('array_params', '{}|{}|{}|{}'.format(c['sep'], c['ws'], c['skip'], c['max']))
        data = unhx(c['data'])
        if any(x in marks for x in bytearray(data)):
            run.note_nontrivial((c['kind'], c.get('sep'), c.get('ws'), c.get('skip'), c.get('max'), tuple(c.get('seps', ())),
                                 c.get('off'), c['data']))
    for c in cases:
        if c['kind'] == 'ta' and c.get('items'):
            run.sample(c)
            break
    for kind in ('tu', 'tc', 'tn', 'ts', 'tl'):
        for c in cases:
            if c['kind'] == kind and len(c['data']) > 6:
                run.sample(c)
                break
    run.notes.append('exhaustive part: all strings up to length {} over the letter, the separator(s), SP and HTAB for each '
                     'parameter combination used in /repo'.format(5 if tier == 'quick' else 7))
    if driver_ok:
        core.correspond(run, Dispatch, cases)
    else:
        for case in cases:
            run.evaluations += 1
            for key, message in Dispatch.prop(case):
                run.finding(key, message, case)
    run_ticks(run, tier, driver_ok)


def search(run, proof):
    if run.tier != 'thorough':
        sub = core.Run(run.prop, 'thorough', run.seed + 1)
        sub.kf = run.kf
        globals()['run'](sub, driver_ok=False, deep=True)
        run.violations.extend(sub.violations)
        run.evaluations += sub.evaluations
        run.notes.append('failing-input search: thorough-tier implementation oracle, {} cases'.format(sub.evaluations))


def replay(case):
    return Dispatch.prop(case)
