# -*- coding: utf-8 -*-
"""C14 — JSON and Markdown output is always well-formed, deterministic and faithful.

Correspondence: every object (harvested from the repo's own test inputs, or built by hand below) is
abstracted to a `PyVal` term, the model renders it (`JS`, `MD`, `MDS`, `MDE` ops) and the text must equal
`json.dumps(obj)` / `obj.as_markdown()` exactly; the `DK` op evaluates the hypothesis of the set-order theorems
(`distinctKeys`) on the term.  Independently of the model the implementation-side oracle
checks on the real code: serialisation succeeds, `json.loads` accepts the document, Markdown is `str`, a
second call gives the same text, the parse∘compose image serialises identically, equal sets built in a
different insertion order serialise identically, the class-level encoder state is left as it was found (no class
gains a `post_text_encoder` attribute, `Serializable.post_text_encoder` is the same object afterwards, also when
the call raises), an encoder installed after a first serialisation is honoured, and the output is the same in
child processes under different PYTHONHASHSEEDs and serialisation orders.

Three defects this oracle used to report as known findings are repaired in the code (`set-iteration-order`,
`encoder-pinned-on-class`, `markdown-not-text`); their detectors stay, so a reappearance is a violation."""
from __future__ import print_function

import collections
import datetime
import enum
import hashlib
import json
import os
import random
import subprocess
import sys
import traceback

from harness import core, corpus

LEAN_MODULES = ['CpProps.C14']
RULE = ('CORPUS + CONSTRUCTED: every (class, bytes) pair the repo\'s own test-suite parses successfully (harvested at run '
        'time) plus hand-built objects (flag sets in several insertion orders, None-valued optionals, non-ASCII text, '
        'unknown/GREASE code points, empty containers, dicts with enum / int / mixed keys, sets of strings / mixed content / '
        'nested frozensets, every member of every '
        'enumeration of the library) is serialised by the real code and by the model; texts are compared exactly. A case is non-trivial '
        'when its JSON document is not a bare scalar and is distinct from every other case\'s document.')
ASSUMPTIONS = [
    'the abstraction function `abstract` (harness/props/c14.py) asks the same isinstance/hasattr questions as '
    'Serializable._json_traverse/_markdown_result; it is part of the trusted correspondence',
    'json.dumps of a tree of dict/list/str/int/float/bool/None is what Json.render transcribes (CPython json module)',
    'objects outside the model\'s domain (float/tuple dict keys, lone surrogates, non-ASCII dict keys) are counted '
    'and checked by the implementation-side oracle only',
    'the set-order theorems assume distinctKeys (different elements of a set have different JSON documents); the DK op '
    'evaluates it on every abstracted object and the cases where it is false are counted (distribution: distinct_keys)',
    'the model carries no encoder state on its error path; that a raising as_markdown() leaves '
    'Serializable.post_text_encoder in place (the `finally`) is checked on the implementation only',
]
TRUSTED_EXTRA = ['harness/props/c14.py: abstract() — Python object -> PyVal term']

HASH_SEEDS = ['0', '1', '4242']


# ----------------------------------------------------------------------------------------------------------------
# abstraction: Python object -> PyVal term (grammar: lean/CpModel/Drv/Serial.lean).  TRUSTED; keep short.
# ----------------------------------------------------------------------------------------------------------------

class Unsupported(Exception):
    """the object is outside the model's domain (never a guess)"""


def _imports():
    import attr
    from cryptodatahub.common.grade import Gradeable
    from cryptodatahub.common.types import CryptoDataParamsBase
    from cryptoparser.common.base import Serializable
    return attr, Gradeable, CryptoDataParamsBase, Serializable


def hs(text):
    try:
        return text.encode('utf-8').hex() + ';'
    except UnicodeEncodeError:
        raise Unsupported('lone surrogate')


def _safe_str(obj):
    try:
        return str(obj)
    except Exception as e:  # pylint: disable=broad-except
        raise Unsupported('str() of a {} raises {}'.format(type(obj).__name__, type(e).__name__))


_SENTINEL = (False, '<sentinel>')


def md_override(obj):
    """(literal, argument): what the class's own `_as_markdown` returns without, or passes to, `_markdown_result`."""
    _, _, _, Serializable = _imports()
    if type(obj)._as_markdown is Serializable._as_markdown:
        return None, None
    seen = []
    orig = Serializable.__dict__['_markdown_result']
    Serializable._markdown_result = classmethod(lambda cls, x, level=0: (seen.append(x), _SENTINEL)[1])
    try:
        result = obj._as_markdown(0)
    finally:
        Serializable._markdown_result = orig
    if result is _SENTINEL:
        return None, seen[:1]
    return result, None


def _hdr(obj, lit=None):
    _, Gradeable, CryptoDataParamsBase, Serializable = _imports()
    bits = ''.join('1' if x else '0' for x in (
        isinstance(obj, Gradeable), isinstance(obj, Serializable),
        isinstance(obj, Serializable._MARKDOWN_RESULT_STRING_CLASSES), isinstance(obj, CryptoDataParamsBase)))
    secs = '{};'.format(obj.seconds) if isinstance(obj, datetime.timedelta) else '~'
    lit_term = '~' if lit is None else ('1' if lit[0] else '0') + hs(_safe_str(lit[1]))
    return hs(type(obj).__module__ + '.' + type(obj).__qualname__) + hs(_safe_str(obj)) + bits + secs + lit_term


def _metas(cls):
    attr, _, _, _ = _imports()
    if not attr.has(cls):
        return '~'
    fields = attr.fields(cls)
    return '{};'.format(len(fields)) + ''.join(
        hs(f.name) + ('1' if f.metadata.get('human_friendly', True) else '0') +
        ('=' + hs(f.metadata['human_readable_name']) if 'human_readable_name' in f.metadata else '~')
        for f in fields)


def _key_class(key):
    if isinstance(key, enum.Enum):
        return 'enum'
    if isinstance(key, str):
        return 'str'
    if isinstance(key, (bool, int)):
        return 'num'
    if isinstance(key, (bytes, bytearray)):
        return 'bytes'
    return 'other'


def _pairs(items, sorted_by_code):
    items = list(items)
    classes = {_key_class(k) for k, _ in items}
    for key, _ in items:
        if isinstance(key, (tuple, frozenset)):
            raise Unsupported('tuple/frozenset dict key')
        if isinstance(key, str) and not key.isascii():
            raise Unsupported('non-ASCII dict key')
    if sorted_by_code and len(items) > 1 and ('other' in classes or (len(classes) > 1 and 'enum' in classes)):
        raise Unsupported('dict keys the model cannot order')
    return '{};'.format(len(items)) + ''.join(abstract(k) + abstract(v) for k, v in items)


def abstract(obj):  # pylint: disable=too-many-return-statements,too-many-branches
    attr, Gradeable, CryptoDataParamsBase, Serializable = _imports()
    if isinstance(obj, enum.Enum):
        if isinstance(obj, (Gradeable, Serializable)):
            raise Unsupported('enum member that is Gradeable/Serializable itself')
        value = obj.value
        if isinstance(value, CryptoDataParamsBase):
            return 'E' + hs(obj.name) + hs(_safe_str(value)) + ('1' + abstract(value) if isinstance(value, Serializable) else '0')
        return 'P' + hs(obj.name) + ('1' if isinstance(obj, (int, str, float)) else '0') + abstract(value)
    plain = not hasattr(obj, '_asdict') and not hasattr(obj, '__dict__') and not attr.has(type(obj))
    if obj is None:
        return 'N'
    if plain and isinstance(obj, bool):
        return 'T' if obj else 'F'
    if plain and isinstance(obj, int):
        return 'I{};'.format(int.__repr__(obj))
    if plain and isinstance(obj, float):
        return 'D' + hs(float.__repr__(obj))
    if plain and isinstance(obj, str):
        return 'S' + hs(obj)
    if plain and isinstance(obj, (bytes, bytearray)):
        return 'B' + bytes(obj).hex() + ';'
    if isinstance(obj, (bool, int, float, str, bytes, bytearray)):
        raise Unsupported('scalar subclass with __dict__')
    if hasattr(obj, '_asdict'):
        lit, arg = md_override(obj) if isinstance(obj, Serializable) else (None, None)
        inner = obj._asdict()
        return 'A' + _hdr(obj, lit) + _metas(type(obj)) + ('1' + abstract(arg[0]) if arg else '0') + abstract(inner)
    if isinstance(obj, dict) and not attr.has(type(obj)):
        ordered = isinstance(obj, collections.OrderedDict)
        return ('O' if ordered else 'U') + _pairs(obj.items(), not ordered)
    if attr.has(type(obj)):
        return 'C' + _hdr(obj) + _metas(type(obj)) + _pairs(
            [(name, getattr(obj, name)) for name in attr.fields_dict(type(obj))], False)
    if hasattr(obj, '__dict__'):
        return 'V' + _hdr(obj) + _pairs(obj.__dict__.items(), True)
    if isinstance(obj, (list, tuple)):
        return 'L{};'.format(len(obj)) + ''.join(abstract(x) for x in obj)
    if isinstance(obj, (set, frozenset)):
        items = list(obj)
        return 'Z{};'.format(len(items)) + ''.join(abstract(x) for x in items)
    return 'Q' + _hdr(obj)


# ----------------------------------------------------------------------------------------------------------------
# the real code
# ----------------------------------------------------------------------------------------------------------------

def impl_json(obj):
    """`obj.as_json()` is `json.dumps(obj)` with the `default` hook cryptoparser.common.base installs on import"""
    _imports()
    return json.dumps(obj)


def impl_markdown(obj):
    """`obj.as_markdown()`; for objects that are not Serializable, what a Serializable parent would embed."""
    _, _, _, Serializable = _imports()
    if isinstance(obj, Serializable):
        return obj.as_markdown()
    return Serializable._markdown_result(obj, 0)[1]


def distinct_keys(obj):
    """the implementation-side reading of `distinctKeys`: in every set reachable the way the traversals reach it,
    different elements have different keys (the key `_get_ordered_set` sorts by)"""
    attr, _, _, Serializable = _imports()

    def key(item):
        try:
            return json.dumps(Serializable._json_traverse(item, Serializable._json_result))
        except TypeError:
            return 'null'

    def walk(x):
        if isinstance(x, enum.Enum):
            return walk(x.value)
        if isinstance(x, (set, frozenset)):
            items = list(x)
            keys = [key(i) for i in items]
            return len(set(keys)) == len(keys) and all(walk(i) for i in items)
        if isinstance(x, (str, bytes, bytearray, int, float)) or x is None:
            return True
        if hasattr(x, '_asdict'):
            lit, arg = md_override(x) if isinstance(x, Serializable) else (None, None)
            return all(walk(a) for a in (arg or [])) and walk(x._asdict())
        if isinstance(x, dict) and not attr.has(type(x)):
            return all(walk(k) and walk(v) for k, v in x.items())
        if attr.has(type(x)):
            return all(walk(getattr(x, name)) for name in attr.fields_dict(type(x)))
        if hasattr(x, '__dict__'):
            return all(walk(v) for v in x.__dict__.values())
        if isinstance(x, (list, tuple)):
            return all(walk(i) for i in x)
        return True
    return walk(obj)


def pinned_classes():
    """classes (other than Serializable) that carry their own `post_text_encoder` attribute"""
    _, _, _, Serializable = _imports()
    found = []
    todo = list(Serializable.__subclasses__())
    seen = set()
    while todo:
        cls = todo.pop()
        if cls in seen:
            continue
        seen.add(cls)
        todo.extend(cls.__subclasses__())
        if 'post_text_encoder' in vars(cls):
            found.append(cls)
    return found


def clear_pins():
    for cls in pinned_classes():
        delattr(cls, 'post_text_encoder')


def text_line(fn):
    def fmt(text):
        text = text if isinstance(text, str) else str(text)
        return 'OK ' + (text.encode('utf-8', 'surrogatepass').hex() or '-')
    return core.outcome(fn, fmt)


# ----------------------------------------------------------------------------------------------------------------
# objects
# ----------------------------------------------------------------------------------------------------------------

def build_corpus_object(case):
    cls = corpus.resolve(case['cls'])
    return cls.parse_exact_size(bytes.fromhex(case['hex']))


_MEMO = {}


def _test_classes():
    if 'classes' not in _MEMO:
        _MEMO['classes'] = _make_test_classes()
    return _MEMO['classes']


def _make_test_classes():
    """small Serializable classes that put the generic machinery through the cases no library class reaches"""
    import attr
    from cryptoparser.common.base import Serializable

    class Colour(enum.Enum):
        RED = 1
        GREEN = 'g'
        BLUE = None

    class Level(enum.IntEnum):
        LOW = 1
        HIGH = 2

    @attr.s
    class Inner(Serializable):
        text = attr.ib()
        _hidden = attr.ib(default=1)
        note = attr.ib(default=None, metadata={'human_friendly': False})
        pin_sha = attr.ib(default=b'\x00\xff', metadata={'human_readable_name': 'Pin (SHA-256)'})

    @attr.s
    class Plain(object):
        x509v3_ext = attr.ib()
        other = attr.ib(default=None)

    class Bag(object):
        def __init__(self, **kwargs):
            self.__dict__.update(kwargs)

    @attr.s
    class Holder(Serializable):
        value = attr.ib()

    return Colour, Level, Inner, Plain, Bag, Holder


def constructed_objects():
    """name -> object"""
    from cryptoparser.dnsrec.record import DnsSecFlag
    from cryptoparser.tls.mysql import MySQLCapability
    from cryptoparser.tls.rdp import RDPProtocol
    objs = collections.OrderedDict()
    Colour, Level, Inner, Plain, Bag, Holder = _test_classes()
    objs['scalars'] = Holder([None, True, False, 0, -1, 2 ** 70, 1.5, 1e-05, 1e+16, -0.0, '', 'plain', b'', b'\x00\xab\xff',
                              bytearray(b'\x01')])
    objs['text-nonascii'] = Holder(['éß', '中文', '\U0001f600 smile', 'quote" back\\slash', 'ctl\x00\x01\x1f\x7f',
                                    'nl\n cr\r tab\t bs\x08 ff\x0c', '  ', '</script>'])
    objs['enums'] = Holder([Colour.RED, Colour.GREEN, Colour.BLUE, Level.LOW, {Colour.RED: 1, Colour.GREEN: 2},
                            collections.OrderedDict([(Level.HIGH, 'h'), (Level.LOW, 'l')])])
    objs['containers-empty'] = Holder([[], (), set(), frozenset(), {}, collections.OrderedDict(), Inner(''), Plain([]), Bag()])
    objs['containers-nested'] = Holder([[1, [2, [3, [None]]]], ([], [[]]), {'b': {'d': 1, 'c': [1, 2]}, 'a': None},
                                        Inner('t', note='n'), Plain(Inner('deep'), other=Plain(1)),
                                        Bag(z_last=1, a_first=Inner('x'), _private=3)])
    objs['dict-int-keys'] = Holder({3: 'c', 1: 'a', True: 't', 2: 'b'})
    objs['dict-str-keys'] = Holder({'zeta_one': 1, 'alpha_two': 2, 'Mixed_caseKey': 3, 'x509v3_name': 4, '_p': 5, 'a__b': 6, '': 7})
    objs['dict-bytes-keys'] = Holder({b'\x02': 1, b'\x01\x02': 2, b'': 3})
    objs['dict-none-key'] = Holder(collections.OrderedDict([(None, 1), (1.5, 2), (False, 3), ('s', 4)]))
    objs['dict-object-keys'] = Holder(collections.OrderedDict([(Colour.RED, [1]), (datetime.timedelta(seconds=61), 2)]))
    objs['stdlib-objects'] = Holder([datetime.timedelta(days=1, seconds=5), datetime.datetime(2020, 1, 2, 3, 4, 5),
                                     datetime.date(2020, 1, 2)])
    objs['floats-nonfinite'] = Holder([float('nan'), float('inf'), float('-inf')])
    objs['mixed-keys'] = Holder({1: 'a', 'b': 2})
    for name, members in (('dnskey', [DnsSecFlag.DNS_ZONE_KEY, DnsSecFlag.SECURE_ENTRY_POINT, DnsSecFlag.REVOKE]),
                          ('mysql', [MySQLCapability.CLIENT_SSL, MySQLCapability.CLIENT_PROTOCOL_41,
                                     MySQLCapability.CLIENT_LONG_PASSWORD, MySQLCapability.CLIENT_PLUGIN_AUTH]),
                          ('rdp', [RDPProtocol.SSL, RDPProtocol.HYBRID, RDPProtocol.HYBRID_EX])):
        objs['set-' + name] = Holder(set(members))
    # text with format-string metacharacters, as list items, dict values and nested (a renderer that runs str.format
    # over already rendered text fails or unescapes them)
    objs['text-braces'] = Holder(['{x}', '{{y}}', 'a{0}b', '}{', '{', '{indent}{index}', {'k': ['{value}', '%s %d']}, ('{newline}', ['{}'])])
    objs['set-strings'] = Holder({'beta', 'alpha', 'Gamma', 'é', '', 'a"b', '10', '9'})
    objs['set-mixed'] = Holder({3, 'a', 10, 9, None, 1.5, b'\x01', (1, 2), Colour.RED, Level.HIGH})
    objs['set-nested'] = Holder([frozenset({frozenset({2, 1}), frozenset({'x'}), frozenset()}), {Inner('b'), Inner('a')}
                                 if Inner.__hash__ else set()])
    objs['set-tied-keys'] = Holder(frozenset({(1, 2), frozenset({1, 2})}))        # two elements, one JSON document
    objs['set-in-enum-key-dict'] = Holder(collections.OrderedDict([(Colour.GREEN, {'b', 'a'}), (7, frozenset({2, 11}))]))
    return objs


def set_order_cases(rng, tier):
    """equal sets built in different insertion orders, placed in the library's own classes"""
    from cryptoparser.dnsrec.record import DnsSecFlag
    from cryptoparser.tls.mysql import MySQLCapability, MySQLStatusFlag
    from cryptoparser.tls.rdp import RDPProtocol
    cases = []
    families = [('cryptoparser.dnsrec.record:DnsSecFlag', list(DnsSecFlag)),
                ('cryptoparser.tls.mysql:MySQLCapability', list(MySQLCapability)),
                ('cryptoparser.tls.mysql:MySQLStatusFlag', list(MySQLStatusFlag)),
                ('cryptoparser.tls.rdp:RDPProtocol', list(RDPProtocol))]
    for path, members in families:
        n = 12 if tier == 'quick' else 80
        for _ in range(n):
            k = rng.randrange(2, min(len(members), 8) + 1)
            sub = rng.sample(members, k)
            cases.append({'kind': 'set-order', 'enum': path, 'a': [m.name for m in sub],
                          'b': [m.name for m in rng.sample(sub, k)]})
        cases.append({'kind': 'set-order', 'enum': path, 'a': [m.name for m in members],
                      'b': [m.name for m in reversed(members)]})
    return cases


def _library_holder(enum_cls, members):
    """the flag set inside the library class that carries it (None: no such class, use a test holder)"""
    import attr
    from cryptoparser.dnsrec.record import DnsRecordDnskey, DnsSecFlag
    from cryptoparser.tls.mysql import MySQLCapability, MySQLCharacterSet, MySQLHandshakeV10, MySQLStatusFlag, MySQLVersion
    from cryptoparser.tls.rdp import RDPNegotiationRequest, RDPProtocol
    if enum_cls is DnsSecFlag:
        base = [cls.parse_exact_size(data) for cls, data in corpus.harvest() if cls is DnsRecordDnskey]
        return attr.evolve(base[0], flags=members) if base else None
    if enum_cls in (MySQLCapability, MySQLStatusFlag):
        return MySQLHandshakeV10(
            protocol_version=MySQLVersion.MYSQL_10, server_version='8.0.1', connection_id=1, auth_plugin_data=8 * b'\x01',
            capabilities=members if enum_cls is MySQLCapability else {MySQLCapability.CLIENT_SSL},
            character_set=MySQLCharacterSet.UTF8,
            states=members if enum_cls is MySQLStatusFlag else set())
    if enum_cls is RDPProtocol:
        return RDPNegotiationRequest(flags=set(), protocol=members)
    return None


def build_set_pair(case):
    enum_cls = corpus.resolve(case['enum'])
    _, _, _, _, _, Holder = _test_classes()
    first = set()
    for name in case['a']:
        first.add(enum_cls[name])
    second = set()
    for name in case['b']:
        second.add(enum_cls[name])
    a, b = _library_holder(enum_cls, first), _library_holder(enum_cls, second)
    if a is None or b is None:
        return Holder(first), Holder(second)
    return a, b


def library_objects():
    """objects of library classes that parsing does not produce: defaults, None-valued optionals, empty containers"""
    from cryptoparser.tls.mysql import MySQLHandshakeSslRequest, MySQLHandshakeV10, MySQLVersion
    from cryptoparser.tls.rdp import RDPNegotiationRequest
    from cryptoparser.tls.extension import TlsExtensionUnparsed, TlsExtensionsClient
    from cryptoparser.tls.grease import TlsInvalidTypeOneByte, TlsInvalidTypeTwoByte
    from cryptoparser.ssh.subprotocol import SshProtocolMessage
    from cryptoparser.ssh.version import SshProtocolVersion, SshSoftwareVersionUnparsed
    from cryptoparser.tls.version import TlsProtocolVersion
    from cryptodatahub.tls.version import TlsVersion
    from cryptoparser.ssh.version import SshVersion
    objs = collections.OrderedDict()
    objs['mysql-defaults'] = MySQLHandshakeV10(
        protocol_version=MySQLVersion.MYSQL_10, server_version='', connection_id=0, auth_plugin_data=8 * b'\x00',
        capabilities=set())
    objs['mysql-ssl-request-empty'] = MySQLHandshakeSslRequest(capabilities=set(), max_packet_size=0)
    objs['rdp-empty'] = RDPNegotiationRequest(flags=set(), protocol=set())
    objs['tls-extension-unparsed-empty'] = TlsExtensionUnparsed(TlsInvalidTypeTwoByte(0x0a0a), b'')
    objs['tls-extensions-empty'] = TlsExtensionsClient([])
    objs['tls-unknown-codes'] = [TlsInvalidTypeTwoByte(0xfffe), TlsInvalidTypeTwoByte(0x1a1a), TlsInvalidTypeOneByte(0xee)]
    objs['ssh-banner-no-comment'] = SshProtocolMessage(
        protocol_version=SshProtocolVersion(SshVersion.SSH2, 0), software_version=SshSoftwareVersionUnparsed('software_version'), comment=None)
    objs['tls-version'] = TlsProtocolVersion(TlsVersion.TLS1_3_DRAFT_28)
    return objs


def x509_objects():
    """report objects holding X.509 certificates (asn1crypto: outside the model, so only the implementation-side
    statements and the cross-process / serialisation-order comparison apply): CA, leaf, chain, self-signed, and the
    same certificates re-issued as X.509 v1 / v3 without an extensions field"""
    if 'x509' in _MEMO:
        return _MEMO['x509']
    import asn1crypto.pem
    import asn1crypto.x509
    from cryptodatahub.ssh.algorithm import SshHostKeyAlgorithm
    from cryptoparser.common.x509 import PublicKeyX509
    from cryptoparser.ssh.key import SshX509CertificateChain
    _, _, _, _, _, Holder = _test_classes()
    certs = os.path.join(core.REPO, 'test', 'common', 'certs')

    def der(name):
        with open(os.path.join(certs, name), 'rb') as f:
            return asn1crypto.pem.unarmor(f.read())[2]

    def bare(data, version):
        certificate = asn1crypto.x509.Certificate.load(data)
        tbs = certificate['tbs_certificate']
        fields = {n: tbs[n] for n in ('serial_number', 'signature', 'issuer', 'validity', 'subject', 'subject_public_key_info')}
        fields['version'] = version
        return asn1crypto.x509.Certificate({'tbs_certificate': asn1crypto.x509.TbsCertificate(fields),
                                            'signature_algorithm': certificate['signature_algorithm'],
                                            'signature_value': certificate['signature_value']}).dump()

    objs = collections.OrderedDict()
    try:
        root, leaf, snake = der('rsa8192.badssl.com_root_ca.crt'), der('rsa8192.badssl.com_certificate.crt'), der('snakeoil_cert.pem')
        alg = SshHostKeyAlgorithm.X509V3_SSH_RSA
        key = PublicKeyX509.from_der
        objs['x509-ca'] = Holder([SshX509CertificateChain(alg, key(root), [], [])])
        objs['x509-leaf'] = Holder([SshX509CertificateChain(alg, key(leaf), [], [])])
        objs['x509-leaf-with-issuer'] = Holder([SshX509CertificateChain(alg, key(leaf), [key(root)], [])])
        objs['x509-self-signed-ocsp'] = Holder([SshX509CertificateChain(alg, key(snake), [], [b'\x00\x01'])])
        objs['x509-v1-no-extensions'] = Holder([SshX509CertificateChain(alg, key(bare(snake, 'v1')), [], [])])
        objs['x509-v1-ca-no-extensions'] = Holder([SshX509CertificateChain(alg, key(bare(root, 'v1')), [], [])])
        objs['x509-v3-no-extensions-field'] = Holder([SshX509CertificateChain(alg, key(bare(snake, 'v3')), [], [])])
        objs['x509-key-ca'] = Holder(key(root))
        objs['x509-key-leaf'] = Holder(key(leaf))
    except Exception as e:  # pylint: disable=broad-except
        objs = collections.OrderedDict()
        _MEMO['x509-error'] = repr(e)
    _MEMO['x509'] = objs
    return objs


# ----------------------------------------------------------------------------------------------------------------
# oracles
# ----------------------------------------------------------------------------------------------------------------

def build(case):
    if case['kind'] == 'x509':
        return x509_objects()[case['name']]
    if case['kind'] == 'corpus':
        return build_corpus_object(case)
    if case['kind'] == 'built':
        return constructed_objects()[case['name']]
    if case['kind'] == 'library':
        return library_objects()[case['name']]
    if case['kind'] == 'enum-member':
        return corpus.resolve(case['enum'])[case['name']]
    raise KeyError(case['kind'])


_TERMS = {}


def term_of(case):
    key = json.dumps(case, sort_keys=True)
    if case.get('kind') == 'x509':
        return Unsupported('x509 certificate (asn1crypto)')
    if key not in _TERMS:
        try:
            _TERMS[key] = abstract(build(case))
        except Unsupported as e:
            _TERMS[key] = e
    return _TERMS[key]


class TextOracle(object):
    """model text == implementation text (JS, MD, MDS)"""

    @staticmethod
    def lines(case):
        term = term_of(case)
        return ['JS ' + term, 'MD ' + term, 'MDS ' + term, 'MDE ' + term, 'DK ' + term]

    @staticmethod
    def impl(case):
        obj = build(case)
        clear_pins()
        js = text_line(lambda: impl_json(obj))
        md = text_line(lambda: impl_markdown(obj))
        pins = sorted(cls.__module__ + '.' + cls.__qualname__ for cls in pinned_classes())
        clear_pins()
        mds = md + ' ' + (','.join(pins).encode('utf-8').hex() or '-') if md.startswith('OK') else md
        return [js, md, mds, text_line(lambda: markdown_with_probe(obj)), 'OK T' if distinct_keys(obj) else 'OK F']

    @staticmethod
    def prop(case):
        return check_object(case, build(case))


def check_object(case, obj):
    """the property on the real code for one object, independent of the model"""
    bad = []
    if case.get('excluded'):
        return bad
    _, _, _, Serializable = _imports()
    try:
        js = impl_json(obj)
    except Exception as e:  # pylint: disable=broad-except
        return [('json-raises', 'json.dumps raised {}: {}'.format(type(e).__name__, e))]
    try:
        json.loads(js, parse_constant=_reject_constant)
    except ValueError as e:
        bad.append(('json-not-wellformed', 'json.loads rejects the output: {}'.format(e)))
    clear_pins()
    installed = Serializable.__dict__['post_text_encoder']
    try:
        md = impl_markdown(obj)
    except Exception as e:  # pylint: disable=broad-except
        where = traceback.extract_tb(e.__traceback__)[-1].name
        if Serializable.__dict__['post_text_encoder'] is not installed or pinned_classes():
            Serializable.post_text_encoder = installed
            clear_pins()
            bad.append(('encoder-not-restored', 'a raising as_markdown() left another post_text_encoder installed'))
        return bad + [('markdown-raises-in-' + where, 'Markdown serialisation raised {}: {} (in {})'.format(
            type(e).__name__, e, where))]
    if Serializable.__dict__['post_text_encoder'] is not installed:
        Serializable.post_text_encoder = installed
        bad.append(('encoder-not-restored', 'as_markdown() left another post_text_encoder installed on Serializable'))
    if not isinstance(md, str) and not type(obj).__module__.startswith('test.'):      # a test class may return anything
        bad.append(('markdown-not-text', 'as_markdown() returned {} ({!r}), not text'.format(type(md).__name__, md)))
    if pinned_classes():
        bad.append(('encoder-pinned-on-class',
                    'as_markdown() left a post_text_encoder attribute on {}: an encoder installed on Serializable afterwards '
                    'is ignored for these classes'.format(sorted(c.__qualname__ for c in pinned_classes()))))
    if impl_json(obj) != js or impl_markdown(obj) != md:
        bad.append(('not-repeatable', 'a second serialisation of the same object gives different text'))
    clear_pins()
    if hasattr(obj, 'compose') and hasattr(type(obj), 'parse_exact_size'):
        try:
            again = type(obj).parse_exact_size(obj.compose())
        except Exception:  # pylint: disable=broad-except
            again = None
        if again is not None and again == obj:
            js2, md2 = impl_json(again), impl_markdown(again)
            clear_pins()
            if js2 != js or md2 != md:
                bad.append(('roundtrip-differs', 'object and parse(compose(object)) are equal but serialise differently: {!r} vs {!r}'
                            .format(js if js2 != js else md, js2 if js2 != js else md2)))
    return bad


def _reject_constant(name):
    raise ValueError('non-standard JSON constant ' + name)


def check_set_pair(case):
    a, b = build_set_pair(case)
    if a != b:
        return []
    ja, jb = impl_json(a), impl_json(b)
    ma, mb = impl_markdown(a), impl_markdown(b)
    clear_pins()
    if ja != jb or ma != mb:
        return [('set-iteration-order',
                 'equal objects whose {} sets were filled in the orders {} and {} serialise differently: {} vs {}'.format(
                     case['enum'].split(':')[1], case['a'], case['b'], ja if ja != jb else repr(ma), jb if ja != jb else repr(mb)))]
    # the same members as FROZEN sets (what a caller may pass for a flag field), plain and nested in a list
    enum_cls = corpus.resolve(case['enum'])
    _, _, _, _, _, Holder = _test_classes()
    fa = frozenset([enum_cls[n] for n in case['a']])
    fb = frozenset([enum_cls[n] for n in case['b']])
    for wrap in (lambda x: Holder(x), lambda x: Holder([x, 'tail']), lambda x: Holder({'k': x})):
        ha, hb = wrap(fa), wrap(fb)
        ja, jb = impl_json(ha), impl_json(hb)
        ma, mb = impl_markdown(ha), impl_markdown(hb)
        clear_pins()
        if ja != jb or ma != mb:
            return [('set-iteration-order',
                     'equal frozensets of {} filled in the orders {} and {} serialise differently: {} vs {}'.format(
                         case['enum'].split(':')[1], case['a'], case['b'], ja if ja != jb else repr(ma), jb if ja != jb else repr(mb)))]
    return []


class _Probe(object):
    """an application's encoder: every leaf text t is rendered as <<t>>"""
    def __call__(self, obj, level):
        return False, '<<' + str(obj) + '>>'


def markdown_with_probe(obj):
    """as_markdown() with the probe encoder installed on Serializable, from a clean class state"""
    _, _, _, Serializable = _imports()
    saved = Serializable.__dict__['post_text_encoder']
    clear_pins()
    Serializable.post_text_encoder = _Probe()
    try:
        return impl_markdown(obj)
    finally:
        Serializable.post_text_encoder = saved
        clear_pins()


def check_encoder_effect(obj):
    """observable consequence of the pin: the same call under the same installed encoder gives different text depending
    on whether the class rendered Markdown before"""
    from cryptoparser.common.base import Serializable, SerializableTextEncoder

    class Probe(SerializableTextEncoder):
        def __call__(self, o, level):
            return False, '<<' + str(o) + '>>'

    saved = Serializable.__dict__['post_text_encoder']
    try:
        clear_pins()
        Serializable.post_text_encoder = Probe()
        fresh = impl_markdown(obj)
        clear_pins()
        Serializable.post_text_encoder = saved
        impl_markdown(obj)
        Serializable.post_text_encoder = Probe()
        after = impl_markdown(obj)
    finally:
        Serializable.post_text_encoder = saved
        clear_pins()
    return fresh, after


# ----------------------------------------------------------------------------------------------------------------
# child processes: hash seeds and serialisation orders
# ----------------------------------------------------------------------------------------------------------------

def child_main(argv):
    """argv: <cases.json> <shuffle seed>; prints one line per case: index, sha256 of JSON, sha256 of Markdown"""
    with open(argv[0]) as f:
        cases = json.load(f)
    order = list(range(len(cases)))
    random.Random(int(argv[1])).shuffle(order)
    out = {}
    for i in order:
        case = cases[i]
        try:
            if case['kind'] == 'set-order':
                obj = build_set_pair(case)[0]
            else:
                obj = build(case)
            js, md = impl_json(obj), str(impl_markdown(obj))
            out[i] = (hashlib.sha256(js.encode('utf-8', 'surrogatepass')).hexdigest()[:16],
                      hashlib.sha256(md.encode('utf-8', 'surrogatepass')).hexdigest()[:16])
        except Exception as e:  # pylint: disable=broad-except
            out[i] = ('EXC', type(e).__name__)
    for i in range(len(cases)):
        print(i, out[i][0], out[i][1])
    return 0


def cross_process(run, cases):
    import tempfile
    with tempfile.TemporaryDirectory(prefix='cpv-c14-') as tmp:
        path = os.path.join(tmp, 'cases.json')
        with open(path, 'w') as f:
            json.dump(cases, f)
        procs = []
        for n, seed in enumerate(HASH_SEEDS):
            env = dict(os.environ)
            env['PYTHONHASHSEED'] = seed
            env['PYTHONPATH'] = os.pathsep.join([core.VERIF, core.REPO])
            env['PYTHONDONTWRITEBYTECODE'] = '1'
            procs.append(subprocess.Popen([sys.executable, '-m', 'harness.props.c14', '--child', path, str(run.seed * 10 + n)],
                                          cwd=core.VERIF, env=env, stdout=subprocess.PIPE, stderr=subprocess.PIPE,
                                          universal_newlines=True))
        results = []
        for proc in procs:
            out, err = proc.communicate(timeout=600)
            if proc.returncode != 0:
                run.notes.append('hash-seed child failed: ' + err[-500:])
                return
            results.append([line.split(' ') for line in out.strip().split('\n')])
    for i, case in enumerate(cases):
        rows = {tuple(r[i][1:]) for r in results}
        if len(rows) > 1:
            run.finding('process-dependent', 'output differs between processes (PYTHONHASHSEED {} / serialisation order) for {}'.format(
                HASH_SEEDS, json.dumps(case)[:300]), dict(case, cross_process=True))
    run.count('cross_process', 'cases x processes', len(cases) * len(HASH_SEEDS))


# ----------------------------------------------------------------------------------------------------------------
# entry points
# ----------------------------------------------------------------------------------------------------------------

def all_cases(run):
    cases = []
    for cls, data in corpus.harvest():
        cases.append({'kind': 'corpus', 'cls': corpus.class_path(cls), 'hex': data.hex()})
    for name in library_objects():
        cases.append({'kind': 'library', 'name': name})
    for name in x509_objects():
        cases.append({'kind': 'x509', 'name': name})
    if 'x509-error' in _MEMO:
        run.notes.append('x509 report objects could not be built: ' + _MEMO['x509-error'])
    for name in constructed_objects():
        case = {'kind': 'built', 'name': name}
        if name in ('mixed-keys', 'floats-nonfinite'):
            # mixed-keys: the point KeysOrderable excludes, both sides must raise TypeError; non-finite floats: json.dumps
            # itself emits NaN/Infinity.  No library class produces either; only the correspondence is checked.
            case['excluded'] = True
        cases.append(case)
    return cases


def enum_cases(run, per_class):
    """members of every enumeration reachable from the library's modules"""
    import importlib
    import inspect
    import pkgutil
    import cryptoparser
    seen = {}
    for info in pkgutil.walk_packages(cryptoparser.__path__, 'cryptoparser.'):
        module = importlib.import_module(info.name)
        for attr_name, cls in sorted(vars(module).items()):
            if inspect.isclass(cls) and issubclass(cls, enum.Enum) and cls not in seen and list(cls) and \
                    cls.__module__.startswith(('cryptoparser', 'cryptodatahub')):
                seen[cls] = info.name + ':' + attr_name          # where it can be looked up again
    cases = []
    for cls, path in sorted(seen.items(), key=lambda item: item[1]):
        members = list(cls)
        picked = members if per_class is None or len(members) <= per_class else run.rng.sample(members, per_class)
        for member in picked:
            cases.append({'kind': 'enum-member', 'enum': path, 'name': member.name})
    return cases


def run(run, driver_ok=True, deep=False):  # pylint: disable=redefined-outer-name
    cases = all_cases(run) + enum_cases(run, None)
    usable = []
    for case in cases:
        term = term_of(case)
        if isinstance(term, Unsupported):
            run.count('outside_model_domain', str(term))
            run.evaluations += 1
            for key, message in check_object(case, build(case)):
                run.finding(key, message, case)
        else:
            usable.append(case)
            run.count('cases', case['kind'])
            run.count('term_chars', 'total', len(term))
    run.sample({'kind': 'built', 'name': 'containers-nested', 'term': term_of({'kind': 'built', 'name': 'containers-nested'})[:200]})
    if usable:
        run.sample(dict(usable[0]))
    if driver_ok:
        bad = core.correspond(run, TextOracle, usable)
        if bad is None:
            driver_ok = False
    if not driver_ok:
        for case in usable:
            run.evaluations += 1
            for key, message in check_object(case, build(case)):
                run.finding(key, message, case)
    docs = set()
    for case in usable:
        try:
            doc = impl_json(build(case))
        except Exception:  # pylint: disable=broad-except
            continue
        if doc[:1] in '{[' and doc not in docs:
            docs.add(doc)
            run.note_nontrivial(hashlib.sha256(doc.encode('utf-8', 'surrogatepass')).hexdigest()[:12])
    # equal sets, different insertion orders
    pairs = set_order_cases(run.rng, run.tier)
    for case in pairs:
        run.evaluations += 1
        for key, message in check_set_pair(case):
            run.finding(key, message, case)
    run.count('cases', 'set-order', len(pairs))
    # an encoder installed after a first serialisation is honoured: same text as in a fresh class state
    probe = [c for c in usable if c['kind'] in ('built', 'library')]
    corp_all = [c for c in usable if c['kind'] == 'corpus']
    probe += corp_all if run.tier != 'quick' else run.rng.sample(corp_all, min(len(corp_all), 150))
    for case in probe:
        obj = build(case)
        run.evaluations += 1
        try:
            fresh, after = check_encoder_effect(obj)
        except Exception:  # pylint: disable=broad-except
            continue                                        # a raising object: reported by check_object
        if fresh != after:
            run.finding('encoder-pinned-on-class',
                        'with the same encoder installed on Serializable, as_markdown() of the same object differs depending on '
                        'whether its class rendered Markdown before: {!r} vs {!r}'.format(fresh[:200], after[:200]),
                        dict(case, encoder_effect=True))
    run.count('cases', 'encoder-effect', len(probe))
    clear_pins()
    # the hypothesis of the set-order theorems on the objects explored
    for case in usable:
        try:
            run.count('distinct_keys', 'holds' if distinct_keys(build(case)) else 'fails (two elements of a set share a JSON document)')
        except Exception:  # pylint: disable=broad-except
            run.count('distinct_keys', 'not evaluated (raises)')
    # other processes: hash seeds and serialisation orders
    sample = [c for c in usable if c['kind'] != 'corpus'] + [c for c in cases if c['kind'] == 'x509']
    corp = [c for c in usable if c['kind'] == 'corpus']
    sample += corp if run.tier != 'quick' else run.rng.sample(corp, min(len(corp), 250))
    cross_process(run, sample + pairs)


def search(run, proof):  # pylint: disable=redefined-outer-name
    """deeper implementation-side search: every enum member, more set orders; first the disagreeing inputs themselves"""
    for case, _, _, _ in run.disagreements[:50]:
        for key, message in check_object(case, build(case)):
            run.finding(key, message, case)
    if run.violations:
        return
    for case in enum_cases(run, None):
        try:
            obj = build(case)
        except Exception:  # pylint: disable=broad-except
            continue
        for key, message in check_object(case, obj):
            run.finding(key, message, case)
    for case in set_order_cases(run.rng, 'thorough'):
        for key, message in check_set_pair(case):
            run.finding(key, message, case)
    run.notes.append('failing-input search: corpus, every enum member and 80 set orders per flag family checked on the implementation')


def replay(case):
    if case.get('kind') == 'set-order':
        return check_set_pair(case)
    if case.get('cross_process'):
        r = core.Run('C14', 'quick', 0)
        cross_process(r, [{k: v for k, v in case.items() if k != 'cross_process'}])
        return [(k, m) for k, m, _ in r.violations] + [(k, v[2]) for k, v in r.known_hits.items()]
    obj = build(case)
    out = check_object(case, obj)
    if case.get('encoder_effect'):
        fresh, after = check_encoder_effect(obj)
        if fresh != after:
            out.append(('encoder-pinned-on-class', 'as_markdown() under the same installed encoder: {!r} vs {!r}'.format(fresh[:200], after[:200])))
    return out


if __name__ == '__main__':
    if len(sys.argv) > 1 and sys.argv[1] == '--child':
        import warnings
        warnings.simplefilter('ignore')
        sys.exit(child_main(sys.argv[2:]))
