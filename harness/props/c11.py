# -*- coding: utf-8 -*-
"""C11 — integer, flag, mpint and timestamp primitives are exact and never truncate."""
from __future__ import print_function

import calendar
import datetime
import json
import os
import subprocess
import sys

from harness import core
from harness.core import hx, outcome

LEAN_MODULES = ['CpProps.C11', 'CpProps.C11b']
RULE = ('fixed-width integers: every value 0..2^16-1 for widths 1-2 and boundary/seeded values (in range and out of '
        'range, negative) for widths 3,4,8 under all four byte orders; flags: seeded subsets of every flag enumeration '
        'used with parse_numeric_flags; mpints: integers up to 4096 bits of both signs with bit lengths 8k-1,8k,8k+1 and the '
        'ends of the k-byte two\'s complement range (-2^(8k-1) and 2^(8k-1)-1, each with both neighbours, k=1..40 and 17 '
        'larger k), each composed (must be the SHORTEST two\'s complement, checked against int.to_bytes(signed=True) and '
        'against the RFC 4251 rules on the bytes), parsed from the canonical and from a non-canonical encoding, and '
        'composed at fixed lengths around the minimal one; '
        'timestamps: boundary and seeded instants - in 8-byte fields also beyond 32 bits (2^32, 2200-01-01, the last second '
        'of a datetime 253402300799 and the values after it, which must be refused), seconds and milliseconds - run in '
        'child processes under a list of TZ settings. A case is '
        'non-trivial when its value is not 0 and distinct when (op, parameters, value) differs.')
ASSUMPTIONS = [
    'NATIVE byte order is little-endian on the machine running the check (x86-64)',
    'datetime <-> epoch calendar arithmetic (calendar.timegm, datetime.fromtimestamp) is CPython\'s and is not modelled',
]
BOS = ['native', 'little', 'big', 'network']
SIZES = [1, 2, 3, 4, 8]


def _bo(name):
    from cryptoparser.common.parse import ByteOrder
    return {'native': ByteOrder.NATIVE, 'little': ByteOrder.LITTLE_ENDIAN, 'big': ByteOrder.BIG_ENDIAN,
            'network': ByteOrder.NETWORK}[name]


def _spec_bytes(bo, k, v):
    return v.to_bytes(k, 'big' if bo in ('big', 'network') else 'little')


# ------------------------------------------------------------------------------------------------
# numeric
# ------------------------------------------------------------------------------------------------

class NumOracle(object):
    """case: {'kind':'num','bo':..,'k':..,'vals':[...], 'suffix': hex}"""

    @staticmethod
    def lines(case):
        out = []
        for v in case['vals']:
            out.append('CN {} {} {}'.format(case['bo'], case['k'], v))
            if 0 <= v < 256 ** case['k']:
                out.append('PN {} {} {}{}'.format(case['bo'], case['k'], hx(_spec_bytes(case['bo'], case['k'], v)),
                                                 case['suffix'] if case['suffix'] != '-' else ''))
        return out

    @staticmethod
    def _compose(bo, k, v):
        from cryptoparser.common.parse import ComposerBinary

        def fn():
            c = ComposerBinary(byte_order=_bo(bo))
            c.compose_numeric(v, k)
            return bytes(c.composed)
        return outcome(fn, lambda b: 'OK ' + hx(b))

    @staticmethod
    def _parse(bo, k, data):
        from cryptoparser.common.parse import ParserBinary

        def fn():
            p = ParserBinary(data, byte_order=_bo(bo))
            p.parse_numeric('v', k)
            return p.parsed_length, p['v']
        return outcome(fn, lambda r: 'OK {} {}'.format(r[0], r[1]))

    @classmethod
    def impl(cls, case):
        out = []
        sfx = core.unhx(case['suffix'])
        for v in case['vals']:
            out.append(cls._compose(case['bo'], case['k'], v))
            if 0 <= v < 256 ** case['k']:
                out.append(cls._parse(case['bo'], case['k'], _spec_bytes(case['bo'], case['k'], v) + sfx))
        return out

    @classmethod
    def prop(cls, case):
        """The property on the real code: exact radix-256 bytes and round trip in range; InvalidValue otherwise."""
        bad = []
        bo, k = case['bo'], case['k']
        sfx = core.unhx(case['suffix'])
        for v in case['vals']:
            got = cls._compose(bo, k, v)
            if 0 <= v < 256 ** k:
                want = 'OK ' + hx(_spec_bytes(bo, k, v))
                if got != want:
                    bad.append(('num-compose', 'compose_numeric({}, {}) byte order {}: {} expected {}'.format(v, k, bo, got, want)))
                    continue
                back = cls._parse(bo, k, _spec_bytes(bo, k, v) + sfx)
                if back != 'OK {} {}'.format(k, v):
                    bad.append(('num-parse', 'parse_numeric({}) of {} byte order {}: {} expected value {}'.format(
                        k, hx(_spec_bytes(bo, k, v) + sfx), bo, back, v)))
            elif got != 'ERR InvalidValue':
                bad.append(('num-range', 'compose_numeric({}, {}) byte order {} does not fit but gave {}'.format(v, k, bo, got)))
        return bad


def num_cases(rng, tier):
    cases = []
    for bo in BOS:
        for k in (1, 2):
            space = 256 ** k
            vals = list(range(space))
            for lo in range(0, space, 4096):
                cases.append({'kind': 'num', 'bo': bo, 'k': k, 'vals': vals[lo:lo + 4096],
                              'suffix': hx(bytes(rng.getrandbits(8) for _ in range(rng.randrange(3))))})
        for k in SIZES:
            space = 256 ** k
            vals = set()
            for e in range(0, 8 * k + 9):
                for d in (-1, 0, 1):
                    vals.add(2 ** e + d)
            for e in range(1, k + 2):
                for d in (-2, -1, 0, 1):
                    vals.add(256 ** e + d)
            vals.update([-1, -2, -256, -space, space, space + 1, 2 * space, 2 ** 64, 2 ** 64 - 1, 2 ** 64 + 1, 2 ** 70])
            n = 300 if tier == 'quick' else 20000
            for _ in range(n):
                vals.add(rng.randrange(space))
                vals.add(rng.randrange(space, 4 * space + 5))
            cases.append({'kind': 'num', 'bo': bo, 'k': k, 'vals': sorted(vals), 'suffix': hx(b'\xaa\x55')})
    return cases


def num3_exhaustive_cases():
    """thorough: all 2^24 three-byte values, both byte-order families."""
    cases = []
    for bo in ('big', 'little'):
        for lo in range(0, 2 ** 24, 65536):
            cases.append({'kind': 'num', 'bo': bo, 'k': 3, 'vals': list(range(lo, lo + 65536)), 'suffix': '-'})
    return cases


# ------------------------------------------------------------------------------------------------
# flags
# ------------------------------------------------------------------------------------------------

def flag_classes():
    from cryptoparser.tls.mysql import MySQLCapability, MySQLStatusFlag
    from cryptoparser.tls.rdp import RDPProtocol, RDPNegotiationRequestFlags, RDPNegotiationResponseFlags
    from cryptoparser.dnsrec.record import DnsSecFlag
    return {
        'MySQLCapability': (MySQLCapability, [(2, 0), (2, 16), (4, 0)]),
        'MySQLStatusFlag': (MySQLStatusFlag, [(2, 0)]),
        'DnsSecFlag': (DnsSecFlag, [(2, 0)]),
        'RDPProtocol': (RDPProtocol, [(4, 0)]),
        'RDPNegotiationRequestFlags': (RDPNegotiationRequestFlags, [(1, 0)]),
        'RDPNegotiationResponseFlags': (RDPNegotiationResponseFlags, [(1, 0)]),
    }


class FlagOracle(object):
    """case: {'kind':'flags','cls':name,'k':..,'shift':..,'bo':..,'vals':[ints], 'raw': int or None}"""

    @staticmethod
    def _members(case):
        return [int(m) for m in flag_classes()[case['cls']][0]]

    @classmethod
    def lines(cls, case):
        members = ','.join(str(m) for m in cls._members(case))
        vals = ','.join(str(v) for v in case['vals']) or '-'
        out = ['CF {} {} {} {}'.format(case['bo'], case['k'], case['shift'], vals)]
        if case.get('raw') is not None:
            out.append('PF {} {} {} {} {}'.format(case['bo'], case['k'], case['shift'], members,
                                                 hx(_spec_bytes(case['bo'], case['k'], case['raw']))))
        return out

    @staticmethod
    def _compose(case):
        from cryptoparser.common.parse import ComposerBinary
        enum_class = flag_classes()[case['cls']][0]

        def fn():
            c = ComposerBinary(byte_order=_bo(case['bo']))
            c.compose_numeric_flags([enum_class(v) for v in case['vals']], case['k'], case['shift'])
            return bytes(c.composed)
        return outcome(fn, lambda b: 'OK ' + hx(b))

    @staticmethod
    def _parse(case, data):
        from cryptoparser.common.parse import ParserBinary
        enum_class = flag_classes()[case['cls']][0]

        def fn():
            p = ParserBinary(data, byte_order=_bo(case['bo']))
            p.parse_numeric_flags('f', case['k'], enum_class, case['shift'])
            order = [int(m) for m in enum_class]
            return p.parsed_length, sorted((int(v) for v in p['f']), key=order.index)
        return outcome(fn, lambda r: 'OK {} [{}]'.format(r[0], ','.join(str(v) for v in r[1])))

    @classmethod
    def impl(cls, case):
        out = [cls._compose(case)]
        if case.get('raw') is not None:
            out.append(cls._parse(case, _spec_bytes(case['bo'], case['k'], case['raw'])))
        return out

    @classmethod
    def prop(cls, case):
        """flag sets map to the OR of their members and back (members inside the field's window)."""
        bad = []
        k, shift = case['k'], case['shift']
        window = [v for v in case['vals'] if v != 0 and (v >> shift) << shift == v and (v >> shift) < 256 ** k]
        if case.get('roundtrip') and sorted(window) == sorted(case['vals']):
            expect = 0
            for v in window:
                expect |= v >> shift
            got = cls._compose(case)
            want = 'OK ' + hx(_spec_bytes(case['bo'], k, expect))
            if got != want:
                bad.append(('flags-compose', 'compose_numeric_flags {} -> {} expected {}'.format(case, got, want)))
            else:
                back = cls._parse(case, _spec_bytes(case['bo'], k, expect))
                order = cls._members(case)
                wantp = 'OK {} [{}]'.format(k, ','.join(str(v) for v in sorted(set(window), key=order.index)))
                if back != wantp:
                    bad.append(('flags-parse', 'parse_numeric_flags of composed {} -> {} expected {}'.format(case, back, wantp)))
        return bad


def flag_cases(rng, tier):
    cases = []
    n = 40 if tier == 'quick' else 1500
    for name, (enum_class, uses) in sorted(flag_classes().items()):
        members = [int(m) for m in enum_class]
        for k, shift in uses:
            inwin = [m for m in members if m != 0 and (m >> shift) << shift == m and (m >> shift) < 256 ** k]
            for bo in BOS:
                for i in range(n):
                    subset = [m for m in inwin if rng.random() < (0.5 if i % 3 else 0.15)]
                    if i == 0:
                        subset = list(inwin)
                    if i == 1:
                        subset = []
                    cases.append({'kind': 'flags', 'cls': name, 'k': k, 'shift': shift, 'bo': bo, 'vals': subset,
                                  'raw': rng.randrange(256 ** k), 'roundtrip': True})
    return cases


# ------------------------------------------------------------------------------------------------
# mpint
# ------------------------------------------------------------------------------------------------

def _twos_minimal(v):
    """RFC 4251 mpint body: the SHORTEST two's complement, big-endian (nothing for zero).  Independent of the code under
    test: the first length int.to_bytes(signed=True) accepts."""
    if v == 0:
        return b''
    n = 1
    while True:
        try:
            return v.to_bytes(n, 'big', signed=True)
        except OverflowError:
            n += 1


def _shortest_defects(v, body):
    """A second, elementary reference for 'shortest two's complement of v' (RFC 4251 section 5), stated on the bytes
    themselves; returns the list of rules the body breaks."""
    out = []
    if int.from_bytes(body, 'big', signed=True) != v:
        out.append('the data bytes denote {}'.format(int.from_bytes(body, 'big', signed=True)))
    if v == 0 and body:
        out.append('zero must have no data bytes')
    if body and bool(body[0] & 0x80) != (v < 0):
        out.append('the top bit of the first byte is not the sign')
    if len(body) >= 2 and body[0] == 0x00 and body[1] < 0x80:
        out.append('unnecessary leading 00')
    if len(body) >= 2 and body[0] == 0xff and body[1] >= 0x80:
        out.append('unnecessary leading ff')
    length = len(body)
    if length and -(1 << (8 * (length - 1))) <= 2 * v < (1 << (8 * (length - 1))):
        out.append('{} fits {} byte(s)'.format(v, length - 1))
    if not -(1 << (8 * length)) <= 2 * v < (1 << (8 * length)):
        out.append('{} does not fit {} byte(s)'.format(v, length))
    return out


def _signed_fixed(v, length):
    """int.to_bytes(length, 'big', signed=True) or None when v is outside -2^(8*length-1) .. 2^(8*length-1)-1 (the range
    is tested explicitly: CPython returns b'' for (-1).to_bytes(0, signed=True))"""
    if not -(1 << (8 * length)) <= 2 * v < (1 << (8 * length)):
        return None
    return v.to_bytes(length, 'big', signed=True)


class MpintOracle(object):
    """case: {'kind':'mpint','vals':[ints], 'pad': extra length of the fixed-length form}"""

    @staticmethod
    def wire(v):
        body = _twos_minimal(v)
        return len(body).to_bytes(4, 'big') + body

    @staticmethod
    def noncanonical(v):
        """the mpint of v with 1-3 redundant sign bytes in front of the canonical data (accepted by parsers, never sent)"""
        body = (b'\xff' if v < 0 else b'\x00') * (1 + abs(v) % 3) + _twos_minimal(v)
        return len(body).to_bytes(4, 'big') + body

    @staticmethod
    def negative_lengths(v, pad):
        """fixed lengths tried for a negative v: the old over-estimate, the minimal signed length, one less, some more"""
        lmin = len(_twos_minimal(v))
        return [(v.bit_length() + 8) // 8] + sorted({lmin, lmin - 1, lmin + 1 + pad})

    @classmethod
    def ops(cls, case):
        """the operations of a case, in order: ('CS', v) ('PS', bytes) ('CM', length, v) ('PM', length, bytes)"""
        out = []
        for v in case['vals']:
            out.append(('CS', v))
            out.append(('PS', cls.wire(v) + b'\x7f'))
            out.append(('PS', cls.noncanonical(v) + b'\x5a'))
            if v >= 0:
                length = max(1, (v.bit_length() + 7) // 8) + case['pad']
                out.append(('CM', length, v))
                out.append(('PM', length, v.to_bytes(length, 'big') + b'\x01'))
                for small in cls.small_lengths(v):
                    out.append(('CM', small, v))
            else:
                for length in cls.negative_lengths(v, case['pad']):
                    out.append(('CM', length, v))
        return out

    @classmethod
    def lines(cls, case):
        out = []
        for op in cls.ops(case):
            if op[0] == 'CS':
                out.append('CS {}'.format(op[1]))
            elif op[0] == 'PS':
                out.append('PS {}'.format(hx(op[1])))
            elif op[0] == 'CM':
                out.append('CM {} {}'.format(op[1], op[2]))
            else:
                out.append('PM {} {}'.format(op[1], hx(op[2])))
        return out

    @staticmethod
    def small_lengths(v):
        nbytes = max(1, (v.bit_length() + 7) // 8)
        return sorted({x for x in (1, nbytes // 4, nbytes // 8, nbytes - 1) if 1 <= x < nbytes})

    @staticmethod
    def _cs(v):
        from cryptoparser.common.parse import ComposerBinary

        def fn():
            c = ComposerBinary()
            c.compose_ssh_mpint(v)
            return bytes(c.composed)
        return outcome(fn, lambda b: 'OK ' + hx(b))

    @staticmethod
    def _ps(data):
        from cryptoparser.common.parse import ParserBinary

        def fn():
            p = ParserBinary(data)
            p.parse_ssh_mpint('v')
            return p.parsed_length, p['v']
        return outcome(fn, lambda r: 'OK {} {}'.format(r[0], r[1]))

    @staticmethod
    def _cm(v, length):
        from cryptoparser.common.parse import ComposerBinary

        def fn():
            c = ComposerBinary()
            c.compose_mpint(v, length)
            return bytes(c.composed)
        return outcome(fn, lambda b: 'OK ' + hx(b))

    @staticmethod
    def _pm(data, length):
        from cryptoparser.common.parse import ParserBinary

        def fn():
            p = ParserBinary(data)
            p.parse_mpint('v', length)
            return p.parsed_length, p['v']
        return outcome(fn, lambda r: 'OK {} {}'.format(r[0], r[1]))

    @classmethod
    def impl(cls, case):
        out = []
        for op in cls.ops(case):
            if op[0] == 'CS':
                out.append(cls._cs(op[1]))
            elif op[0] == 'PS':
                out.append(cls._ps(op[1]))
            elif op[0] == 'CM':
                out.append(cls._cm(op[2], op[1]))
            else:
                out.append(cls._pm(op[2], op[1]))
        return out

    @classmethod
    def prop(cls, case):
        bad = []
        for v in case['vals']:
            wire = cls.wire(v)
            got = cls._cs(v)
            # the composed form of EVERY integer, negative ones included, is the canonical one: the shortest two's
            # complement (reference 1: int.to_bytes(signed=True) at the first length it accepts)
            if got != 'OK ' + hx(wire):
                bad.append(('sshmpint-minimal', 'compose_ssh_mpint({}) = {} expected the shortest two\'s complement {} '
                            '(RFC 4251 section 5: no unnecessary leading 00/ff)'.format(v, got, hx(wire))))
                continue
            composed = core.unhx(got[3:])
            # reference 2: the rules of RFC 4251 section 5 on the bytes themselves
            defects = _shortest_defects(v, composed[4:])
            if defects or int.from_bytes(composed[:4], 'big') != len(composed) - 4:
                bad.append(('sshmpint-minimal', 'compose_ssh_mpint({}) = {}: {}'.format(
                    v, got, '; '.join(defects) or 'wrong length field')))
                continue
            back = cls._ps(composed + b'\x99')
            if back != 'OK {} {}'.format(len(composed), v):
                bad.append(('sshmpint-roundtrip', 'parse_ssh_mpint(compose_ssh_mpint({})) = {}'.format(v, back)))
            back = cls._ps(wire + b'\x7f')
            if back != 'OK {} {}'.format(len(wire), v):
                bad.append(('sshmpint-parse', 'parse_ssh_mpint of canonical {} = {} expected {}'.format(hx(wire), back, v)))
            # a non-canonical encoding (redundant sign bytes) is read as the same integer, which re-composes to the
            # canonical form (checked above), i.e. to something shorter than what was read
            loose = cls.noncanonical(v)
            back = cls._ps(loose + b'\x5a')
            if back != 'OK {} {}'.format(len(loose), v):
                bad.append(('sshmpint-parse-noncanonical', 'parse_ssh_mpint of {} = {} expected {} {}'.format(
                    hx(loose), back, len(loose), v)))
            if v >= 0:
                length = max(1, (v.bit_length() + 7) // 8) + case['pad']
                want = v.to_bytes(length, 'big')
                got = cls._cm(v, length)
                if got != 'OK ' + hx(want):
                    bad.append(('mpint-compose', 'compose_mpint({}, {}) = {} expected {}'.format(v, length, got, hx(want))))
                back = cls._pm(want + b'\x01', length)
                if back != 'OK {} {}'.format(length, v):
                    bad.append(('mpint-parse', 'parse_mpint({}) of {} = {}'.format(length, hx(want), back)))
                for small in cls.small_lengths(v):
                    if cls._cm(v, small) != 'ERR InvalidValue':
                        bad.append(('mpint-range', 'compose_mpint({}, {}) does not fit but gave {}'.format(
                            v, small, cls._cm(v, small))))
            else:
                for length in cls.negative_lengths(v, case['pad']):
                    got = cls._cm(v, length)
                    # a negative value is written as its two's complement in `length` bytes when
                    # -2^(8*length-1) <= v (the boundary included), and refused otherwise - never truncated
                    want = _signed_fixed(v, length)
                    expect = 'ERR InvalidValue' if want is None else 'OK ' + hx(want)
                    if got != expect:
                        bad.append(('mpint-compose-negative', 'compose_mpint({}, {}) = {} expected {}'.format(
                            v, length, got, expect)))
                        continue
                    if got.startswith('OK '):
                        back = cls._pm(core.unhx(got[3:]), length)
                        if back != 'OK {} {}'.format(length, v):
                            bad.append(('mpint-fixed-negative', 'compose_mpint({}, {}) = {} parses back as {}'.format(
                                v, length, got, back)))
        return bad


MPINT_BOUNDARY_KS = list(range(1, 41)) + [48, 64, 96, 100, 127, 128, 129, 200, 255, 256, 257, 300, 384, 400, 500, 511, 512]


def mpint_boundary_values():
    """the ends of the k-byte two's complement range and their neighbours: the most negative k-byte value -2^(8k-1)
    must take k bytes (not k+1), one below it k+1 bytes; likewise 2^(8k-1)-1 (k bytes) and 2^(8k-1) (k+1 bytes)"""
    vals = set()
    for k in MPINT_BOUNDARY_KS:
        edge = 1 << (8 * k - 1)
        vals.update([-edge, -edge - 1, -edge + 1, edge - 1, edge, edge + 1, -(edge << 1), -(edge << 1) + 1, -(edge >> 1) if k > 1 else -1])
    return vals


def mpint_cases(rng, tier):
    vals = set([0, 1, -1, 127, 128, 255, 256, -127, -128, -129, -255, -256, -257, -32768, 32767, 32768, 0x9a378f9b2e332a7,
                -0xdeadbeef, -0x1234, -32769, -32767, -8388608, -8388609, -2147483648, -2147483649])
    vals.update(mpint_boundary_values())
    maxbits = 4096
    ks = list(range(1, 40)) + [64, 128, 255, 256, 257, 511, 512]
    if tier != 'quick':
        ks = list(range(1, maxbits // 8 + 1))
    for k in ks:
        for bits in (8 * k - 1, 8 * k, 8 * k + 1):
            if bits <= 0:
                continue
            vals.add(2 ** bits)
            vals.add(2 ** bits - 1)
            vals.add(-(2 ** bits))
            vals.add(-(2 ** bits) - 1)
            vals.add(-(2 ** bits) + 1)
            r = rng.getrandbits(bits) | (1 << (bits - 1))
            vals.add(r)
            vals.add(-r)
    n = 300 if tier == 'quick' else 5000
    for _ in range(n):
        bits = rng.randrange(1, maxbits)
        r = rng.getrandbits(bits)
        vals.add(r)
        vals.add(-r)
    # boundary values first (smallest magnitude first), so that a fault at -2^(8k-1) is reported on -128
    vals = sorted(vals, key=lambda x: (abs(x), x))
    cases = []
    for i in range(0, len(vals), 200):
        cases.append({'kind': 'mpint', 'vals': vals[i:i + 200], 'pad': (i // 200) % 4})
    return cases


# ------------------------------------------------------------------------------------------------
# timestamps (run in child processes under TZ settings)
# ------------------------------------------------------------------------------------------------

EPOCH = datetime.datetime(1970, 1, 1, tzinfo=datetime.timezone.utc)
MAX_EPOCH_SECONDS = 253402300799        # 9999-12-31T23:59:59Z, the last whole second a datetime carries (Lean: maxEpochSeconds)


def _beyond(case):
    """the field value is an instant later than 9999-12-31T23:59:59(.999)Z: no datetime exists for it, so there is
    nothing to compose; the parser must refuse it (InvalidValue), never reduce it into range"""
    t = case['t']
    return t is not None and (t // 1000 if case['ms'] else t) > MAX_EPOCH_SECONDS


def _dt_of(t, ms, naive):
    import dateutil.tz
    secs = t // 1000 if ms else t
    dt = datetime.datetime.fromtimestamp(0, dateutil.tz.UTC) + datetime.timedelta(seconds=secs)
    if ms:
        dt += datetime.timedelta(milliseconds=t % 1000)
    if naive is True:
        dt = dt.replace(tzinfo=None)
    elif naive not in (False, None):
        # an aware datetime with a non-UTC fixed offset (minutes) denoting the SAME instant
        dt = dt.astimezone(datetime.timezone(datetime.timedelta(minutes=int(naive))))
    return dt


def _epoch_of(dt, ms):
    if dt is None:
        return '~'
    if dt.tzinfo is None:
        dt = dt.replace(tzinfo=datetime.timezone.utc)
    delta = dt - EPOCH
    if ms:
        return str(delta // datetime.timedelta(milliseconds=1))
    return str(delta // datetime.timedelta(seconds=1))


class TsOracle(object):
    """case: {'kind':'ts','bo','k','ms':0/1,'t': int or None,'naive':bool}"""

    @staticmethod
    def lines(case):
        t = '~' if case['t'] is None else str(case['t'])
        out = [] if _beyond(case) else ['CT {} {} {}'.format(case['bo'], case['k'], t)]
        raw = (256 ** case['k'] - 1) if case['t'] is None else case['t']
        if 0 <= raw < 256 ** case['k']:
            out.append('PT {} {} {} {}'.format(case['bo'], case['ms'], case['k'], hx(_spec_bytes(case['bo'], case['k'], raw) + b'\x00')))
        return out

    @staticmethod
    def _ct(case):
        from cryptoparser.common.parse import ComposerBinary

        def fn():
            c = ComposerBinary(byte_order=_bo(case['bo']))
            value = None if case['t'] is None else _dt_of(case['t'], case['ms'], case['naive'])
            c.compose_timestamp(value, milliseconds=bool(case['ms']), item_size=case['k'])
            return bytes(c.composed)
        return outcome(fn, lambda b: 'OK ' + hx(b))

    @staticmethod
    def _pt(case, data):
        from cryptoparser.common.parse import ParserBinary

        def fn():
            p = ParserBinary(data, byte_order=_bo(case['bo']))
            p.parse_timestamp('t', milliseconds=bool(case['ms']), item_size=case['k'])
            return p.parsed_length, p['t']
        return outcome(fn, lambda r: 'OK {} {}'.format(r[0], _epoch_of(r[1], case['ms'])))

    @classmethod
    def impl(cls, case):
        out = [] if _beyond(case) else [cls._ct(case)]
        raw = (256 ** case['k'] - 1) if case['t'] is None else case['t']
        if 0 <= raw < 256 ** case['k']:
            out.append(cls._pt(case, _spec_bytes(case['bo'], case['k'], raw) + b'\x00'))
        return out

    @classmethod
    def prop(cls, case):
        """same instant regardless of TZ: compose gives the epoch value, parse gives it back - for EVERY instant a
        datetime carries that fits the field (nothing is cut to 32 bits); a field value beyond 9999-12-31 is refused."""
        bad = []
        k = case['k']
        raw = (256 ** k - 1) if case['t'] is None else case['t']
        if not 0 <= raw < 256 ** k or (case['t'] is not None and case['t'] == 256 ** k - 1):
            return bad
        data = _spec_bytes(case['bo'], k, raw)
        if _beyond(case):
            back = cls._pt(case, data + b'\x00')
            if back != 'ERR InvalidValue':
                bad.append(('ts-parse', 'parse_timestamp TZ={} {} ({}) -> {} expected ERR InvalidValue (later than '
                            '9999-12-31T23:59:59Z)'.format(os.environ.get('TZ'), case, hx(data), back)))
            return bad
        got = cls._ct(case)
        want = 'OK ' + hx(data)
        if got != want:
            bad.append(('ts-compose', 'compose_timestamp TZ={} {} -> {} expected {}'.format(
                os.environ.get('TZ'), case, got, want)))
        back = cls._pt(case, data + b'\x00')
        wantp = 'OK {} {}'.format(k, '~' if case['t'] is None else case['t'])
        if back != wantp:
            bad.append(('ts-parse', 'parse_timestamp TZ={} {} ({}) -> {} expected {}'.format(
                os.environ.get('TZ'), case, hx(data), back, wantp)))
        return bad


QUICK_ZONES = ['UTC', 'Europe/Moscow', 'America/Caracas', 'Australia/Lord_Howe', 'America/New_York', 'Asia/Kolkata',
               'Pacific/Apia', 'Europe/London', 'Asia/Pyongyang', 'Etc/GMT+12', 'Etc/GMT-14', 'Africa/Casablanca']


def all_zones():
    zones = []
    root = '/usr/share/zoneinfo'
    for dirpath, _, files in os.walk(root):
        rel = os.path.relpath(dirpath, root)
        if rel.split(os.sep)[0] in ('posix', 'right'):
            continue
        for name in files:
            path = os.path.join(dirpath, name)
            try:
                with open(path, 'rb') as f:
                    if f.read(4) != b'TZif':
                        continue
            except IOError:
                continue
            zones.append(name if rel == '.' else os.path.join(rel, name))
    return sorted(zones)


# second counts an 8-byte field holds beyond 32 bits: 2106-02-07, 2200-01-01, the last second of a datetime, the first
# one after it, and values far outside (2^64-1 is the sentinel, covered by t=None)
WIDE_SECONDS = [2 ** 32, 2 ** 32 + 5, 7258118400, MAX_EPOCH_SECONDS - 1, MAX_EPOCH_SECONDS, MAX_EPOCH_SECONDS + 1,
                2 ** 63, 2 ** 64 - 2]
OFFSETS = [True, False, 60, -300, 330, 765, -720]


def _offset_for(rng, secs):
    """how the datetime handed to compose is written: naive, UTC, or the same instant at a fixed offset; at the very
    end of the calendar only offsets that stay inside it"""
    if secs > MAX_EPOCH_SECONDS - 2 * 86400:
        return rng.choice([True, False, -300, -720])
    return rng.choice(OFFSETS)


def wide_ts_cases(rng, n_random):
    """8-byte fields holding more than 32 bits, seconds and milliseconds; below the bound an exact round trip is
    expected, above it InvalidValue"""
    cases = []
    secs = list(WIDE_SECONDS)
    for _ in range(n_random):
        secs.append(rng.randrange(2 ** 32, MAX_EPOCH_SECONDS + 1))
    for _ in range(max(2, n_random // 8)):
        secs.append(rng.randrange(MAX_EPOCH_SECONDS + 1, 2 ** 64 - 1))
    for t in secs:
        cases.append({'kind': 'ts', 'bo': rng.choice(BOS), 'k': 8, 'ms': 0, 't': t, 'naive': _offset_for(rng, t)})
        for frac in (0, 7, 999):
            if t * 1000 + frac < 2 ** 64 - 1:
                cases.append({'kind': 'ts', 'bo': rng.choice(BOS), 'k': 8, 'ms': 1, 't': t * 1000 + frac,
                              'naive': _offset_for(rng, t)})
    for raw in (2 ** 63, 2 ** 64 - 2, (MAX_EPOCH_SECONDS + 1) * 1000 - 1, (MAX_EPOCH_SECONDS + 1) * 1000):
        cases.append({'kind': 'ts', 'bo': rng.choice(BOS), 'k': 8, 'ms': 1, 't': raw, 'naive': False})
    return cases


def ts_cases(rng, tier):
    instants = [0, 1, 86399, 86400, 1400000000, 1414281599, 1414281600, 1193875200, 733276800, 354931200,
                2 ** 31 - 1, 2 ** 31, 2 ** 32 - 2, 1711846800, 1711850400, 1729994400, 1698541200, 1301788800,
                1325239200, 1430438400]
    for _ in range(40 if tier == 'quick' else 400):
        instants.append(rng.randrange(0, 2 ** 32 - 1))
    cases = []
    for t in instants:
        for k, ms in ((8, 0), (4, 0), (8, 1)):
            bo = rng.choice(BOS) if k != 4 else 'network'
            tt = t * 1000 + rng.randrange(1000) if ms else t
            cases.append({'kind': 'ts', 'bo': bo, 'k': k, 'ms': ms, 't': tt,
                          'naive': rng.choice(OFFSETS)})
    # the wide values come first among the 8-byte cases, so that a fault there is reported on 2^32 / 7258118400
    cases = wide_ts_cases(rng, 10 if tier == 'quick' else 100) + cases
    for k, ms in ((8, 0), (4, 0), (8, 1)):
        for bo in BOS:
            cases.append({'kind': 'ts', 'bo': bo, 'k': k, 'ms': ms, 't': None, 'naive': False})
    return cases


ORACLES = {'num': NumOracle, 'flags': FlagOracle, 'mpint': MpintOracle, 'ts': TsOracle}



class Dispatch(object):
    @staticmethod
    def lines(case):
        return ORACLES[case['kind']].lines(case)

    @staticmethod
    def impl(case):
        return ORACLES[case['kind']].impl(case)

    @staticmethod
    def prop(case):
        return ORACLES[case['kind']].prop(case)


class ClassTsOracle(object):
    """case {'kind':'cls-ts','cls':name,'data':hex}: a class that carries a wire time (hello random), run under TZ"""

    @staticmethod
    def lines(case):
        return ['R {} {}'.format(case['cls'], case['data'])]

    @staticmethod
    def impl(case):
        from harness import clsops
        return [clsops.impl_lines(case['cls'], core.unhx(case['data']))[0]]

    @staticmethod
    def prop(case):
        from harness import clsops
        cls = clsops.modelled()[case['cls']][0]
        data = core.unhx(case['data'])
        try:
            obj = cls.parse_exact_size(data)
            again = bytes(obj.compose())
        except Exception as exc:  # pylint: disable=broad-except
            return [('ts-class:' + case['cls'], 'TZ={} {}: parse/compose of {} raised {}'.format(
                os.environ.get('TZ'), case['cls'], case['data'][:60], core.err_line(exc)))]
        if again != data:
            return [('ts-class:' + case['cls'], 'TZ={} {}: the wire time does not survive parse/compose: {} -> {}'.format(
                os.environ.get('TZ'), case['cls'], case['data'][:24], hx(again)[:24]))]
        import calendar
        rnd = getattr(obj, 'random', None) or getattr(obj, 'random_bytes', None)
        wire = int.from_bytes(data[6:10], 'big')
        if rnd is not None and calendar.timegm(rnd.time.utctimetuple()) != wire:
            return [('ts-class:' + case['cls'], 'TZ={} {}: parsed time {} is not the wire instant {}'.format(
                os.environ.get('TZ'), case['cls'], rnd.time, wire))]
        return []


def tz_child_main():
    """child process: read cases as JSON lines, print {'impl': [...], 'prop': [...]} per case."""
    for line in sys.stdin:
        case = json.loads(line)
        oracle = ClassTsOracle if case['kind'] == 'cls-ts' else TsOracle
        print(json.dumps({'impl': oracle.impl(case), 'prop': oracle.prop(case)}))


def run_ts_under_zones(run, cases, zones, driver_ok):
    model = None
    lines = []
    spans = []
    for case in cases:
        ls = (ClassTsOracle if case['kind'] == 'cls-ts' else TsOracle).lines(case)
        spans.append((len(lines), len(ls)))
        lines.extend(ls)
    if driver_ok:
        model = core.run_driver(lines)
    payload = '\n'.join(json.dumps(c) for c in cases) + '\n'
    procs = []
    env_base = dict(os.environ)
    env_base['PYTHONPATH'] = core.VERIF + os.pathsep + env_base.get('PYTHONPATH', '')
    pending = list(zones)
    results = {}
    while pending or procs:
        while pending and len(procs) < 16:
            tz = pending.pop(0)
            env = dict(env_base)
            env['TZ'] = tz
            p = subprocess.Popen(['/venv/bin/python', '-W', 'ignore', '-c', 'from harness.props import c11; c11.tz_child_main()'],
                                 stdin=subprocess.PIPE, stdout=subprocess.PIPE, stderr=subprocess.PIPE,
                                 universal_newlines=True, env=env, cwd=core.VERIF)
            procs.append((tz, p))
        tz, p = procs.pop(0)
        out, err = p.communicate(payload)
        if p.returncode != 0:
            raise RuntimeError('tz child {} failed: {}'.format(tz, err[-1000:]))
        results[tz] = [json.loads(l) for l in out.strip().split('\n')]
    for tz in zones:
        run.count('zones', tz, len(cases))
        for case, (start, n), res in zip(cases, spans, results[tz]):
            run.evaluations += 1
            tagged = dict(case)
            tagged['TZ'] = tz
            for key, message in res['prop']:
                run.finding(key, message, tagged)
            if model is not None:
                for i, (m, r) in enumerate(zip(model[start:start + n], res['impl'])):
                    if m != r:
                        run.disagreements.append((tagged, i, m, r))
                        break


def run(run, driver_ok=True, deep=False):
    tier = 'thorough' if deep else run.tier
    rng = run.rng
    cases = num_cases(rng, tier) + flag_cases(rng, tier) + mpint_cases(rng, tier)
    if tier == 'thorough':
        cases += num3_exhaustive_cases()
    for case in cases:
        run.count('ops', case['kind'])
        if case['kind'] == 'num':
            run.count('num_width', str(case['k']), len(case['vals']))
            for v in case['vals'][:3] + case['vals'][-3:]:
                if v:
                    run.note_nontrivial(('num', case['bo'], case['k'], v))
            run.nontrivial_bulk = getattr(run, 'nontrivial_bulk', 0) + max(0, len(case['vals']) - 6)
        elif case['kind'] == 'flags':
            if case['vals']:
                run.note_nontrivial(('flags', case['cls'], case['k'], case['shift'], case['bo'], tuple(case['vals'])))
        else:
            for v in case['vals']:
                if v:
                    run.note_nontrivial(('mpint', v))
    run.sample({'kind': 'num', 'bo': 'big', 'k': 3, 'vals': [16777215, 16777216]})
    run.sample(cases[-1] if cases[-1]['kind'] != 'num' else {'kind': 'mpint', 'vals': [-32768], 'pad': 0})
    for c in cases:
        if c['kind'] == 'flags' and c['vals']:
            run.sample(c)
            break
    if driver_ok:
        core.correspond(run, Dispatch, cases)
    else:
        for case in cases:
            run.evaluations += 1
            for key, message in Dispatch.prop(case):
                run.finding(key, message, case)
    # a large sample of instants in the current process (faults that do not depend on the zone, e.g. rounding)
    dense = []
    for _ in range(4000 if tier == 'quick' else 200000):
        t = rng.randrange(0, 2 ** 32 - 1)
        ms = rng.random() < 0.6
        dense.append({'kind': 'ts', 'bo': rng.choice(BOS), 'k': 8 if ms else rng.choice([4, 8]), 'ms': int(ms),
                      't': t * 1000 + rng.randrange(1000) if ms else t,
                      'naive': rng.choice([True, False, 60, -300, 330, 765, -720])})
        if dense[-1]['k'] == 4:
            dense[-1]['bo'] = rng.choice(BOS)
    dense = wide_ts_cases(rng, 400 if tier == 'quick' else 20000) + dense
    for c in dense[:50]:
        run.note_nontrivial(('ts', c['k'], c['ms'], c['t']))
    run.count('ops', 'ts-dense', len(dense))
    if driver_ok:
        core.correspond(run, Dispatch, dense)
    else:
        for case in dense:
            run.evaluations += 1
            for key, message in Dispatch.prop(case):
                run.finding(key, message, case)
    tcases = ts_cases(rng, tier)
    zones = QUICK_ZONES if tier == 'quick' else all_zones()
    for c in tcases:
        if c.get('t'):
            run.note_nontrivial(('ts', c['k'], c['ms'], c['t']))
    run.sample(dict(tcases[5], TZ='Europe/Moscow'))
    run.sample(dict(tcases[8], TZ='Asia/Kolkata'))
    # classes that carry a wire time: hello messages (4-byte gmt_unix_time), under the same zones
    from harness import gen_tls
    for i in range(12 if tier == 'quick' else 60):
        h = gen_tls.server_hello(rng) if i % 2 else gen_tls.client_hello(rng)
        tcases.append({'kind': 'cls-ts', 'cls': type(h).__name__, 'data': hx(bytes(h.compose()))})
    run_ts_under_zones(run, tcases, zones, driver_ok)
    run.notes.append('zones covered: {}'.format(len(zones)))
    run.notes.append('numeric values evaluated individually inside bulk cases: {}'.format(
        sum(len(c['vals']) for c in cases if c['kind'] == 'num')))


def search(run, proof):
    if run.tier != 'thorough':
        run.disagreements_before_search = len(run.disagreements)
        sub = core.Run(run.prop, 'thorough', run.seed + 1)
        sub.kf = run.kf
        globals()['run'](sub, driver_ok=False, deep=True)
        run.violations.extend(sub.violations)
        run.evaluations += sub.evaluations
        run.notes.append('failing-input search: thorough-tier implementation oracle, {} cases'.format(sub.evaluations))


def replay(case):
    """what a recorded failing input reproduces now; hits of known findings (e.g. the fixed-length sign, which every
    negative value of an mpint case shows) are not what a replay file was recorded for and are left out"""
    known = core.KnownFindings()
    return [(key, message) for key, message in _replay(case) if known.lookup('C11', key) is None]


def _replay(case):
    tz = case.pop('TZ', None)
    if tz:
        env = dict(os.environ)
        env['TZ'] = tz
        env['PYTHONPATH'] = core.VERIF
        p = subprocess.run(['/venv/bin/python', '-W', 'ignore', '-c', 'from harness.props import c11; c11.tz_child_main()'],
                           input=json.dumps(case) + '\n', stdout=subprocess.PIPE, universal_newlines=True, env=env,
                           cwd=core.VERIF, check=True)
        return [tuple(x) for x in json.loads(p.stdout.strip())['prop']]
    return Dispatch.prop(case)
