# -*- coding: utf-8 -*-
"""C06 — SSL/TLS messages are laid out exactly as the RFCs specify.

The reference encoder below is written from the RFC presentation language (RFC 5246 §4-§7, RFC 8446
§4, RFC 6066, 7301, 7627, 7685, 7919, 8422, 8449, 8472, 8879, 5746, 5077, SSL 2.0 draft) and shares
nothing with the library: it reads plain attribute values of the generated objects and produces
bytes; the length-prefix width of every vector comes from the RFC ceiling written here."""
import calendar

from harness import core, clsrun, clsops, canon, gen_tls
from harness.core import hx

LEAN_MODULES = ['CpProps.C06', 'CpProps.C06Ssl2', 'CpProps.C06Ext']
RULE = ('generated TLS objects (records, alerts, CCS, all handshake messages of the library, every extension class of both '
        'variant lists incl. SNI/ALPN/ALPS/NPN/key_share (client, server, hello-retry)/status_request/token_binding/SCT list, '
        'SSL 2.0 records) are composed by the library and by an independent RFC-level encoder and the bytes compared; the '
        'reference encoding is then parsed by the library and must give back the original field values; the reference '
        'encoding of an extension is ALSO parsed through the variant of its side alone and inside an extension list of that '
        'side followed by another extension, and class and values must equal the original (a conformant extension must not '
        'be captured by another class of the variant walk); modelled classes additionally run through the Lean model (R '
        'ops). Non-trivial: object with at least one non-default field; distinct: composed bytes.')


def prefix_width(ceiling):
    w = 1
    while ceiling >= 256 ** w:
        w += 1
    return w


def u(n, v):
    return int(v).to_bytes(n, 'big')


def vec(ceiling, body):
    return u(prefix_width(ceiling), len(body)) + body


def code_of(item):
    return item.value.code


def enc_version(v):
    return u(2, v.version.value.code)


def enc_random(r):
    return u(4, calendar.timegm(r.time.utctimetuple())) + bytes(bytearray(r.random))


def enc_extension(e):
    """ExtensionType extension_type; opaque extension_data<0..2^16-1>;"""
    name = type(e).__name__
    t = e.extension_type.value.code
    if name == 'TlsExtensionUnparsed':
        body = bytes(e.extension_data)
    elif name in canon.UNUSED:
        body = b''
    elif name == 'TlsExtensionEllipticCurves':          # RFC 8422 5.1.1 NamedCurve named_curve_list<2..2^16-1>
        body = vec(2 ** 16 - 1, b''.join(u(2, code_of(i)) for i in e.elliptic_curves))
    elif name == 'TlsExtensionECPointFormats':          # ECPointFormat ec_point_format_list<1..2^8-1>
        body = vec(2 ** 8 - 1, b''.join(u(1, code_of(i)) for i in e.point_formats))
    elif name in ('TlsExtensionSignatureAlgorithms', 'TlsExtensionSignatureAlgorithmsCert', 'TlsExtensionDelegatedCredentials'):
        body = vec(2 ** 16 - 2, b''.join(u(2, code_of(i)) for i in e.hash_and_signature_algorithms))
    elif name == 'TlsExtensionPskKeyExchangeModes':     # RFC 8446 4.2.9 ke_modes<1..255>
        body = vec(255, b''.join(u(1, code_of(i)) for i in e.key_exchange_modes))
    elif name == 'TlsExtensionCompressCertificate':     # RFC 8879 algorithms<2..2^8-2>
        body = vec(2 ** 8 - 2, b''.join(u(2, code_of(i)) for i in e.compression_algorithms))
    elif name == 'TlsExtensionRenegotiationInfo':       # RFC 5746 renegotiated_connection<0..255>
        body = vec(255, bytes(bytearray(e.renegotiated_connection)))
    elif name == 'TlsExtensionSessionTicket':           # RFC 5077: the ticket is the extension_data
        body = bytes(e.session_ticket)
    elif name == 'TlsExtensionPadding':                 # RFC 7685: zero bytes
        body = b'\x00' * e.length
    elif name == 'TlsExtensionRecordSizeLimit':         # RFC 8449 uint16
        body = u(2, e.record_size_limit)
    elif name == 'TlsExtensionSupportedVersionsClient':  # RFC 8446 4.2.1 versions<2..254>
        items = []
        for v in e.supported_versions:
            items.append(enc_version(v) if hasattr(v, 'version') else u(2, code_of(v)))
        body = vec(254, b''.join(items))
    elif name == 'TlsExtensionSupportedVersionsServer':
        body = enc_version(e.selected_version)
    elif name == 'TlsExtensionServerNameClient':        # RFC 6066 3: ServerName server_name_list<1..2^16-1>
        host = e.host_name.encode('ascii')
        entry = u(1, int(e.name_type)) + vec(2 ** 16 - 1, host)
        body = vec(2 ** 16 - 1, entry)
    elif name in ('TlsExtensionApplicationLayerProtocolNegotiation', 'TlsExtensionApplicationLayerProtocolSettings'):
        names = b''.join(vec(255, p.value.code.encode('utf-8')) for p in e.protocol_names)   # RFC 7301 3.1
        body = vec(2 ** 16 - 1, names)
    elif name in ('TlsExtensionKeyShareClient', 'TlsExtensionKeyShareReservedClient'):   # RFC 8446 4.2.8
        # an entry of a group the library does not know keeps its key_exchange as opaque `data`
        shares = b''.join(u(2, code_of(s.group)) + vec(2 ** 16 - 1, bytes(bytearray(
            s.key_exchange if hasattr(s, 'key_exchange') else s.data))) for s in e.key_share_entries)
        body = vec(2 ** 16 - 1, shares)
    elif name == 'TlsExtensionCertificateStatusRequestClient':   # RFC 6066 8
        ids = b''.join(vec(2 ** 16 - 1, bytes(bytearray(r))) for r in e.responder_id_list)
        body = u(1, 1) + vec(2 ** 16 - 1, ids) + vec(2 ** 16 - 1, bytes(bytearray(e.request_extensions)))
    elif name == 'TlsExtensionTokenBinding':             # RFC 8472 2
        body = u(1, e.protocol_version.major) + u(1, e.protocol_version.minor) + \
            vec(255, b''.join(u(1, code_of(p)) for p in e.parameters))
    elif name == 'TlsExtensionKeyShareServer':           # RFC 8446 4.2.8: KeyShareEntry server_share
        s = e.key_share_entry                            # NamedGroup group; opaque key_exchange<1..2^16-1>
        body = u(2, code_of(s.group)) + vec(2 ** 16 - 1, bytes(bytearray(s.key_exchange)))
    elif name == 'TlsExtensionKeyShareClientHelloRetry':  # RFC 8446 4.2.8: NamedGroup selected_group
        body = u(2, code_of(e.selected_group))
    elif name == 'TlsExtensionNextProtocolNegotiationServer':   # draft-agl-tls-nextprotoneg-04 3: the extension_data
        body = b''.join(vec(255, p.value.code.encode('ascii')) for p in e.protocol_names)   # is the 8-bit prefixed strings
    elif name == 'TlsExtensionSignedCertificateTimestampServer':   # RFC 6962 3.3: SerializedSCT sct_list<1..2^16-1>
        body = vec(2 ** 16 - 1, b''.join(vec(2 ** 16 - 1, enc_sct(s)) for s in e.scts))
    else:
        raise canon.Unmodelled(name)
    return u(2, t) + vec(2 ** 16 - 1, body)


def enc_sct(sct):
    """RFC 6962 3.2: Version sct_version; LogID id (opaque key_id[32]); uint64 timestamp (ms); CtExtensions extensions
    <0..2^16-1>; digitally-signed (SignatureAndHashAlgorithm, opaque signature<0..2^16-1>)"""
    millis = calendar.timegm(sct.timestamp.utctimetuple()) * 1000 + sct.timestamp.microsecond // 1000
    return (u(1, int(sct.version)) + bytes(sct.log.log_id.value) + u(8, millis) +
            vec(2 ** 16 - 1, bytes(bytearray(sct.extensions))) + u(2, code_of(sct.signature_algorithm)) +
            vec(2 ** 16 - 1, bytes(bytearray(sct.signature))))


def extension_sides(e):
    """the variant / list classes an extension object belongs to: ('client'|'server', variant class, list class)"""
    from cryptoparser.tls import extension as ex
    out = []
    for side, var, lst in (('client', ex.TlsExtensionVariantClient, ex.TlsExtensionsClient),
                           ('server', ex.TlsExtensionVariantServer, ex.TlsExtensionsServer)):
        classes = var._get_variant_types()  # pylint: disable=protected-access
        if type(e) is ex.TlsExtensionUnparsed:
            parsed = {c.get_extension_type().value.code for c in classes if c is not ex.TlsExtensionUnparsed}
            if e.extension_type.value.code not in parsed:
                out.append((side, var, lst))
        elif type(e) in classes:
            out.append((side, var, lst))
    return out


# a second extension of a type no side has a parser for, to stand behind the one under test
FOLLOWER = u(2, 0xfafa) + vec(2 ** 16 - 1, b'\x01\x02\x03')


def check_through_variant(obj, ref):
    """the RFC encoding parsed by the variant of the extension's side — alone, followed by bytes, and as the first
    item of an extension list of that side followed by another extension: class and values must be the original's"""
    name = type(obj).__name__
    want = canon.generic(obj)
    bad = []
    from cryptodatahub.tls.algorithm import TlsExtensionType
    # the variant itself answers InvalidValue for a type code outside TlsExtensionType (GREASE, unassigned): such an
    # extension exists only as an item of an extension list, where the fallback class keeps it
    in_variant = name != 'TlsExtensionUnparsed' or obj.extension_type.value.code in {m.value.code for m in TlsExtensionType}
    for side, var, lst in extension_sides(obj):
        for label, data in ((('alone', ref), ('followed', ref + FOLLOWER)) if in_variant else ()):
            try:
                got, n = var.parse_immutable(data)
                if n != len(ref) or type(got) is not type(obj) or canon.generic(got) != want:
                    bad.append(('variant:' + name, '{} ({}, {} variant): the RFC encoding {} parses as {} consuming {} of {}; '
                                'expected {}'.format(name, label, side, hx(data)[:120], canon.generic(got)[:200], n, len(ref),
                                                     want[:200])))
            except Exception as exc:  # pylint: disable=broad-except
                bad.append(('variant:' + name, '{} ({}, {} variant): the RFC encoding {} is rejected: {}'.format(
                    name, label, side, hx(data)[:120], core.err_line(exc))))
        if len(ref) + len(FOLLOWER) > 2 ** 16 - 1:
            continue
        block = vec(2 ** 16 - 1, ref + FOLLOWER)
        try:
            items = lst.parse_exact_size(block)
            first = items[0] if len(items) else None
            if len(items) != 2 or type(first) is not type(obj) or canon.generic(first) != want:
                bad.append(('list:' + name, '{} ({} list): followed by another extension the RFC encoding {} parses as {} '
                            '({} items); expected {}'.format(name, side, hx(block)[:120], canon.generic(first)[:200],
                                                             len(items), want[:200])))
        except Exception as exc:  # pylint: disable=broad-except
            bad.append(('list:' + name, '{} ({} list): followed by another extension the RFC encoding {} is rejected: {}'.format(
                name, side, hx(block)[:120], core.err_line(exc))))
    return bad


def enc_extensions(exts):
    """Extension extensions<0..2^16-1>; omitted altogether when there are none (RFC 5246 7.4.1.2)"""
    if not list(exts):
        return b''
    return vec(2 ** 16 - 1, b''.join(enc_extension(e) for e in exts))


def enc_handshake(msg_type, body):
    return u(1, msg_type) + u(3, len(body)) + body


def reference(obj):
    """independent encoding of a generated object"""
    name = type(obj).__name__
    if name == 'TlsProtocolVersion':
        return enc_version(obj)
    if name == 'TlsRecord':                          # RFC 5246 6.2.1
        return u(1, int(obj.content_type)) + enc_version(obj.protocol_version) + vec(2 ** 16 - 1, bytes(obj.fragment))
    if name == 'TlsAlertMessage':
        return u(1, int(obj.level)) + u(1, int(obj.description))
    if name == 'TlsChangeCipherSpecMessage':
        return b'\x01'
    if name == 'TlsHandshakeClientHello':            # RFC 5246 7.4.1.2
        suites = [code_of(c) for c in obj.cipher_suites]
        if obj.fallback_scsv:
            suites.append(0x5600)                    # RFC 7507
        if obj.empty_renegotiation_info_scsv:
            suites.append(0x00ff)                    # RFC 5746
        body = (enc_version(obj.protocol_version) + enc_random(obj.random) +
                vec(32, bytes(bytearray(obj.session_id))) +
                vec(2 ** 16 - 2, b''.join(u(2, c) for c in suites)) +
                vec(2 ** 8 - 1, b''.join(u(1, code_of(c)) for c in obj.compression_methods)) +
                enc_extensions(obj.extensions))
        return enc_handshake(1, body)
    if name in ('TlsHandshakeServerHello', 'TlsHandshakeHelloRetryRequest'):
        rnd = obj.random_bytes if name == 'TlsHandshakeHelloRetryRequest' else obj.random
        body = (enc_version(obj.protocol_version) + enc_random(rnd) + vec(32, bytes(bytearray(obj.session_id))) +
                u(2, code_of(obj.cipher_suite)) + u(1, code_of(obj.compression_method)) + enc_extensions(obj.extensions))
        return enc_handshake(6 if name == 'TlsHandshakeHelloRetryRequest' else 2, body)
    if name == 'TlsHandshakeCertificate':            # ASN.1Cert certificate_list<0..2^24-1>
        return enc_handshake(11, vec(2 ** 24 - 1, b''.join(vec(2 ** 24 - 1, c.certificate) for c in obj.certificate_chain)))
    if name == 'TlsHandshakeServerKeyExchange':
        return enc_handshake(12, bytes(obj.param_bytes))
    if name == 'TlsHandshakeCertificateStatus':      # RFC 6066 8: status_type, OCSPResponse<1..2^24-1>
        return enc_handshake(22, u(1, int(obj.status_type)) + vec(2 ** 24 - 1, bytes(obj.status)))
    if name == 'TlsHandshakeServerHelloDone':
        return enc_handshake(14, b'')
    if name == 'TlsHandshakeCertificateRequest':     # RFC 5246 7.4.4
        body = vec(255, b''.join(u(1, int(t)) for t in obj.certificate_types))
        if obj.supported_signature_algorithms is not None:
            body += vec(2 ** 16 - 2, b''.join(u(2, code_of(a)) for a in obj.supported_signature_algorithms))
        body += vec(2 ** 16 - 1, b''.join(vec(2 ** 16 - 1, bytes(bytearray(dn))) for dn in obj.certificate_authorities))
        return enc_handshake(13, body)
    if name in ('TlsExtensionsClient', 'TlsExtensionsServer'):   # Extension extensions<0..2^16-1> as a value of its own
        return vec(2 ** 16 - 1, b''.join(enc_extension(e) for e in obj))
    if name.startswith('TlsExtension'):
        return enc_extension(obj)
    if name == 'SslRecord':                          # SSL 2.0: 2-byte header with the MSB set, no padding
        msg = obj.message
        mname = type(msg).__name__
        if mname == 'SslErrorMessage':
            body = u(1, 0) + u(2, int(msg.error_type))
        elif mname == 'SslHandshakeClientHello':
            kinds = b''.join(u(3, code_of(k)) for k in msg.cipher_kinds)
            body = u(1, 1) + u(2, 0x0002) + u(2, len(kinds)) + u(2, len(msg.session_id)) + u(2, len(msg.challenge)) + \
                kinds + msg.session_id + msg.challenge
        elif mname == 'SslHandshakeServerHello':
            kinds = b''.join(u(3, code_of(k)) for k in msg.cipher_kinds)
            body = u(1, 4) + u(1, 1 if msg.session_id_hit else 0) + u(1, 1) + u(2, 0x0002) + u(2, len(msg.certificate)) + \
                u(2, len(kinds)) + u(2, len(msg.connection_id)) + msg.certificate + kinds + msg.connection_id
        else:
            raise canon.Unmodelled(mname)
        return u(2, 0x8000 | len(body)) + body
    raise canon.Unmodelled(name)


def ssl_record(rng):
    from cryptoparser.tls.record import SslRecord
    from cryptoparser.tls.subprotocol import (SslErrorMessage, SslErrorType, SslHandshakeClientHello,
                                              SslHandshakeServerHello)
    from cryptodatahub.tls.algorithm import SslCipherKind
    k = rng.randrange(3)
    if k == 0:
        return SslRecord(SslErrorMessage(rng.choice(list(SslErrorType))))
    kinds = rng.sample(list(SslCipherKind), rng.randrange(1, 6))
    if k == 1:
        return SslRecord(SslHandshakeClientHello(kinds, gen_tls.rbytes(rng, rng.choice([0, 16])),
                                                 gen_tls.rbytes(rng, rng.choice([16, 32]))))
    return SslRecord(SslHandshakeServerHello(gen_tls.rbytes(rng, rng.randrange(0, 60)), kinds,
                                             gen_tls.rbytes(rng, 16), rng.random() < 0.5))


GENERATORS = [
    gen_tls.version, gen_tls.record, gen_tls.alert, gen_tls.ccs,
    lambda r: gen_tls.client_hello(r, modelled_only=False), lambda r: gen_tls.client_hello(r, modelled_only=False),
    gen_tls.server_hello, lambda r: gen_tls.server_hello(r, True), gen_tls.certificate, gen_tls.server_key_exchange,
    gen_tls.certificate_status, gen_tls.server_hello_done, gen_tls.certificate_request, ssl_record,
    lambda r: gen_tls.client_extension(r, modelled_only=False), gen_tls.server_extension,
    gen_tls.extensions_client, gen_tls.extensions_server,
]


def check(obj):
    """composed == reference; the library parses the reference encoding back to the same values"""
    name = type(obj).__name__
    try:
        ref = reference(obj)
    except canon.Unmodelled:
        return None, []
    bad = []
    try:
        got = bytes(obj.compose())
    except Exception as exc:  # pylint: disable=broad-except
        return ref, [('compose:' + name, '{}: compose() raised {}'.format(name, core.err_line(exc)))]
    if got != ref:
        i = next((k for k in range(min(len(got), len(ref))) if got[k] != ref[k]), min(len(got), len(ref)))
        bad.append(('layout:' + name, '{}: composed bytes differ from the RFC encoding at offset {}: {} vs {} [{}]'.format(
            name, i, hx(got[max(0, i - 4):i + 12]), hx(ref[max(0, i - 4):i + 12]), canon.generic(obj)[:200])))
    try:
        back = type(obj).parse_exact_size(ref)
        if canon.generic(back) != canon.generic(obj):
            bad.append(('decode:' + name, '{}: parsing the RFC encoding gives different values: {} vs {}'.format(
                name, canon.generic(back)[:250], canon.generic(obj)[:250])))
    except Exception as exc:  # pylint: disable=broad-except
        bad.append(('decode:' + name, '{}: the RFC encoding {} is rejected: {}'.format(name, hx(ref)[:200], core.err_line(exc))))
    if name.startswith('TlsExtension') and not name.startswith('TlsExtensions'):
        bad.extend(check_through_variant(obj, ref))
    return ref, bad


def ceiling_extensions(rng):
    """extension objects at the ceilings their length fields allow: an ALPN list of 2^16-3 bytes (what the extension's
    own 16-bit length leaves), an NPN list of 2^16-1 bytes, a host name of 2^16-6 bytes, a key share list and an SCT
    list close to 2^16-3"""
    from cryptoparser.tls import extension as ex
    from cryptoparser.common.x509 import SignedCertificateTimestampList
    from cryptodatahub.tls.algorithm import TlsProtocolName, TlsNextProtocolName, TlsNamedCurve
    out = [
        ex.TlsExtensionApplicationLayerProtocolNegotiation(gen_tls.protocol_names(rng, TlsProtocolName, 65533)),
        ex.TlsExtensionNextProtocolNegotiationServer(gen_tls.protocol_names(rng, TlsNextProtocolName, 65535)),
        ex.TlsExtensionServerNameClient(('.'.join('a' * 63 for _ in range(1024)))[:65530].rstrip('.')),
    ]
    curves = list(TlsNamedCurve)
    entries = [ex.TlsKeyShareEntry(rng.choice(curves), list(gen_tls.rbytes(rng, 1020))) for _ in range(63)]   # 63 * 1024
    out.append(ex.TlsExtensionKeyShareClient(entries + [ex.TlsKeyShareEntry(curves[0], list(gen_tls.rbytes(rng, 1017)))]))
    scts = []
    while sum(2 + 47 + len(s.extensions) + len(s.signature) for s in scts) < 65000:
        scts.append(gen_tls.sct(rng))
    out.append(ex.TlsExtensionSignedCertificateTimestampServer(SignedCertificateTimestampList(scts)))
    return out


def boundary_cases(run, cases=None):
    """conformant encodings at the RFC floors/ceilings that generators rarely hit"""
    from cryptoparser.tls.subprotocol import TlsHandshakeCertificate
    for obj in ceiling_extensions(run.rng):
        name = type(obj).__name__
        run.evaluations += 1
        run.count('classes', name)
        ref, bad = check(obj)
        case = {'kind': 'ref', 'cls': name, 'data': hx(ref)}
        for key, msg in bad:
            run.finding(key, msg, case)
        if cases is not None:
            for side, var, lst in extension_sides(obj):
                cases.append({'kind': 'cls', 'cls': var.__name__, 'data': hx(ref), 'want': [], 'framing': False})
    data = enc_handshake(11, vec(2 ** 24 - 1, b''))       # empty certificate_list is conformant (RFC 5246 7.4.6)
    run.evaluations += 1
    try:
        m = TlsHandshakeCertificate.parse_exact_size(data)
        if len(m.certificate_chain) != 0 or bytes(m.compose()) != data:
            run.finding('decode:TlsHandshakeCertificate', 'empty certificate list not preserved',
                        {'kind': 'boundary', 'name': 'empty-certificate-list'})
    except Exception as exc:  # pylint: disable=broad-except
        run.finding('decode:TlsHandshakeCertificate', 'a Certificate message with an empty certificate_list is rejected: {}'.format(
            core.err_line(exc)), {'kind': 'boundary', 'name': 'empty-certificate-list'})


def run(run, driver_ok=True, deep=False):
    tier = 'thorough' if deep else run.tier
    n = 60 if tier == 'quick' else 2500
    modelled = clsops.modelled()
    cases = []
    for gen in GENERATORS:
        for _ in range(n):
            try:
                obj = gen(run.rng)
            except Exception as exc:  # pylint: disable=broad-except
                run.count('generator_errors', type(exc).__name__)
                continue
            name = type(obj).__name__
            run.evaluations += 1
            run.count('classes', name)
            ref, bad = check(obj)
            if ref is None:
                run.count('no_reference', name)
                continue
            run.note_nontrivial((name, ref))
            case = {'kind': 'ref', 'cls': name, 'data': hx(ref)}
            for key, msg in bad:
                run.finding(key, msg, case)
            mname = name if name in modelled else None
            if mname:
                cases.append({'kind': 'cls', 'cls': mname, 'data': hx(ref), 'want': [], 'framing': False})
            if name.startswith('TlsExtension') and not name.startswith('TlsExtensions'):
                # extension classes sit in the model behind the variant / list classes of their side
                for side, var, lst in extension_sides(obj):
                    cases.append({'kind': 'cls', 'cls': var.__name__, 'data': hx(ref), 'want': [], 'framing': False})
                    cases.append({'kind': 'cls', 'cls': var.__name__, 'data': hx(ref + FOLLOWER), 'want': [], 'framing': False})
                    if len(ref) + len(FOLLOWER) <= 2 ** 16 - 1:
                        cases.append({'kind': 'cls', 'cls': lst.__name__, 'data': hx(vec(2 ** 16 - 1, ref + FOLLOWER)),
                                      'want': [], 'framing': False})
    if cases:
        run.sample(cases[0])
        run.sample(cases[-1])
    boundary_cases(run, cases)
    clsrun.run_cases(run, cases, driver_ok)


def search(run, proof):
    if run.tier != 'thorough':
        sub = core.Run(run.prop, 'thorough', run.seed + 1)
        sub.kf = run.kf
        globals()['run'](sub, driver_ok=False, deep=True)
        run.violations.extend(sub.violations)
        run.known_hits.update(sub.known_hits)
        run.evaluations += sub.evaluations
        run.notes.append('failing-input search: thorough-tier implementation oracle, {} cases'.format(sub.evaluations))


def replay(case):
    if case.get('kind') == 'boundary':
        r = core.Run('C06', 'quick', 0)
        boundary_cases(r)
        return [(k, m) for k, m, _ in r.violations]
    if case.get('kind') == 'ref':
        cls = None
        import importlib
        for mod in ('cryptoparser.tls.record', 'cryptoparser.tls.subprotocol', 'cryptoparser.tls.extension',
                    'cryptoparser.tls.version'):
            cls = cls or getattr(importlib.import_module(mod), case['cls'], None)
        data = core.unhx(case['data'])
        try:
            obj = cls.parse_exact_size(data)
        except Exception as exc:  # pylint: disable=broad-except
            return [('decode:' + case['cls'], 'the RFC encoding is rejected: {}'.format(core.err_line(exc)))]
        return check(obj)[1]
    return []
