# -*- coding: utf-8 -*-
"""C17 — TLS protocol versions form a strict total order consistent with equality."""
import itertools

from harness import core

LEAN_MODULES = ['CpProps.C17']
RULE = ('EXHAUSTIVE: every ordered pair of defined TlsVersion members is compared between model and implementation for '
        '<, <=, ==, !=, >, >= and hash equality; the implementation-side oracle additionally checks trichotomy on all '
        'pairs, transitivity on all triples, the specified chain and order-independence of sorted/min/max under seeded '
        'shuffles. A pair is non-trivial when its two versions differ.')


def versions():
    from cryptoparser.tls.version import TlsProtocolVersion
    from cryptodatahub.tls.version import TlsVersion
    return [TlsProtocolVersion(v) for v in TlsVersion]


def code(v):
    return v.version.value.code


class PairOracle(object):
    @staticmethod
    def lines(case):
        return ['LT {} {}'.format(case['a'], case['b'])]

    @staticmethod
    def _by_code(c):
        for v in versions():
            if code(v) == c:
                return v
        raise KeyError(c)

    @classmethod
    def impl(cls, case):
        a, b = cls._by_code(case['a']), cls._by_code(case['b'])

        def fn():
            return [a < b, a <= b, a == b, a != b, a > b, a >= b, hash(a) == hash(b)]
        return [core.outcome(fn, lambda r: ' '.join('1' if x else '0' for x in r))]

    @classmethod
    def prop(cls, case):
        a, b = cls._by_code(case['a']), cls._by_code(case['b'])
        bad = []
        n = (a < b) + (a == b) + (b < a)
        if n != 1:
            bad.append(('trichotomy', '{} vs {}: lt={} eq={} gt={}'.format(a, b, a < b, a == b, b < a)))
        if a == b and hash(a) != hash(b):
            bad.append(('eq-hash', '{} == {} but hashes differ'.format(a, b)))
        if (a <= b) != (not b < a) or (a > b) != (b < a) or (a >= b) != (not a < b) or (a != b) == (a == b):
            bad.append(('derived-ops', 'derived comparison operators inconsistent for {} and {}'.format(a, b)))
        return bad


def global_props(run):
    """transitivity on all triples, chain, sort independence — evaluated on the implementation."""
    from cryptodatahub.tls.version import TlsVersion
    from cryptoparser.tls.version import TlsProtocolVersion
    vs = versions()
    lt = {(code(a), code(b)): (a < b) for a in vs for b in vs}
    n = 0
    for a, b, c in itertools.product(vs, repeat=3):
        n += 1
        if lt[(code(a), code(b))] and lt[(code(b), code(c))] and not lt[(code(a), code(c))]:
            run.finding('transitivity', 'not transitive: {} < {} < {} but not {} < {}'.format(a, b, c, a, c),
                        {'kind': 'triple', 'a': code(a), 'b': code(b), 'c': code(c)})
            break
    run.count('triples', 'checked', n)
    P = TlsProtocolVersion
    chain = [P(TlsVersion.SSL2), P(TlsVersion.SSL3), P(TlsVersion.TLS1), P(TlsVersion.TLS1_1), P(TlsVersion.TLS1_2)]
    for x, y in zip(chain, chain[1:]):
        if not x < y:
            run.finding('chain', 'expected {} < {}'.format(x, y), {'kind': 'pair', 'a': code(x), 'b': code(y)})
    t13 = P(TlsVersion.TLS1_3)
    pre = [v for v in vs if v.is_draft or v.is_google_experimental]
    for p in pre:
        if not (chain[-1] < p and p < t13):
            run.finding('chain', 'pre-release {} not between TLS 1.2 and TLS 1.3'.format(p),
                        {'kind': 'pair', 'a': code(p), 'b': code(t13)})
    drafts = [v for v in vs if v.is_draft]
    for d1, d2 in itertools.product(drafts, repeat=2):
        if d1.minor < d2.minor and not d1 < d2:
            run.finding('drafts', 'draft {} not below draft {}'.format(d1.minor, d2.minor),
                        {'kind': 'pair', 'a': code(d1), 'b': code(d2)})
    ref = [code(v) for v in sorted(vs)]
    for i in range(200):
        sh = list(vs)
        run.rng.shuffle(sh)
        k = run.rng.randrange(1, len(sh) + 1)
        sub = sh[:k]
        s1 = [code(v) for v in sorted(sub)]
        sub2 = list(sub)
        run.rng.shuffle(sub2)
        s2 = [code(v) for v in sorted(sub2)]
        if s1 != s2 or code(max(sub)) != code(max(sub2)) or code(min(sub)) != code(min(sub2)):
            run.finding('sort-order', 'sorted/min/max depend on arrival order for {}'.format([code(v) for v in sub]),
                        {'kind': 'list', 'codes': [code(v) for v in sub]})
            break
        if s1 != [c for c in ref if c in set(s1)]:
            run.finding('sort-order', 'sorted sublist is not a sublist of the sorted whole', {'kind': 'list', 'codes': s1})
            break
    run.count('shuffles', 'checked', 200)


def run(run, driver_ok=True, deep=False):
    vs = versions()
    cases = [{'kind': 'pair', 'a': code(a), 'b': code(b)} for a in vs for b in vs]
    for c in cases:
        if c['a'] != c['b']:
            run.note_nontrivial((c['a'], c['b']))
    run.sample(cases[1])
    run.sample({'kind': 'pair', 'a': 0x0304, 'b': 0x7e01})
    run.sample({'kind': 'triple', 'a': 0x0304, 'b': 0x7e01, 'c': 0x7f00})
    run.exhaustive = True
    if driver_ok:
        core.correspond(run, PairOracle, cases)
    else:
        for case in cases:
            run.evaluations += 1
            for key, message in PairOracle.prop(case):
                run.finding(key, message, case)
    global_props(run)
    run.count('versions', 'defined', len(vs))


def search(run, proof):
    # the domain is finite and `run` already enumerated it completely on the implementation
    run.notes.append('failing-input search: the implementation oracle above is exhaustive over all pairs and triples')


def replay(case):
    from cryptoparser.tls.version import TlsProtocolVersion
    if case.get('kind') == 'triple':
        a, b, c = (PairOracle._by_code(case[x]) for x in 'abc')
        if a < b and b < c and not a < c:
            return [('transitivity', 'not transitive: {} < {} < {} but not {} < {}'.format(a, b, c, a, c))]
        return []
    if case.get('kind') == 'pair':
        return PairOracle.prop(case)
    r = core.Run('C17', 'quick', 0)
    global_props(r)
    return [(k, m) for k, m, _ in r.violations]
