# -*- coding: utf-8 -*-
"""C04 — incremental reads guided by the missing-byte count reassemble the stream."""
from harness import core, clsrun, clsops, canon
from harness.core import hx, unhx, err_line

LEAN_MODULES = ['CpProps.C04', 'CpProps.C04Ssl2']
RULE = ('for generated records/packets of every modelled record layer and TLS handshake messages: EVERY proper prefix '
        '(all cut positions for encodings up to 120 bytes, a dense sample beyond) is parsed by the real code and by the '
        'model and must be rejected with NotEnoughData(m), 1 <= m <= bytes really missing; a reader loop driven by '
        'parse_mutable and bytes_needed is run over concatenated records cut into random chunks (including 1-byte '
        'chunks) and must return exactly the original records without ever waiting for more than the record in '
        'progress; TLS handshake messages are additionally fragmented over TlsRecords. Non-trivial: record with '
        'non-empty payload; distinct: (class, bytes, cut).')


class PrefixOracle(object):
    """case {'kind':'prefix','cls':name,'data':hex of the full record,'cut':k}"""

    @staticmethod
    def lines(case):
        return ['P {} {}'.format(case['cls'], hx(unhx(case['data'])[:case['cut']]))]

    @staticmethod
    def impl(case):
        cls, fn = clsops.modelled()[case['cls']]
        data = unhx(case['data'])[:case['cut']]
        try:
            obj, n = cls.parse_immutable(data)
            return ['OK {} {}'.format(n, clsops.canon_text(fn, obj))]
        except Exception as exc:  # pylint: disable=broad-except
            return [err_line(exc)]

    @classmethod
    def prop(cls, case):
        full = unhx(case['data'])
        k = case['cut']
        line = cls.impl(case)[0]
        missing = len(full) - k
        parts = line.split(' ')
        if parts[:2] != ['ERR', 'NotEnoughData']:
            return [('prefix-accepted:' + case['cls'] if parts[0] == 'OK' else
                     'prefix-error:{}:{}'.format(case['cls'], parts[1] if len(parts) > 1 else '?'),
                     '{}: prefix of {} of {} bytes of {} gives {}'.format(case['cls'], k, len(full), hx(full), line[:120]))]
        try:
            m = int(parts[2])
        except ValueError:
            m = None
        if m is None or not 1 <= m <= missing:
            return [('missing-count:' + case['cls'],
                     '{}: prefix {} of {}: bytes_needed={} but {} bytes are missing ({})'.format(
                         case['cls'], k, len(full), parts[2], missing, hx(full)[:200]))]
        return []


def reader_loop(cls, stream, chunks):
    """A client of the library: buffer, parse_mutable, on NotEnoughData wait for exactly bytes_needed more.
    Returns (objects, max over-ask, error)."""
    from cryptoparser.common.exception import NotEnoughData
    buf = bytearray()
    out = []
    want = 1
    pos = 0
    trace = []
    for chunk in chunks:
        buf += chunk
        pos += len(chunk)
        while buf and len(buf) >= want:
            try:
                obj = cls.parse_mutable(buf)
                out.append(obj)
                want = 1
            except NotEnoughData as exc:
                want = len(buf) + exc.bytes_needed
                trace.append((pos, len(buf), exc.bytes_needed))
                if exc.bytes_needed < 1:
                    return out, trace, 'bytes_needed={}'.format(exc.bytes_needed)
                break
            except Exception as exc:  # pylint: disable=broad-except
                return out, trace, err_line(exc)
    return out, trace, None if not buf else 'leftover {} bytes'.format(len(buf))


def random_chunks(rng, stream):
    mode = rng.choice(['ones', 'random', 'random', 'big', 'headers'])
    chunks = []
    i = 0
    while i < len(stream):
        if mode == 'ones':
            n = 1
        elif mode == 'big':
            n = rng.randrange(1, len(stream) + 1)
        elif mode == 'headers':
            n = rng.choice([1, 2, 3, 4, 5, 6, 7])
        else:
            n = rng.randrange(1, 40)
        chunks.append(stream[i:i + n])
        i += n
    return chunks


def reader_props(run, name, objs, n_streams):
    cls = clsops.modelled()[name][0]
    encs = []
    for o in objs:
        try:
            encs.append((o, bytes(o.compose())))
        except Exception:  # pylint: disable=broad-except
            continue
    if not encs:
        return
    for _ in range(n_streams):
        k = run.rng.randrange(1, 5)
        pick = [run.rng.choice(encs) for _ in range(k)]
        stream = b''.join(b for _, b in pick)
        chunks = random_chunks(run.rng, stream)
        run.evaluations += 1
        run.count('reader_streams', name)
        case = {'kind': 'reader', 'cls': name, 'records': [hx(b) for _, b in pick], 'chunks': [len(c) for c in chunks]}
        for key, msg in reader_case(case):
            run.finding(key, msg, case)


def _resolve(case):
    if case.get('path'):
        from harness import corpus
        return corpus.resolve(case['path'])
    return clsops.modelled()[case['cls']][0]


def reader_case(case):
    cls = _resolve(case)
    records = [unhx(r) for r in case['records']]
    stream = b''.join(records)
    chunks = []
    i = 0
    for n in case['chunks']:
        chunks.append(stream[i:i + n])
        i += n
    out, trace, err = reader_loop(cls, stream, chunks)
    name = case['cls']
    if err:
        kind = err.split(' ')[1] if err.startswith('ERR ') and len(err.split(' ')) > 1 else err.split(' ')[0]
        return [('reader-error:{}:{}'.format(name, kind),
                 '{}: reader failed with {} on {} records'.format(name, err, len(records)))]
    ends = []
    total = 0
    for r in records:
        total += len(r)
        ends.append(total)
    for pos, have, need in trace:
        # the record in progress ends at the first end > pos - have
        start = pos - have
        end = next(e for e in ends if e > start)
        if pos + need > end:
            return [('reader-overask:' + name, '{}: with {} bytes buffered the reader is asked to wait for {} more, '
                     'but the record in progress has only {} more'.format(name, have, need, end - pos))]
    try:
        want = [canon.generic(cls.parse_exact_size(r)) for r in records]
    except Exception as exc:  # pylint: disable=broad-except
        return [('record-rejected:' + name, '{}: a complete record of the stream is rejected on its own: {}'.format(name, err_line(exc)))]
    got = [canon.generic(o) for o in out]
    if got != want:
        return [('reader-reassembly:' + name, '{}: reader returned {} objects, expected {}; first difference at {}'.format(
            name, len(got), len(want), next((i for i, (a, b) in enumerate(zip(got, want)) if a != b), min(len(got), len(want)))))]
    return []


def handshake_over_records(run, n):
    """TLS handshake messages fragmented over records, then the byte stream cut arbitrarily."""
    from harness import gen_tls
    from cryptoparser.tls.record import TlsRecord
    from cryptoparser.tls.subprotocol import TlsHandshakeMessageVariant, TlsContentType
    from cryptoparser.common.exception import NotEnoughData
    for _ in range(n):
        msgs = [gen_tls.handshake(run.rng) for _ in range(run.rng.randrange(1, 4))]
        encs = [bytes(m.compose()) for m in msgs]
        hs_stream = b''.join(encs)
        frags = random_chunks(run.rng, hs_stream)
        version = gen_tls.version(run.rng)
        wire = b''.join(bytes(TlsRecord(f, version, TlsContentType.HANDSHAKE).compose()) for f in frags)
        chunks = random_chunks(run.rng, wire)
        run.evaluations += 1
        run.count('reader_streams', 'handshake-over-records')
        recs, trace, err = reader_loop(TlsRecord, wire, chunks)
        case = {'kind': 'hs-over-records', 'messages': [hx(e) for e in encs], 'fragments': [len(f) for f in frags],
                'chunks': [len(c) for c in chunks]}
        if err:
            run.finding('reader-error:records', 'record reader failed: {}'.format(err), case)
            continue
        hbuf = bytearray()
        out = []
        bad = None
        need_total = 0
        for r in recs:
            hbuf += r.fragment
            while hbuf:
                try:
                    out.append(TlsHandshakeMessageVariant.parse_mutable(hbuf))
                except NotEnoughData as exc:
                    if exc.bytes_needed < 1:
                        bad = 'bytes_needed={}'.format(exc.bytes_needed)
                    break
                except Exception as exc:  # pylint: disable=broad-except
                    bad = err_line(exc)
                    break
            if bad:
                break
        want = [canon.generic(m) for m in msgs]
        got = [canon.generic(o.variant if hasattr(o, 'variant') else o) for o in out]
        if bad or hbuf or got != want:
            run.finding('reader-reassembly:handshake-over-records',
                        'handshake messages fragmented over records were not reassembled: error={} leftover={} got {} of {}'.format(
                            bad, len(hbuf), len(got), len(want)), case)


def unmodelled_layers(run, tier):
    """LDAP (BER through asn1crypto, outside the Lean model): every proper prefix of accepted messages - short- and
    long-form lengths - on the real code, and the reader loop over concatenations; implementation-side only"""
    try:
        from harness import gen_extra
    except ImportError:
        return
    import random as _random
    pairs = gen_extra.ldap_pairs(_random.Random(run.seed), tier)
    by_cls = {}
    for cls, data in pairs:
        try:
            _, n = cls.parse_immutable(bytes(data))
        except Exception:  # pylint: disable=broad-except
            continue
        if n != len(data):
            continue
        by_cls.setdefault(cls, []).append(bytes(data))
    for cls, encs in by_cls.items():
        name = cls.__name__
        for b in encs:
            cuts = range(len(b)) if len(b) <= 160 else sorted(set(list(range(16)) + [run.rng.randrange(len(b)) for _ in range(40)] +
                                                                  [len(b) - 1, len(b) - 2, len(b) - 3]))
            for k in cuts:
                run.evaluations += 1
                run.count('classes', name)
                run.note_nontrivial((name, hx(b), k))
                case = {'kind': 'prefix-impl', 'cls': name, 'path': '{}:{}'.format(cls.__module__, cls.__name__), 'data': hx(b), 'cut': k}
                for key, msg in impl_prefix(cls, b, k):
                    run.finding(key, msg, case)
        for _ in range(20 if tier == 'quick' else 300):
            pick = [run.rng.choice(encs) for _ in range(run.rng.randrange(1, 4))]
            stream = b''.join(pick)
            chunks = random_chunks(run.rng, stream)
            run.evaluations += 1
            run.count('reader_streams', name)
            case = {'kind': 'reader', 'cls': name, 'path': '{}:{}'.format(cls.__module__, cls.__name__),
                    'records': [hx(x) for x in pick], 'chunks': [len(c) for c in chunks]}
            for key, msg in reader_case(case):
                run.finding(key, msg, case)


def impl_prefix(cls, full, k):
    name = cls.__name__
    try:
        _, n = cls.parse_immutable(full[:k])
        return [('prefix-accepted:' + name, '{}: prefix of {} of {} bytes of {} is accepted (n={})'.format(name, k, len(full), hx(full)[:120], n))]
    except Exception as exc:  # pylint: disable=broad-except
        line = err_line(exc)
    parts = line.split(' ')
    if parts[:2] != ['ERR', 'NotEnoughData']:
        return [('prefix-error:{}:{}'.format(name, parts[1] if len(parts) > 1 else '?'),
                 '{}: prefix of {} of {} bytes of {} gives {}'.format(name, k, len(full), hx(full)[:120], line[:120]))]
    try:
        m = int(parts[2])
    except ValueError:
        m = None
    if m is None or not 1 <= m <= len(full) - k:
        return [('missing-count:' + name, '{}: prefix {} of {}: bytes_needed={} but {} bytes are missing ({})'.format(
            name, k, len(full), parts[2], len(full) - k, hx(full)[:200]))]
    return []


def run(run, driver_ok=True, deep=False):
    tier = 'thorough' if deep else run.tier
    per_class = 25 if tier == 'quick' else 400
    gens = clsrun.all_generators()
    framing = [(n, g) for n, g in gens if n in clsrun.FRAMING_MODELLED]
    cases = []
    for name, gen in framing:
        objs = []
        for _ in range(per_class):
            try:
                objs.append(gen(run.rng))
            except Exception as exc:  # pylint: disable=broad-except
                run.count('generator_errors', '{}:{}'.format(name, type(exc).__name__))
        for o in objs:
            try:
                b = bytes(o.compose())
            except Exception:  # pylint: disable=broad-except
                continue
            if len(b) <= 120:
                cuts = range(len(b))
            else:
                cuts = sorted(set(list(range(12)) + [run.rng.randrange(len(b)) for _ in range(40)] +
                                  [len(b) - 1, len(b) - 2, len(b) - 3]))
            for k in cuts:
                cases.append({'kind': 'prefix', 'cls': name, 'data': hx(b), 'cut': k})
        reader_props(run, name, objs, 30 if tier == 'quick' else 600)
    for c in cases:
        run.count('classes', c['cls'])
        if c['data'].strip('0-') and c['cut'] > 0:
            run.note_nontrivial((c['cls'], c['data'], c['cut']))
    if cases:
        run.sample(cases[3])
        run.sample(cases[len(cases) // 2])
    if driver_ok:
        core.correspond(run, PrefixOracle, cases, compare=clsops.same)
    else:
        for case in cases:
            run.evaluations += 1
            for key, message in PrefixOracle.prop(case):
                run.finding(key, message, case)
    handshake_over_records(run, 40 if tier == 'quick' else 1500)
    unmodelled_layers(run, tier)


def search(run, proof):
    if run.tier != 'thorough':
        sub = core.Run(run.prop, 'thorough', run.seed + 1)
        sub.kf = run.kf
        globals()['run'](sub, driver_ok=False, deep=True)
        run.violations.extend(sub.violations)
        run.known_hits.update(sub.known_hits)
        run.evaluations += sub.evaluations
        run.notes.append('failing-input search: thorough-tier implementation oracle, {} cases'.format(sub.evaluations))


def replay(case):
    if case.get('kind') == 'prefix':
        return PrefixOracle.prop(case)
    if case.get('kind') == 'reader':
        return reader_case(case)
    if case.get('kind') == 'prefix-impl':
        return impl_prefix(_resolve(case), unhx(case['data']), case['cut'])
    return []
