# -*- coding: utf-8 -*-
"""C03 — reported consumed length is exact and framing units are self-delimiting."""
from harness import core, clsrun, clsops

LEAN_MODULES = ['CpProps.C03', 'CpProps.C03Ssl2']
RULE = ('objects of every modelled class are built with the library constructors by type-directed generators (all enum '
        'members, unknown/GREASE code points, empty and maximal vectors, optional parts absent/present, boundary integers), '
        'composed, and the encodings are used as they are, with trailing bytes, concatenated, truncated at many offsets, '
        'bit-flipped, length-corrupted and spliced; each input runs through the real parse_immutable/parse_exact_size/'
        'parse_mutable and through the Lean model (ops R/X/M) and the outcomes (value in canonical form, consumed length, '
        'error class and count, buffer afterwards, recomposition) are compared; the property itself is evaluated on the '
        'real code for every input. Non-trivial: the input is not all zero; distinct: (class, bytes).')
WANT = ('C03',)


def run(run, driver_ok=True, deep=False):
    tier = 'thorough' if deep else run.tier
    clsrun.class_property_run(run, driver_ok, WANT, per_class=40 if tier == 'quick' else 300, n_mut=12, truncations=20, suffixes=True)
    extra(run, tier)
    reference_frames(run, tier)


def ssl2_frames(rng, n):
    """SSL 2.0 records written from the protocol text, independent of compose(): both header forms, the escape bit,
    0..255 bytes of padding; (frame bytes, what it is)"""
    from cryptoparser.tls.subprotocol import SslErrorMessage, SslErrorType, SslHandshakeClientHello
    from cryptodatahub.tls.algorithm import SslCipherKind
    out = []
    kinds = list(SslCipherKind)
    for _ in range(n):
        if rng.random() < 0.3:
            body = b'\x00' + bytes(SslErrorMessage(rng.choice(list(SslErrorType))).compose())
        else:
            hello = SslHandshakeClientHello(rng.sample(kinds, rng.randrange(1, 4)), bytes(rng.getrandbits(8) for _ in range(rng.choice([0, 16]))),
                                            bytes(rng.getrandbits(8) for _ in range(rng.choice([16, 32]))))
            body = b'\x01' + bytes(hello.compose())
        pad = rng.choice([0, 1, 7, 8, 255])
        escape = rng.choice([0, 0x40])
        total = len(body) + pad
        if total < 0x4000:
            out.append((bytes([(total >> 8) | escape, total & 0xff, pad]) + body + bytes(rng.getrandbits(8) for _ in range(pad)),
                        '3-byte header, escape {}, padding {}'.format(bool(escape), pad)))
        if len(body) < 0x8000:
            out.append((bytes([0x80 | (len(body) >> 8), len(body) & 0xff]) + body, '2-byte header'))
    return out


def reference_frames(run, tier):
    """frames built here from the specification: the consumed length must be the frame length, alone and followed by
    other bytes (n = the length the header declares), and parse_exact_size must accept the frame"""
    from cryptoparser.tls.record import SslRecord
    for frame, what in ssl2_frames(run.rng, 30 if tier == 'quick' else 600):
        case = {'kind': 'ref-frame', 'cls': 'SslRecord', 'data': core.hx(frame), 'what': what}
        run.evaluations += 1
        run.count('reference_frames', 'SslRecord ' + what.split(',')[0])
        run.note_nontrivial(('ref-frame', core.hx(frame)))
        for key, msg in reference_frame_props(SslRecord, frame, what):
            run.finding(key, msg, case)


def reference_frame_props(cls, frame, what):
    name = cls.__name__
    for sfx in (b'', b'\x00', frame, b'\xff' * 5):
        try:
            _, n = cls.parse_immutable(frame + sfx)
        except Exception as exc:  # pylint: disable=broad-except
            return [('declared-length:' + name, '{} ({}): a frame written from the specification followed by {} bytes is rejected: {}'.format(
                name, what, len(sfx), core.err_line(exc)))]
        if n != len(frame):
            return [('declared-length:' + name, '{} ({}): consumed {} bytes of a frame whose header declares {} (suffix of {} bytes): {}'.format(
                name, what, n, len(frame), len(sfx), core.hx(frame)[:120]))]
    try:
        cls.parse_exact_size(frame)
    except Exception as exc:  # pylint: disable=broad-except
        return [('declared-length:' + name, '{} ({}): parse_exact_size of a conformant frame raised {}'.format(name, what, core.err_line(exc)))]
    return []


def extra(run, tier):
    try:
        from harness import corpus_props
    except ImportError:
        return
    corpus_props.run(run, WANT, tier)


def search(run, proof):
    if run.tier != 'thorough':
        sub = core.Run(run.prop, 'thorough', run.seed + 1)
        sub.kf = run.kf
        globals()['run'](sub, driver_ok=False, deep=True)
        run.violations.extend(sub.violations)
        run.known_hits.update(sub.known_hits)
        run.evaluations += sub.evaluations
        run.notes.append('failing-input search: thorough-tier implementation oracle, {} cases'.format(sub.evaluations))


def replay(case):
    if case.get('kind') == 'cls':
        return clsrun.ClsOracle.prop(case)
    if case.get('kind') == 'corpus':
        from harness import corpus_props
        return corpus_props.replay(case)
    if case.get('kind') == 'ref-frame':
        from cryptoparser.tls.record import SslRecord
        return reference_frame_props(SslRecord, core.unhx(case['data']), case.get('what', ''))
    return []
