# -*- coding: utf-8 -*-
"""C07 — SSH identification string, binary packets, KEXINIT, DH / DH-group-exchange messages, disconnect and
host public keys follow RFC 4251 / 4253 / 4419 / 5656 / 8709 (and PROTOCOL.certkeys)."""
import os
import struct
import subprocess

from harness import core, clsops, clsrun
from harness.core import hx, unhx

LEAN_MODULES = ['CpProps.C07']
RULE = ('per SSH class inside the model (name-list vectors, KEXINIT, disconnect, unimplemented, DH/GEX messages, '
        'newkeys, the three message variants and record classes, protocol version, identification string, '
        'RSA/DSS/ECDSA/EdDSA host keys, the host-key variant, the four v01 certificate classes with principals, critical '
        'options and extensions): N generated objects (quick 12, thorough 60; known and '
        'unknown algorithm names, empty lists, mpints of 8k-1/8k/8k+1 bits, payload sizes of every residue mod 8), each '
        'composed, plus 6 mutations and up to 24 truncations of every encoding, plus a hand-written corpus of edge '
        'cases; every input goes through parse_immutable / parse_exact_size / parse_mutable + recomposition on the '
        'implementation and through the Lean model (R/X/M ops), results compared as strings.  Implementation-side '
        'oracle per generated object: composed bytes == reference encoder written here from the RFC text; the '
        'reference decoder recovers the values from the composed bytes; the implementation parses the reference '
        'encoding back to the object.  Padding rule: payload lengths 0..35000 (quick: 0..600, every 97th, the last 16; '
        'thorough: all) composed by SshRecordBase.compose and checked against the rule, the reference packet and the '
        'model (SP op).  Non-trivial: the input is not all zero; distinct: (class, bytes).')
ASSUMPTIONS = ['asn1crypto converts key integers and EC points faithfully (keys are carried as the numbers read from the wire)',
               'cryptodatahub supplies the algorithm-name enumerations; they are extracted from the live objects by '
               'tools/extract_ssh.py on every run']
TRUSTED_EXTRA = ['tools/extract_ssh.py: Gen/Ssh.lean equals the live name tables and variant orders '
                 '(cross-checked by the correspondence on every generated name)']


def _ensure_tables():
    """tie 1 for the SSH family: regenerate lean/CpModel/Gen/Ssh.lean from the live code (rewritten only when it
    changes); tools/extract.py does not know these tables"""
    tool = os.path.join(core.VERIF, 'tools', 'extract_ssh.py')
    if os.path.exists(tool):
        env = dict(os.environ)
        env['CP_REPO'] = core.REPO
        env['CP_LEAN'] = core.LEAN
        subprocess.run(['/venv/bin/python', tool], env=env, stdout=subprocess.PIPE, stderr=subprocess.PIPE, check=False)


_ensure_tables()


# ------------------------------------------------------------------------------------------------
# reference encoder / decoder, written from the RFC text (no library code)
# ------------------------------------------------------------------------------------------------

def r_u32(n):
    return struct.pack('>I', n)


def r_string(b):
    return r_u32(len(b)) + bytes(b)


def r_mpint(v):
    """RFC 4251 §5: two's complement, MSB first, no unnecessary leading 0/255 bytes, zero is empty"""
    if v == 0:
        return r_string(b'')
    if v > 0:
        raw = v.to_bytes((v.bit_length() + 7) // 8, 'big')
        if raw[0] & 0x80:
            raw = b'\x00' + raw
        return r_string(raw)
    n = 1
    while not -(1 << (8 * n - 1)) <= v:
        n += 1
    return r_string((v + (1 << (8 * n))).to_bytes(n, 'big'))


def r_namelist(names):
    return r_string(b','.join(names))


def r_packet(payload):
    """RFC 4253 §6, no MAC: total a multiple of 8, at least 4 bytes of padding, the least such"""
    pad = 4
    while (4 + 1 + len(payload) + pad) % 8:
        pad += 1
    return r_u32(1 + len(payload) + pad) + bytes([pad]) + payload + bytes(pad)


def name_text(item):
    return (item if isinstance(item, str) else item.value.code).encode('ascii')


def tag_text(tag):
    return '-'.join([tag.primary_subtag] + list(tag.subsequent_subtags)).encode('ascii')


def r_key_blob(key):
    """RFC 4253 §6.6 / RFC 5656 §3.1 / RFC 8709 §4 from the numbers of the key"""
    name = type(key).__name__
    algo = key.host_key_algorithm.value.code.encode('ascii')
    p = key.public_key.params
    if name == 'SshHostKeyRSA':
        return r_string(algo) + r_mpint(p.public_exponent) + r_mpint(p.modulus)
    if name == 'SshHostKeyDSS':
        return r_string(algo) + r_mpint(p.prime) + r_mpint(p.order) + r_mpint(p.generator) + r_mpint(p.public_key_value)
    if name == 'SshHostKeyEDDSA':
        return r_string(algo) + r_string(bytes(p.key_data))
    if name == 'SshHostKeyECDSA':
        from cryptodatahub.ssh.algorithm import SshEllipticCurveIdentifier
        ident = [c for c in SshEllipticCurveIdentifier if c.value.named_group == p.named_group][0].value.code
        width = max((p.point_x.bit_length() + 7) // 8, (p.point_y.bit_length() + 7) // 8)
        q = b'\x04' + p.point_x.to_bytes(width, 'big') + p.point_y.to_bytes(width, 'big')
        return r_string(algo) + r_string(ident.encode('ascii')) + r_string(q)
    return None


def r_u64(n):
    return struct.pack('>Q', n)


def r_instant(t):
    """uint64 seconds since the epoch; None is the 'forever' sentinel 2^64-1 (PROTOCOL.certkeys)"""
    import calendar
    if t is None:
        return r_u64(2 ** 64 - 1)
    return r_u64(calendar.timegm(t.utctimetuple()))


def r_option(o, wrapped=True):
    """one critical option / extension: string name, string data; the data of a flag is empty, the data of
    force-command / source-address is itself a string (PROTOCOL.certkeys: 'the contents of the data field is ... a
    string'), an unknown option is carried verbatim"""
    tname = type(o).__name__
    if tname == 'SshCertExtensionUnparsed':
        return r_string(o.extension_name.encode('ascii')) + r_string(bytes(o.extension_data))
    name = o.get_extension_name().value.code.encode('ascii')
    if tname == 'SshCertExtensionForceCommand':
        inner = o.command.encode('ascii')
        return r_string(name) + r_string(r_string(inner) if wrapped else inner)
    if tname == 'SshCertExtensionSourceAddress':
        inner = ','.join(str(a) for a in o.addresses).encode('ascii')
        return r_string(name) + r_string(r_string(inner) if wrapped else inner)
    return r_string(name) + r_string(b'')


def r_certificate(c, wrapped=True):
    """PROTOCOL.certkeys, v01 certificates: string type, string nonce, the key's own fields, uint64 serial, uint32 type,
    string key id, string valid principals, uint64 valid after, uint64 valid before, string critical options, string
    extensions, string reserved, string signature key, string signature"""
    tname = type(c).__name__
    if not tname.startswith('SshHostCertificateV01'):
        return None
    p = c.public_key.params
    algo = c.host_key_algorithm.value.code.encode('ascii')
    if tname.endswith('RSA'):
        key = r_mpint(p.public_exponent) + r_mpint(p.modulus)
    elif tname.endswith('DSS'):
        key = r_mpint(p.prime) + r_mpint(p.order) + r_mpint(p.generator) + r_mpint(p.public_key_value)
    elif tname.endswith('EDDSA'):
        key = r_string(bytes(p.key_data))
    elif tname.endswith('ECDSA'):
        from cryptodatahub.ssh.algorithm import SshEllipticCurveIdentifier
        ident = [x for x in SshEllipticCurveIdentifier if x.value.named_group == p.named_group][0].value.code
        width = max((p.point_x.bit_length() + 7) // 8, (p.point_y.bit_length() + 7) // 8)
        key = r_string(ident.encode('ascii')) + r_string(b'\x04' + p.point_x.to_bytes(width, 'big') + p.point_y.to_bytes(width, 'big'))
    else:
        return None
    sig_key = r_key_blob(c.signature_key)
    if sig_key is None:
        return None
    signature = r_string(c.signature.signature_type.value.code.encode('ascii')) + r_string(bytes(c.signature.signature_data))
    return (r_string(algo) + r_string(bytes(c.nonce)) + key + r_u64(c.serial) + r_u32(int(c.certificate_type.value.code)) +
            r_string(c.key_id.encode('ascii')) +
            r_string(b''.join(r_string(pr.value.encode('ascii')) for pr in c.valid_principals)) +
            r_instant(c.valid_after) + r_instant(c.valid_before) +
            r_string(b''.join(r_option(o, wrapped) for o in c.critical_options)) +
            r_string(b''.join(r_option(o, wrapped) for o in c.extensions)) +
            r_string(bytes(c.reserved)) + r_string(sig_key) + r_string(signature))


def r_message(m):
    name = type(m).__name__
    if name == 'SshKeyExchangeInit':
        out = bytes([20]) + bytes(m.cookie)
        for attr in ('kex_algorithms', 'host_key_algorithms', 'encryption_algorithms_client_to_server',
                     'encryption_algorithms_server_to_client', 'mac_algorithms_client_to_server',
                     'mac_algorithms_server_to_client', 'compression_algorithms_client_to_server',
                     'compression_algorithms_server_to_client'):
            out += r_namelist([name_text(i) for i in getattr(m, attr)])
        out += r_namelist([tag_text(t) for t in m.languages_client_to_server])
        out += r_namelist([tag_text(t) for t in m.languages_server_to_client])
        return out + bytes([1 if m.first_kex_packet_follows else 0]) + r_u32(m.reserved)
    if name == 'SshDisconnectMessage':
        return bytes([1]) + r_u32(int(m.reason)) + r_string(m.description.encode('utf-8')) + r_string(m.language.encode('ascii'))
    if name == 'SshUnimplementedMessage':
        return bytes([3]) + r_u32(m.sequence_number)
    if name == 'SshNewKeys':
        return bytes([21])
    if name == 'SshDHKeyExchangeInit':
        return bytes([30]) + r_string(m.ephemeral_public_key)
    if name == 'SshDHGroupExchangeInit':
        return bytes([32]) + r_string(m.ephemeral_public_key)
    if name in ('SshDHKeyExchangeReply', 'SshDHGroupExchangeReply'):
        blob = r_key_blob(m.host_public_key)
        if blob is None:
            return None
        code = 31 if name == 'SshDHKeyExchangeReply' else 33
        return bytes([code]) + r_string(blob) + r_string(m.ephemeral_public_key) + r_string(m.signature)
    if name == 'SshDHGroupExchangeRequest':
        return bytes([34]) + r_u32(m.gex_min) + r_u32(m.gex_number) + r_u32(m.gex_max)
    if name == 'SshDHGroupExchangeGroup':
        return bytes([31]) + r_string(m.p) + r_string(m.g)
    return None


def r_encode(obj):
    """reference encoding of a generated object, or None when the reference does not cover its class"""
    name = type(obj).__name__
    if name.startswith('SshRecord'):
        payload = r_message(obj.packet)
        return None if payload is None else r_packet(payload)
    if name.endswith('AlgorithmVector'):
        return r_namelist([name_text(i) for i in obj])
    if name == 'SshLanguageVector':
        return r_namelist([tag_text(t) for t in obj])
    if name.startswith('SshHostKey'):
        return r_key_blob(obj)
    if name.startswith('SshHostCertificateV01'):
        return r_certificate(obj)
    if name == 'SshProtocolVersion':
        return '{}.{}'.format(int(obj.major), int(obj.minor)).encode('ascii')
    if name == 'SshProtocolMessage':
        sw = obj.software_version
        if type(sw).__name__ == 'SshSoftwareVersionUnparsed':
            text = sw.raw
        else:
            sep = type(sw)._get_version_separator()  # pylint: disable=protected-access
            text = sw.vendor + ('' if sw.version is None else sep + sw.version)
        out = 'SSH-{}.{}-{}'.format(int(obj.protocol_version.major), int(obj.protocol_version.minor), text)
        if obj.comment is not None:
            out += ' ' + obj.comment
        return out.encode('ascii') + b'\r\n'
    return r_message(obj)


class Short(Exception):
    pass


class Reader(object):
    """reference decoder primitives"""

    def __init__(self, data):
        self.data = bytes(data)
        self.pos = 0

    def take(self, n):
        if self.pos + n > len(self.data):
            raise Short()
        out = self.data[self.pos:self.pos + n]
        self.pos += n
        return out

    def u32(self):
        return struct.unpack('>I', self.take(4))[0]

    def string(self):
        return self.take(self.u32())

    def namelist(self):
        s = self.string()
        return s.split(b',') if s else []

    def mpint(self):
        s = self.string()
        return int.from_bytes(s, 'big', signed=True) if s else 0


def r_decode_packet(data):
    r = Reader(data)
    plen = r.u32()
    pad = r.take(1)[0]
    payload = r.take(plen - pad - 1)
    r.take(pad)
    ok = pad >= 4 and (4 + plen) % 8 == 0 and r.pos == len(data)
    return payload, ok


def r_decode_message(payload):
    """values of a message payload as plain Python data"""
    r = Reader(payload)
    code = r.take(1)[0]
    if code == 20:
        cookie = r.take(16)
        lists = [r.namelist() for _ in range(10)]
        return ('kexinit', cookie, lists, r.take(1)[0] != 0, r.u32(), r.pos)
    if code == 1:
        return ('disconnect', r.u32(), r.string(), r.string(), r.pos)
    if code == 3:
        return ('unimplemented', r.u32(), r.pos)
    if code == 21:
        return ('newkeys', r.pos)
    if code == 34:
        return ('gexrequest', r.u32(), r.u32(), r.u32(), r.pos)
    return ('other', code)


def values_of(m):
    name = type(m).__name__
    if name == 'SshKeyExchangeInit':
        lists = [[name_text(i) for i in getattr(m, a)] for a in (
            'kex_algorithms', 'host_key_algorithms', 'encryption_algorithms_client_to_server',
            'encryption_algorithms_server_to_client', 'mac_algorithms_client_to_server', 'mac_algorithms_server_to_client',
            'compression_algorithms_client_to_server', 'compression_algorithms_server_to_client')]
        lists += [[tag_text(t) for t in m.languages_client_to_server], [tag_text(t) for t in m.languages_server_to_client]]
        return ('kexinit', bytes(m.cookie), lists, bool(m.first_kex_packet_follows), m.reserved)
    if name == 'SshDisconnectMessage':
        return ('disconnect', int(m.reason), m.description.encode('utf-8'), m.language.encode('ascii'))
    if name == 'SshUnimplementedMessage':
        return ('unimplemented', m.sequence_number)
    if name == 'SshNewKeys':
        return ('newkeys',)
    if name == 'SshDHGroupExchangeRequest':
        return ('gexrequest', m.gex_min, m.gex_number, m.gex_max)
    return None


# ------------------------------------------------------------------------------------------------
# implementation-side oracle for one generated object
# ------------------------------------------------------------------------------------------------

def object_findings(name, obj):
    """[(key, message)] — the property itself on the real code, no model involved"""
    bad = []
    cls, canon_fn = clsops.modelled()[name]
    try:
        data = bytes(obj.compose())
    except Exception as exc:  # pylint: disable=broad-except
        return [('compose:' + type(obj).__name__, '{}: compose() raised {}'.format(type(obj).__name__, core.err_line(exc)))]
    ref = r_encode(obj)
    tname = type(obj).__name__
    if tname == 'SshProtocolMessage' and len(data) > 255:
        # RFC 4253 §4.2: "The maximum length of the string is 255 characters, including the Carriage Return and
        # Line Feed" (compose() refuses longer ones since the repair)
        return [('banner-composed-over-255', 'SshProtocolMessage.compose() produced an identification string of {} '
                 'bytes ({}…); RFC 4253 allows 255'.format(len(data), hx(data)[:60]))]
    if ref is not None and ref != data and tname.startswith('SshHostCertificateV01') and r_certificate(obj, wrapped=False) == data:
        # everything but the option data is the specified layout: the recorded deviation, under its own key
        bad.append(('cert-option-data-not-a-string', '{}: the data of force-command / source-address is written as the bare '
                    'text, PROTOCOL.certkeys wraps it in a string: composed {}'.format(tname, hx(data)[:200])))
        ref = data
    if ref is not None and ref != data:
        bad.append(('encode:' + tname, '{}: composed {} but the RFC encoding is {}'.format(tname, hx(data)[:400], hx(ref)[:400])))
    # the reference decoder recovers the values from what the implementation composed
    msg = obj.packet if tname.startswith('SshRecord') else obj
    want = values_of(msg) if hasattr(msg, 'compose') else None
    try:
        payload = data
        if tname.startswith('SshRecord'):
            payload, conformant = r_decode_packet(data)
            if not conformant:
                bad.append(('packet-form:' + tname, '{}: composed packet {} violates RFC 4253 §6'.format(tname, hx(data)[:200])))
        if want is not None:
            got = r_decode_message(payload)
            if got[:-1] != want or got[-1] != len(payload):
                bad.append(('decode:' + tname, '{}: reference decoder reads {} from {} — object holds {}'.format(
                    tname, str(got)[:300], hx(payload)[:200], str(want)[:300])))
    except Short:
        bad.append(('decode:' + tname, '{}: composed bytes {} are truncated for the reference decoder'.format(tname, hx(data)[:200])))
    # the implementation parses the RFC encoding back to the object
    if ref is not None:
        try:
            back, n = cls.parse_immutable(ref + b'\x00\x07')
            same_value = clsops.canon_text(canon_fn, back) == clsops.canon_text(canon_fn, obj)
            if 'UNMODELLED' in (clsops.canon_text(canon_fn, back), clsops.canon_text(canon_fn, obj)):
                from harness import canon as _canon
                same_value = _canon.generic(back) == _canon.generic(obj)     # outside the model: field by field
            if n != len(ref) or not same_value:
                bad.append(('parse-of-rfc:' + tname, '{}: RFC encoding {} parses (n={} of {}) to {} instead of {}'.format(
                    tname, hx(ref)[:300], n, len(ref), clsops.canon_text(canon_fn, back)[:200],
                    clsops.canon_text(canon_fn, obj)[:200])))
        except Exception as exc:  # pylint: disable=broad-except
            bad.append(('parse-of-rfc:' + tname, '{}: RFC encoding {} rejected: {}'.format(tname, hx(ref)[:300], core.err_line(exc))))
    return bad


class ObjOracle(object):
    """case {'kind':'obj','cls':name,'data':hex of the composed object,'seed':…} — replayable by data"""

    @staticmethod
    def prop(case):
        name = case['cls']
        cls, _ = clsops.modelled()[name]
        try:
            obj = cls.parse_exact_size(unhx(case['data']))
        except Exception:  # pylint: disable=broad-except
            return []
        if type(obj).__name__.endswith('Variant'):
            return []
        return object_findings(name, obj)


# ------------------------------------------------------------------------------------------------
# padding rule
# ------------------------------------------------------------------------------------------------

def _raw_message(size):
    """a message object of exactly `size` payload bytes, composed by the library's own record composer"""
    from cryptoparser.ssh.subprotocol import SshMessageBase, SshDHKeyExchangeInit, SshNewKeys

    if size >= 5:
        return SshDHKeyExchangeInit(bytes((i * 7 + size) & 0xff for i in range(size - 5)))
    if size == 1:
        return SshNewKeys()

    class Raw(SshMessageBase):  # payload lengths no real message has (0, 2, 3, 4): compose-only stand-in
        @classmethod
        def get_message_code(cls):
            return 2

        @classmethod
        def _parse(cls, parsable):
            raise NotImplementedError()

        def compose(self):
            return bytes([2] * size)

    return Raw()


def padding_lengths(tier):
    if tier == 'thorough':
        return list(range(0, 35001))
    return sorted(set(list(range(0, 601)) + list(range(601, 35001, 97)) + list(range(34985, 35001))))


class PadOracle(object):
    """case {'kind':'pad','len':L}"""

    @staticmethod
    def lines(case):
        return ['SP {}'.format(case['len'])]

    @staticmethod
    def _compose(size):
        from cryptoparser.ssh.record import SshRecordKexDH
        return bytes(SshRecordKexDH(_raw_message(size)).compose())

    @classmethod
    def impl(cls, case):
        data = cls._compose(case['len'])
        plen = struct.unpack('>I', data[:4])[0]
        pad = data[4]
        return ['OK {} {} {}'.format(pad, plen, pad)]

    @classmethod
    def prop(cls, case):
        size = case['len']
        data = cls._compose(size)
        plen = struct.unpack('>I', data[:4])[0]
        pad = data[4]
        bad = []
        if not 4 <= pad <= 255:
            bad.append(('padding-range', 'payload {}: padding length {}'.format(size, pad)))
        if len(data) % 8:
            bad.append(('padding-multiple', 'payload {}: packet of {} bytes is not a multiple of 8'.format(size, len(data))))
        if plen != 1 + size + pad or len(data) != 4 + plen:
            bad.append(('packet-length', 'payload {}: packet_length {} padding {} total {}'.format(size, plen, pad, len(data))))
        if data != r_packet(data[5:5 + size]):
            bad.append(('packet-form', 'payload {}: packet differs from the reference packet'.format(size)))
        return bad


# ------------------------------------------------------------------------------------------------
# hand-written corpus: (class, bytes) edge cases that generators and mutations rarely reach
# ------------------------------------------------------------------------------------------------

def corpus():
    s = r_string
    out = []
    for b in [b'SSH-2.0-foo\r\n', b'SSH-3.0-x\r\n', b'SSH-2.0-foo \n', b'SSH-2.0-\n', b'SSH-2.0- x\n', b'SSH-2.0-dropbear_\n',
              b'SSH-2.0-dropbear___1\n', b'SSH-2..0-x\n\n\nabc', b'SSH-2.0-OpenSSH_8.9 a  b\r\n', b'SSH-2.0-a\rb\n',
              b'SSH-2.0-a b\rc\n', b'SS', b'SSH', b'SSH-', b'SSH-2', b'SSH-2.0-x', b'SSH-2.0-x\r', b'SSH-2.0-' + b'x' * 300 + b'\n',
              b'SSH-2.0-cryptlib\n', b'SSH-2.0-IPSSH-6.6.0\n', b'SSH-02.00-x\n', b'SSH-2.0-x\xff\n', b'SSH-1.99-Monaca\n',
              b'SSH-2.0-OpenSSH\n', b'SSH-2.0-\r\n', b'SSH-2.0-x\r\r\n', b'SSH-2.0-x \r\n', b'SSH-2.0-x  \n',
              b'SSH-2.0-OpenSSH_ a\n', b'SSH-2.0-OpenSSH_8\rx a\n', b'SSH-2.0-cryptlib \r\n', b'SSH\xe9', b'SS\xe9-',
              b'SSH-2.0-x y\n' + b'\n' * 250, b'SSH-2.0-x y\n' + b'\n' * 240, b'SSH-1.5-x\n', b'SSH-0.0-x\n', b'SSH-2.-x\n',
              b'SSH-.0-x\n', b'SSH-2.0_x\n', b'ssh-2.0-x\n', b'SSH-2.0-IPSSH\n', b'SSH-2.0-IPSSH--\n', b'SSH-2.0-Monaca x\n',
              b'SSH-2.0-cryptlibx\n', b'SSH-2.0-dropbear\n', b'SSH-2.0-OpenSSH_7.4 \n', b'SSH-2.0-x' + b' y' * 120 + b'\n',
              b'SSH-2.' + b'0' * 240 + b'-x\n', b'SSH-2.0-x\n\r', b'\n', b'SSH-2.0-\x00\n']:
        out.append(('SshProtocolMessage', b))
    # the 255-byte limit is on the composed (CR LF terminated) form; exactly one LF ends the string
    for total in (253, 254, 255, 256):
        out.append(('SshProtocolMessage', b'SSH-2.0-' + b'x' * (total - 9) + b'\n'))           # bare LF
        out.append(('SshProtocolMessage', b'SSH-2.0-' + b'x' * (total - 10) + b'\r\n'))
        out.append(('SshProtocolMessage', b'SSH-2.0-' + b'x' * (total - 12) + b' c\r\n\n\n'))
        out.append(('SshProtocolMessage', b'SSH-2.0-' + b'x' * (total - 11) + b' \r\n'))
        out.append(('SshProtocolMessage', b'SSH-2.0-' + b'x' * (total - 10) + b' \n'))
    out.append(('SshProtocolMessage', b'SSH-2.' + b'1' * 4301 + b'-x\n'))
    out.append(('SshProtocolMessage', b'SSH-' + b'2' * 4301 + b'.0-x\n'))
    for b in [b'2.0', b'1.99', b'3.0', b'2', b'2.', b'.0', b'2..0', b'02.010x', b'2.0-', b'x']:
        out.append(('SshProtocolVersion', b))
    for b in [bytes.fromhex('00000010') + b'abc', r_u32(4) + b'abc,', r_u32(4) + b'a,,c', r_u32(4) + b',abc', r_u32(4), b'\x00\x00\x00',
              r_u32(3) + b'a\xffc', r_u32(0), r_u32(0) + b'x', r_u32(1) + b',', r_u32(2) + b'a,', r_u32(9) + b'none,zlib', r_u32(9) + b'none,zlib,',
              r_u32(4) + b'NONE', r_u32(5) + b'none ', r_u32(3) + b'a\x00b', r_u32(2 ** 32 - 1) + b'none', r_u32(4) + b'none' + b'tail']:
        for vec in ('SshCompressionAlgorithmVector', 'SshKexAlgorithmVector'):
            out.append((vec, b))
    for b in [r_u32(5) + b'en-US', r_u32(9) + b'en-,de-DE', r_u32(5) + b'e1-US', r_u32(6) + b'en--US', r_u32(9) + b'abcdefghi', r_u32(2) + b'en',
              r_u32(11) + b'en-abcdefghi', r_u32(1) + b'-', r_u32(3) + b'en,', r_u32(0)]:
        out.append(('SshLanguageVector', b))
    # binary packets with inconsistent inner lengths (an invalid value since the record parser is confined to packet_length)
    unimpl = bytes([3]) + r_u32(1)
    for b in [r_u32(2) + b'\x00' + unimpl, r_u32(6) + b'\x00' + unimpl, r_u32(34) + b'\x00' + unimpl + bytes(28),
              r_u32(12) + b'\xc8' + unimpl + bytes(200), r_u32(12) + b'\xc8' + unimpl + bytes(6), r_u32(0), r_u32(0) + b'\x00',
              r_u32(1) + b'\x00', r_u32(1) + b'\x04', r_u32(6) + b'\x00' + bytes([255]) + r_u32(1), r_u32(6) + b'\x00' + bytes([2]) + r_u32(1),
              r_u32(2 ** 32 - 1) + b'\x04' + unimpl, r_packet(unimpl), r_packet(unimpl) + b'\x01', r_packet(bytes([21])), r_packet(bytes([21]) + b'xx')]:
        for rec in ('SshRecordInit', 'SshRecordKexDH', 'SshRecordKexDHGroup'):
            out.append((rec, b))
    # host keys
    def mp(v):
        return r_mpint(v)
    for b in [s(b'ssh-rsa') + mp(65537) + mp(2 ** 2047 + 12345), s(b'ssh-rsa') + mp(0) + mp(-5), s(b'ssh-rsa') + s(b'\x00\x00\x01') + mp(5),
              s(b'ssh-rsa') + mp(3), s(b'ssh-rsa') + r_u32(2), s(b'ssh-rsa') + r_u32(2) + b'\x01', s(b'ssh-dss') + mp(7) + mp(-3) + mp(0) + mp(2 ** 1024),
              s(b'ssh-ed25519') + s(b'\x01' * 32), s(b'ssh-ed25519') + s(b''), s(b'ssh-ed448') + s(b'\x01' * 57),
              s(b'ecdsa-sha2-nistp256') + s(b'nistp256') + s(b'\x04' + b'\x05' * 64),
              s(b'ecdsa-sha2-nistp256') + s(b'nistp256') + s(b'\x04' + b'\x00' * 3 + b'\x01' * 61),
              s(b'ecdsa-sha2-nistp256') + s(b'nistp256') + s(b'\x03' + b'\x01' * 32), s(b'ecdsa-sha2-nistp256') + s(b'nistp384') + s(b''),
              s(b'ecdsa-sha2-nistp256') + s(b'nistp384') + s(b'\x04'), s(b'ecdsa-sha2-nistp256') + s(b'nistp384') + s(b'\x04' + b'\x00' * 64),
              s(b'ecdsa-sha2-nistp256') + s(b'nistp384') + s(b'\x04' + b'\x09' * 63),
              s(b'ecdsa-sha2-nistp256') + s(b'foo') + s(b''), s(b'foo'), s(b'ssh-rsa\xff'), b'\x00\x00', s(b'rsa-sha2-256') + mp(3) + mp(5),
              s(b'x509v3-sign-rsa') + mp(3) + mp(5), s(b'null') + mp(3), s(b'ssh-rsa-cert-v01@openssh.com') + s(b'n'), s(b'ssh-gost2001') + s(b'x')]:
        for kcls in ('SshHostPublicKeyVariant', 'SshHostKeyRSA', 'SshHostKeyECDSA'):
            out.append((kcls, b))
    # v01 certificates
    def u64(n):
        return struct.pack('>Q', n)

    def cert(after=u64(1600000000), before=u64(1700000000), crit=b'', ext=b'', ctype=2, sigtype=b'ssh-rsa', sigtail=b'',
             sigkey=None, algo=b'ssh-rsa-cert-v01@openssh.com'):
        sigkey = s(b'ssh-rsa') + mp(65537) + mp(2 ** 511 + 7) if sigkey is None else sigkey
        return (s(algo) + s(b'\x11' * 16) + mp(65537) + mp(2 ** 1023 + 9) + u64(7) + r_u32(ctype) + s(b'key id') +
                s(s(b'host') + s(b'')) + after + before + s(crit) + s(ext) + s(b'') + s(sigkey) +
                s(s(sigtype) + s(b'sig') + sigtail))

    flag = s(b'permit-pty') + r_u32(0)
    for b in [cert(), cert(after=u64(2 ** 64 - 1)), cert(before=u64(2 ** 64 - 1)), cert(after=u64(2 ** 32 + 5)),
              cert(crit=s(b'source-address') + s(b'10.0.0.0/8')), cert(crit=s(b'force-command') + s(b'ls')),
              cert(crit=flag), cert(ext=s(b'force-command') + s(b'ls')), cert(ext=flag + s(b'permit-user-rc') + r_u32(0)),
              cert(ext=s(b'permit-pty') + r_u32(3) + b'abc'), cert(ext=s(b'permit-ptyx') + r_u32(0)),
              cert(ext=s(b'permit-pt') + s(b'')), cert(ext=s(b'perm\xffit') + s(b'')), cert(ext=s(b'x') + r_u32(9)),
              cert(ctype=3), cert(ctype=0), cert(sigtype=b'nope'), cert(sigtail=b'\x00'), cert(sigkey=cert()),
              cert(sigkey=s(b'ssh-ed25519') + s(b'\x01' * 32) + b'x'), cert(algo=b'ssh-rsa'),
              cert(algo=b'ssh-dss-cert-v01@openssh.com'), cert()[:-1], cert() + b'\x00']:
        for ccls in ('SshHostCertificateV01RSA', 'SshHostCertificateV01DSS', 'SshHostPublicKeyVariant'):
            out.append((ccls, b))
    for b in [s(b''), s(flag), s(flag + flag), s(s(b'permit-ptyx') + r_u32(0)), s(s(b'a') + s(b'b')), s(s(b'force-command') + s(b'ls')),
              s(s(b'source-address') + s(b'10.0.0.0/8,::1/128')), s(s(b'source-address') + s(b'nonsense')), s(flag)[:-1], r_u32(5) + flag]:
        out.append(('SshCertCriticalOptionVector', b))
        out.append(('SshCertExtensionVector', b))
    # messages
    for b in [bytes([1]) + r_u32(2) + s(b'\xc3\x28') + s(b'en'), bytes([1]) + r_u32(2) + s('é'.encode('utf-8')) + s(b'\xff'),
              bytes([1]) + r_u32(0) + s(b'') + s(b''), bytes([1]) + r_u32(16) + s(b'') + s(b''), bytes([1]) + r_u32(2) + s(b'\xed\xa0\x80') + s(b''),
              bytes([1]) + r_u32(2) + s(b'\xf4\x90\x80\x80') + s(b''), bytes([1]) + r_u32(2) + s(b'\xe0\x80\x80') + s(b''),
              bytes([1]) + r_u32(2) + s(b'\xf0\x9f\x98\x80') + s(b'x'), bytes([7]), bytes([0]), bytes([2]), bytes([20]), b'']:
        for v in ('SshMessageVariantInit', 'SshMessageVariantKexDH', 'SshDisconnectMessage'):
            out.append((v, b))
    return out


# ------------------------------------------------------------------------------------------------
# direct probes of statements outside the model
# ------------------------------------------------------------------------------------------------

def certificate_option_probe():
    """PROTOCOL.certkeys: an option is `string name, string data`, and the data of force-command / source-address
    is itself a `string` (ssh-keygen: put_cstring(name); put_stringb(buffer holding put_cstring(value)))"""
    from cryptoparser.ssh.key import SshCertExtensionForceCommand
    bad = []
    got = bytes(SshCertExtensionForceCommand('ls').compose())
    want = r_string(b'force-command') + r_string(r_string(b'ls'))
    if got != want:
        bad.append(('cert-option-data-not-a-string', 'SshCertExtensionForceCommand("ls").compose() = {} but PROTOCOL.certkeys '
                    'encodes the option as {} (data is a string holding a string)'.format(hx(got), hx(want))))
    return bad


def certificate_extension_name_probe():
    """PROTOCOL.certkeys: unknown extensions are to be ignored — a name that merely starts with a known name
    (the string-enum parser matches prefixes) must not make the whole vector unparsable"""
    from cryptoparser.ssh.key import SshCertExtensionVector
    wire = r_string(r_string(b'permit-pty-extended@example.com') + r_string(b''))
    try:
        vec = SshCertExtensionVector.parse_exact_size(wire)
        names = [getattr(e, 'extension_name', None) for e in vec]
        if names != ['permit-pty-extended@example.com']:
            return [('cert-extension-name-prefix', 'extension permit-pty-extended@example.com parsed as {}'.format(names))]
    except Exception as exc:  # pylint: disable=broad-except
        return [('cert-extension-name-prefix', 'an extension vector holding the unknown extension '
                 '"permit-pty-extended@example.com" is rejected with {} (its name starts with the known "permit-pty")'.format(
                     core.err_line(exc)))]
    return []


def banner_limit_probe():
    """RFC 4253 §4.2: 255 bytes including CR LF is the maximum — composed at 255, refused at 256"""
    from harness import gen_ssh
    import random
    from cryptoparser.common.exception import TooMuchData
    bad = []
    rng = random.Random(255)
    for total, with_comment in ((255, False), (255, True), (256, False), (256, True), (300, True)):
        obj = gen_ssh.sized_banner(rng, total, with_comment)
        try:
            data = bytes(obj.compose())
        except TooMuchData as exc:
            if total <= 255 or exc.bytes_needed != total - 255:
                bad.append(('banner-limit', 'identification string of {} bytes: compose() raised TooMuchData({})'.format(
                    total, exc.bytes_needed)))
            continue
        except Exception as exc:  # pylint: disable=broad-except
            bad.append(('banner-limit', 'identification string of {} bytes: compose() raised {}'.format(total, core.err_line(exc))))
            continue
        if total > 255:
            bad.append(('banner-composed-over-255', 'SshProtocolMessage.compose() produced {} bytes; RFC 4253 allows 255'.format(len(data))))
        elif len(data) != total:
            bad.append(('banner-limit', 'sized banner of {} bytes composed to {}'.format(total, len(data))))
    return bad


class Dispatch(object):
    @staticmethod
    def lines(case):
        return PadOracle.lines(case) if case['kind'] == 'pad' else clsrun.ClsOracle.lines(case)

    @staticmethod
    def impl(case):
        return PadOracle.impl(case) if case['kind'] == 'pad' else clsrun.ClsOracle.impl(case)

    @staticmethod
    def prop(case):
        if case['kind'] == 'pad':
            return PadOracle.prop(case)
        if case['kind'] == 'obj':
            return ObjOracle.prop(case)
        return []


def ssh_generators():
    from harness import gen_ssh
    return list(gen_ssh.ALL_GENERATORS)


def cls_case(name, data):
    return {'kind': 'cls', 'cls': name, 'data': hx(data), 'want': [], 'framing': False}


def run(run, driver_ok=True, deep=False):  # pylint: disable=redefined-outer-name
    tier = 'thorough' if deep else run.tier
    per_class = 60 if tier == 'thorough' else 12
    nmut = 10 if tier == 'thorough' else 6
    cases = []
    for name, gen in ssh_generators():
        for _ in range(per_class):
            try:
                obj = gen(run.rng)
                data = bytes(obj.compose())
            except Exception as exc:  # pylint: disable=broad-except
                run.count('generator_errors', '{}:{}'.format(name, type(exc).__name__))
                continue
            run.evaluations += 1
            for key, message in object_findings(name, obj):
                run.finding(key, message, {'kind': 'obj', 'cls': name, 'data': hx(data)})
            cases.append(cls_case(name, data))
            for m in clsrun.mutations(run.rng, data, nmut):
                cases.append(cls_case(name, m))
            for t in clsrun.all_truncations(data, 24):
                cases.append(cls_case(name, t))
    for name, data in corpus():
        cases.append(cls_case(name, data))
    # certificate wire forms no compose() produces: 64-bit validity fields holding all-ones, values beyond 32 bits, the last
    # second of a datetime and the values after it (gen_ssh.RAW_INPUTS)
    from harness import gen_ssh
    for name, gen in getattr(gen_ssh, 'RAW_INPUTS', ()):
        for _ in range(per_class):
            try:
                data = bytes(gen(run.rng))
            except Exception as exc:  # pylint: disable=broad-except
                run.count('generator_errors', '{}:{}'.format(name, type(exc).__name__))
                continue
            run.count('raw_inputs', name)
            cases.append(cls_case(name, data))
    run.sample(cases[0])
    run.sample(cases[len(cases) // 2])
    run.sample(cases[-1])
    clsrun.run_cases(run, cases, driver_ok)
    # padding rule
    pads = [{'kind': 'pad', 'len': n} for n in padding_lengths(tier)]
    for c in pads:
        run.count('ops', 'pad')
        run.note_nontrivial(('pad', c['len']))
    run.sample(pads[len(pads) // 3])
    if driver_ok:
        core.correspond(run, Dispatch, pads)
    else:
        for c in pads:
            run.evaluations += 1
            for key, message in PadOracle.prop(c):
                run.finding(key, message, c)
    for key, message in certificate_option_probe():
        run.finding(key, message, {'kind': 'probe', 'name': 'certificate_option_probe'})
    for key, message in banner_limit_probe():
        run.finding(key, message, {'kind': 'probe', 'name': 'banner_limit_probe'})
    for key, message in certificate_extension_name_probe():
        run.finding(key, message, {'kind': 'probe', 'name': 'certificate_extension_name_probe'})
    run.notes.append('{} class-level cases, {} payload lengths; v00 certificates, X.509 host keys, the source-address option '
                     'and certificates reached through SshHostPublicKeyVariant are outside the model (UNMODELLED); the '
                     'certificate option encoding is probed directly'.format(len(cases), len(pads)))


def search(run, proof):  # pylint: disable=redefined-outer-name,unused-argument
    if run.tier != 'thorough':
        sub = core.Run(run.prop, 'thorough', run.seed + 1)
        sub.kf = run.kf
        globals()['run'](sub, driver_ok=False, deep=True)
        run.violations.extend(sub.violations)
        run.evaluations += sub.evaluations
        run.notes.append('failing-input search: thorough generation and all payload lengths 0..35000 on the '
                         'implementation, {} evaluations'.format(sub.evaluations))


def replay(case):
    kind = case.get('kind')
    if kind == 'pad':
        return PadOracle.prop(case)
    if kind == 'obj':
        return ObjOracle.prop(case)
    if kind == 'probe':
        return {'banner_limit_probe': banner_limit_probe,
                'certificate_extension_name_probe': certificate_extension_name_probe}.get(
                    case.get('name'), certificate_option_probe)()
    return clsrun.ClsOracle.prop(case)
