# -*- coding: utf-8 -*-
"""C09 — opportunistic-TLS application messages match their protocol specifications.

Three parts.
 (1) correspondence model <-> implementation for the modelled classes (MySQL, TPKT, X.224, RDP
     negotiation, OpenVPN, PostgreSQL) over valid encodings, mutations and every truncation;
 (2) implementation-side oracles written here, independently of the library AND of the Lean files,
     from the protocol documents: a reference encoder and decoder per message; for every generated
     object `compose() == reference`, the reference decoder recovers the values, the library parses the
     reference encoding to an object of the SAME class with the same values;
 (3) LDAP StartTLS (outside the Lean model, asn1crypto): the implementation's encodings equal a
     reference BER encoder and the constants of `CpSpec/Opp.lean`; a response is not returned as a
     request.
"""
import random
import struct

from harness import core, canon, clsops, clsrun, gen_opp, canon_opp
from harness.core import hx, unhx

LEAN_MODULES = ['CpProps.C09', 'CpProps.C09Ldap']
RULE = ('per modelled class (16): seeded objects from the library constructors (all capability/status flag subsets by '
        'random masks plus empty/full/singletons, both protocol versions, all 41 character sets, the three kinds of MySQL '
        'greeting - CLIENT_PLUGIN_AUTH with a second part of 13..247 bytes, CLIENT_SECURE_CONNECTION alone (pre-5.5.7) '
        'with 13 bytes, neither -, session ids over the 64-bit range incl. boundaries, packet-id arrays of 0..255 '
        'entries, X.224 references over 16 bits, user data of 0..249 bytes, every subset of the RDP protocols (the '
        'zero-valued member included) and of both flag enumerations), plus MySQL greetings laid out from the '
        'documentation with the length octet 21, 8, 0, 255, 1..7 and arbitrary and pre-5.5.7 ones with and without a '
        'filler in it; each composed, then parsed by model and implementation: as is, with a suffix, under 6 seeded '
        'mutations, and at EVERY truncation when at most 80 bytes; plus the reference encoder/decoder comparison on '
        'every object, constructible MySQL greetings without an encoding (compose() must refuse them), every LDAP result '
        'code, and fixed probes: the repaired behaviours (zero-valued RDP protocol member, second part of the MySQL auth '
        'plugin data, embedded NUL) are REQUIRED there, a reappearance is a violation. '
        'Non-trivial: bytes not all zero; distinct: (class, bytes).')
ASSUMPTIONS = [
    'asn1crypto BER/DER (LDAP) is outside the model; LDAP is checked on the implementation only, against a reference '
    'BER encoder written in this file and against the byte constants of CpSpec/Opp.lean',
    'the class constants restated in CpModel/Opp/Msg.lean (header sizes, type and op codes) are compared with the live '
    'class attributes on every run (driver pseudo-class OppConsts)',
]
TRUSTED_EXTRA = ['the reference encoders/decoders in harness/props/c09.py (written from the MySQL protocol documentation, '
                 'T.123, X.224, MS-RDPBCGR, the OpenVPN protocol description, the PostgreSQL protocol, RFC 4511)']


# ------------------------------------------------------------------------------------------------
# reference encoders / decoders, from the protocol documents (no library code, no Lean)
# ------------------------------------------------------------------------------------------------

def ref_mysql_packet(f):
    return len(f['payload']).to_bytes(3, 'little') + bytes([f['seq']]) + f['payload']


def dec_mysql_packet(b):
    n = int.from_bytes(b[0:3], 'little')
    assert len(b) == 4 + n
    return {'seq': b[3], 'payload': b[4:4 + n]}


def ref_mysql_ssl_request(f):
    if f['flags'] >> 9 & 1:     # CLIENT_PROTOCOL_41
        return struct.pack('<IIB', f['flags'], f['max'], f['charset']) + bytes(23)
    return struct.pack('<H', f['flags']) + f['max'].to_bytes(3, 'little')


def dec_mysql_ssl_request(b):
    lo = int.from_bytes(b[0:2], 'little')
    if lo >> 9 & 1:
        assert len(b) == 32
        hi = int.from_bytes(b[2:4], 'little')
        return {'flags': lo | hi << 16, 'max': int.from_bytes(b[4:8], 'little'), 'charset': b[8]}
    assert len(b) == 5
    return {'flags': lo, 'max': int.from_bytes(b[2:5], 'little'), 'charset': None}


def ref_mysql_v10(f):
    plugin = f['caps'] >> 19 & 1    # CLIENT_PLUGIN_AUTH
    out = bytes([f['version']]) + f['server_version'] + b'\x00' + struct.pack('<I', f['thread_id']) + f['part1'] + b'\x00'
    out += struct.pack('<HBHH', f['caps'] & 0xffff, f['charset'], f['status'], f['caps'] >> 16)
    out += bytes([8 + len(f['part2']) if plugin else 0]) + bytes(10) + f['part2']
    if plugin:
        out += f['plugin_name'] + b'\x00'
    return out


def dec_mysql_v10(b):
    f = {'version': b[0]}
    end = b.index(b'\x00', 1)
    f['server_version'] = b[1:end]
    p = end + 1
    f['thread_id'] = int.from_bytes(b[p:p + 4], 'little')
    f['part1'] = b[p + 4:p + 12]
    assert b[p + 12] == 0
    p += 13
    lo, cs, st, hi, adl = struct.unpack('<HBHHB', b[p:p + 8])
    f['caps'], f['charset'], f['status'] = lo | hi << 16, cs, st
    p += 8 + 10
    if f['caps'] >> 19 & 1:
        n = max(13, adl - 8)
        f['part2'] = b[p:p + n]
        p += n
        end = b.index(b'\x00', p)
        f['plugin_name'] = b[p:end]
        assert end + 1 == len(b)
    else:
        f['part2'], f['plugin_name'] = b'', b''
        if f['caps'] >> 15 & 1:     # CLIENT_SECURE_CONNECTION alone: the length octet is the constant 00, MAX(13, -8) bytes
            assert adl == 0
            f['part2'] = b[p:p + 13]
            p += 13
        assert p == len(b)
    return f


def ref_tpkt(f):
    return b'\x03\x00' + (len(f['tpdu']) + 4).to_bytes(2, 'big') + f['tpdu']


def dec_tpkt(b):
    assert b[0] == 3 and int.from_bytes(b[2:4], 'big') == len(b)
    return {'tpdu': b[4:]}


def ref_x224(f):
    # X.224 13.3/13.4: LI, code|CDT, DST-REF, SRC-REF, class option
    return bytes([6 + len(f['data']), f['code']]) + f['dst_ref'].to_bytes(2, 'big') + f['src_ref'].to_bytes(2, 'big') + \
        b'\x00' + f['data']


def dec_x224(b):
    assert b[0] + 1 == len(b) and b[6] == 0
    return {'code': b[1] & 0xf0, 'dst_ref': int.from_bytes(b[2:4], 'big'), 'src_ref': int.from_bytes(b[4:6], 'big'),
            'data': b[7:]}


def ref_rdp_neg(f):
    return struct.pack('<BBHI', f['type'], f['flags'], 8, f['protocols'])


def dec_rdp_neg(b):
    t, fl, ln, pr = struct.unpack('<BBHI', b)
    assert ln == 8
    return {'type': t, 'flags': fl, 'protocols': pr}


def ref_ovpn(f):
    out = bytes([f['op'] << 3]) + struct.pack('!QB', f['sid'], len(f['acks']))
    out += b''.join(struct.pack('!I', a) for a in f['acks'])
    if f['acks']:
        out += struct.pack('!Q', f['rsid'])
    if f['pid'] is not None:
        out += struct.pack('!I', f['pid'])
    return out + f['payload']


def dec_ovpn(b):
    f = {'op': b[0] >> 3, 'sid': int.from_bytes(b[1:9], 'big')}
    n = b[9]
    p = 10
    f['acks'] = [int.from_bytes(b[p + 4 * i:p + 4 * i + 4], 'big') for i in range(n)]
    p += 4 * n
    f['rsid'] = None
    if n:
        f['rsid'] = int.from_bytes(b[p:p + 8], 'big')
        p += 8
    f['pid'] = None
    if f['op'] != 5:
        f['pid'] = int.from_bytes(b[p:p + 4], 'big')
        p += 4
    f['payload'] = b[p:]
    return f


def ref_ovpn_tcp(f):
    return struct.pack('!H', len(f['packet'])) + f['packet']


def dec_ovpn_tcp(b):
    assert int.from_bytes(b[0:2], 'big') == len(b) - 2
    return {'packet': b[2:]}


def ref_pg_ssl(_):
    return struct.pack('!II', 8, 1234 << 16 | 5679)


def ref_pg_sync(_):
    return b'S'


def ber(tag, content):
    n = len(content)
    if n < 128:
        return bytes([tag, n]) + content
    ln = n.to_bytes((n.bit_length() + 7) // 8, 'big')
    return bytes([tag, 0x80 | len(ln)]) + ln + content


def ber_int(v):
    return v.to_bytes(v.bit_length() // 8 + 1, 'big', signed=True)


LDAP_STARTTLS_OID = b'1.3.6.1.4.1.1466.20037'


def ref_ldap_request():
    # LDAPMessage { messageID 1, protocolOp [APPLICATION 23] ExtendedRequest { requestName [0] OID } }
    return ber(0x30, ber(0x02, ber_int(1)) + ber(0x77, ber(0x80, LDAP_STARTTLS_OID)))


def ref_ldap_response(rc):
    # LDAPMessage { messageID 1, protocolOp [APPLICATION 24] ExtendedResponse { resultCode, matchedDN "", diagnosticMessage "" } }
    return ber(0x30, ber(0x02, ber_int(1)) + ber(0x78, ber(0x0a, ber_int(rc)) + ber(0x04, b'') + ber(0x04, b'')))


# ------------------------------------------------------------------------------------------------
# the fields of a library object, in the vocabulary of the reference coders
# ------------------------------------------------------------------------------------------------

def word(flags):
    w = 0
    for x in flags:
        w |= int(x)
    return w


def fields(obj):
    name = type(obj).__name__
    if name == 'MySQLRecord':
        return {'seq': obj.packet_number, 'payload': bytes(obj.packet_bytes)}
    if name == 'MySQLHandshakeSslRequest':
        return {'flags': word(obj.capabilities), 'max': obj.max_packet_size,
                'charset': None if obj.character_set is None or not word(obj.capabilities) >> 9 & 1
                else obj.character_set.value.code}
    if name == 'MySQLHandshakeV10':
        return {'version': int(obj.protocol_version), 'server_version': obj.server_version.encode('ascii'),
                'thread_id': obj.connection_id, 'part1': bytes(obj.auth_plugin_data), 'caps': word(obj.capabilities),
                'charset': obj.character_set.value.code, 'status': word(obj.states),
                'part2': bytes(obj.auth_plugin_data_2 or b''),
                'plugin_name': (obj.auth_plugin_name or '').encode('ascii')}
    if name == 'TPKT':
        return {'tpdu': bytes(obj.message)}
    if name in ('COTPConnectionRequest', 'COTPConnectionConfirm'):
        return {'code': {'COTPConnectionRequest': 0xe0, 'COTPConnectionConfirm': 0xd0}[name], 'dst_ref': obj.dst_ref,
                'src_ref': obj.src_ref, 'data': bytes(obj.user_data)}
    if name in ('RDPNegotiationRequest', 'RDPNegotiationResponse'):
        return {'type': {'RDPNegotiationRequest': 1, 'RDPNegotiationResponse': 2}[name], 'flags': word(obj.flags),
                'protocols': word(obj.protocol)}
    if name.startswith('OpenVpnPacket') and name != 'OpenVpnPacketWrapperTcp':
        op = {'OpenVpnPacketControlV1': 4, 'OpenVpnPacketAckV1': 5, 'OpenVpnPacketHardResetClientV2': 7,
              'OpenVpnPacketHardResetServerV2': 8}[name]
        return {'op': op, 'sid': obj.session_id, 'acks': list(obj.packet_id_array), 'rsid': obj.remote_session_id,
                'pid': getattr(obj, 'packet_id', None), 'payload': bytes(getattr(obj, 'payload', b''))}
    if name == 'OpenVpnPacketWrapperTcp':
        return {'packet': bytes(obj.payload)}
    if name in ('SslRequest', 'Sync'):
        return {}
    raise KeyError(name)


CODERS = {
    'MySQLRecord': (ref_mysql_packet, dec_mysql_packet),
    'MySQLHandshakeSslRequest': (ref_mysql_ssl_request, dec_mysql_ssl_request),
    'MySQLHandshakeV10': (ref_mysql_v10, dec_mysql_v10),
    'TPKT': (ref_tpkt, dec_tpkt),
    'COTPConnectionRequest': (ref_x224, dec_x224),
    'COTPConnectionConfirm': (ref_x224, dec_x224),
    'RDPNegotiationRequest': (ref_rdp_neg, dec_rdp_neg),
    'RDPNegotiationResponse': (ref_rdp_neg, dec_rdp_neg),
    'OpenVpnPacketControlV1': (ref_ovpn, dec_ovpn),
    'OpenVpnPacketAckV1': (ref_ovpn, dec_ovpn),
    'OpenVpnPacketHardResetClientV2': (ref_ovpn, dec_ovpn),
    'OpenVpnPacketHardResetServerV2': (ref_ovpn, dec_ovpn),
    'OpenVpnPacketWrapperTcp': (ref_ovpn_tcp, dec_ovpn_tcp),
    'SslRequest': (ref_pg_ssl, lambda b: {}),
    'Sync': (ref_pg_sync, lambda b: {}),
}

GENERATORS = dict(gen_opp.ALL_GENERATORS)
# constructible values WITHOUT an encoding (compose() must refuse them): reference comparison only, see `check_refused`
GENERATORS['MySQLHandshakeV10:refused'] = gen_opp.mysql_handshake_v10_refused
FRAMING = {'MySQLRecord', 'TPKT', 'OpenVpnPacketWrapperTcp', 'SslRequest'}


def spec_conformant(name, f):
    """a value the documents give an encoding for.  HandshakeV10: auth-plugin-data-part-2 is MAX(13, len - 8) bytes with
    an 8-bit `len` when CLIENT_PLUGIN_AUTH is set (13..247 bytes), the 13 bytes of MAX(13, 0 - 8) with
    CLIENT_SECURE_CONNECTION alone, and absent otherwise.  For every conformant value the library must produce exactly the
    reference encoding and read it back; for every other value compose() must refuse (see `check_object`)."""
    if name != 'MySQLHandshakeV10':
        return True
    if f['caps'] >> 19 & 1:
        return 13 <= len(f['part2']) <= 247
    if f['caps'] >> 15 & 1:
        return len(f['part2']) == 13
    return not f['part2']


def check_refused(obj, name, f):
    """a constructible value without an encoding: compose() must raise InvalidValue; bytes that parse() does not read back
    as they were written are the repaired defect `mysql-v10-part2` coming back"""
    try:
        composed = bytes(obj.compose())
    except Exception as exc:  # pylint: disable=broad-except
        line = core.err_line(exc)
        if line == 'ERR InvalidValue':
            return []
        return [('mysql-v10-part2', '{} with {} bytes of part 2 and capabilities {:#x} has no encoding; compose() raised {} '
                 'instead of InvalidValue'.format(name, len(f['part2']), f['caps'], line))]
    try:
        back = fields(type(obj).parse_exact_size(composed))
    except Exception as exc:  # pylint: disable=broad-except
        back = core.err_line(exc)
    return [('mysql-v10-part2', '{} with {} bytes of part 2 and capabilities {:#x} has no encoding (the documents give '
             'MAX(13, len - 8) bytes with CLIENT_PLUGIN_AUTH, 13 with CLIENT_SECURE_CONNECTION alone, none otherwise) but '
             'compose() emitted {} which reads back as {}'.format(name, len(f['part2']), f['caps'], hx(composed),
                                                                back if isinstance(back, str) else back['part2']))]


def check_object(obj, parse_cls=None):
    """C09 for one constructed object; returns [(finding key, message)]"""
    bad = []
    cls = type(obj)
    name = cls.__name__
    parse_cls = parse_cls or cls
    f = fields(obj)
    enc, dec = CODERS[name]
    if not spec_conformant(name, f):
        return check_refused(obj, name, f)
    try:
        composed = bytes(obj.compose())
    except Exception as exc:  # pylint: disable=broad-except
        return [('rejects-conformant:' + name, '{}.compose() raised {} on a value the specification encodes [{}]'.format(
            name, core.err_line(exc), canon.generic(obj)[:200]))]
    ref = enc(f)
    cotp = name.startswith('COTP')
    if composed != ref:
        swapped = cotp and composed == enc(dict(f, dst_ref=f['src_ref'], src_ref=f['dst_ref']))
        if swapped:
            bad.append(('cotp-ref-order', '{}(src_ref={:#06x}, dst_ref={:#06x}).compose() = {} but X.224 13.3 puts DST-REF in '
                        'octets 3-4 and SRC-REF in octets 5-6: {}'.format(name, f['src_ref'], f['dst_ref'], hx(composed), hx(ref))))
        else:
            bad.append(('layout:' + name, '{}: compose() = {} but the specification lays out {} [{}]'.format(
                name, hx(composed), hx(ref), canon.generic(obj)[:200])))
    try:
        back = dec(ref)
    except Exception as exc:  # pylint: disable=broad-except
        back = 'decoder raised {!r}'.format(exc)
    if back != f:
        bad.append(('reference-inconsistent:' + name, 'reference decoder gives {} for {} (harness defect)'.format(back, f)))
    # parsing a conformant encoding recovers the values, with the type that is on the wire
    try:
        parsed = parse_cls.parse_exact_size(ref)
    except Exception as exc:  # pylint: disable=broad-except
        bad.append(('rejects-conformant:' + name, '{}.parse_exact_size({}) raised {}'.format(
            parse_cls.__name__, hx(ref), core.err_line(exc))))
        return bad
    if type(parsed) is not cls:
        bad.append(('type:' + name, '{}.parse_exact_size({}) returned a {} (the PDU on the wire is a {})'.format(
            parse_cls.__name__, hx(ref), type(parsed).__name__, name)))
    try:
        pf = fields(parsed)
    except Exception as exc:  # pylint: disable=broad-except
        pf = repr(exc)
    if pf != f:
        if cotp and pf == dict(f, dst_ref=f['src_ref'], src_ref=f['dst_ref']):
            if not any(k == 'cotp-ref-order' for k, _ in bad):
                bad.append(('cotp-ref-order', '{} parses DST-REF {:#06x} / SRC-REF {:#06x} as src_ref / dst_ref'.format(
                    name, f['dst_ref'], f['src_ref'])))
        else:
            bad.append(('values:' + name, '{}: parsing {} gives {} expected {}'.format(name, hx(ref), pf, f)))
    return bad


# ------------------------------------------------------------------------------------------------
# oracles
# ------------------------------------------------------------------------------------------------

class ObjOracle(object):
    """case {'kind':'obj','gen':generator name,'seed':int[, 'variant':1]} — the object is regenerated from the seed"""

    @staticmethod
    def build(case):
        return GENERATORS[case['gen']](random.Random(case['seed']))

    @staticmethod
    def lines(case):
        return []

    @staticmethod
    def impl(case):
        return []

    @classmethod
    def prop(cls, case):
        from cryptoparser.tls.openvpn import OpenVpnPacketVariant
        try:
            obj = cls.build(case)
        except gen_opp.ConformantRefused as exc:
            return [('refuses-conformant:' + exc.cls_name, 'the constructor refuses values that have an encoding: ' + str(exc))]
        return check_object(obj, OpenVpnPacketVariant if case['gen'] == 'OpenVpnPacketVariant' else None)


class ConstOracle(object):
    """case {'kind':'consts'}: the model's class constants equal the live class attributes"""

    @staticmethod
    def lines(case):
        return ['R OppConsts -']

    @staticmethod
    def impl(case):
        return ['OK 0 {} -'.format(canon_opp.OppConsts.text())]

    @staticmethod
    def prop(case):
        return []


class LdapOracle(object):
    """case {'kind':'ldap','rc':result code or None for the request}"""

    @staticmethod
    def lines(case):
        if case['rc'] is None:
            return ['R SpecLdapStartTlsRequest -']
        return ['R SpecLdapStartTlsResponse {:02x}'.format(case['rc'])]

    @staticmethod
    def _obj(case):
        from cryptoparser.tls.ldap import LDAPExtendedRequestStartTLS, LDAPExtendedResponseStartTLS, LDAPResultCode
        if case['rc'] is None:
            return LDAPExtendedRequestStartTLS()
        return LDAPExtendedResponseStartTLS(LDAPResultCode(case['rc']))

    @classmethod
    def impl(cls, case):
        obj = cls._obj(case)
        if case['rc'] is None:
            return ['OK 0 SpecLdapStartTlsRequest() {}'.format(clsops.compose_text(obj))]
        return ['OK 1 SpecLdapStartTlsResponse({}) {}'.format(case['rc'], clsops.compose_text(obj))]

    @classmethod
    def prop(cls, case):
        from cryptoparser.tls.ldap import LDAPExtendedRequestStartTLS, LDAPExtendedResponseStartTLS
        bad = []
        obj = cls._obj(case)
        ref = ref_ldap_request() if case['rc'] is None else ref_ldap_response(case['rc'])
        composed = bytes(obj.compose())
        if composed != ref:
            bad.append(('layout:' + type(obj).__name__, '{}: compose() = {} but RFC 4511 gives {}'.format(
                type(obj).__name__, hx(composed), hx(ref))))
        try:
            parsed, n = type(obj).parse_immutable(ref + b'\x30')
            if type(parsed) is not type(obj) or n != len(ref) or canon.generic(parsed) != canon.generic(obj):
                bad.append(('values:' + type(obj).__name__, '{}: parsing {} gives {} (n={})'.format(
                    type(obj).__name__, hx(ref), canon.generic(parsed), n)))
        except Exception as exc:  # pylint: disable=broad-except
            bad.append(('rejects-conformant:' + type(obj).__name__, '{}: {} rejected: {}'.format(
                type(obj).__name__, hx(ref), core.err_line(exc))))
        # the message type on the wire decides: the other class refuses it with InvalidType — it neither returns an
        # object of its own class nor raises anything else (with or without bytes following the message)
        other = LDAPExtendedResponseStartTLS if case['rc'] is None else LDAPExtendedRequestStartTLS
        on_wire = 'extendedResp [APPLICATION 24]' if case['rc'] is not None else 'extendedReq [APPLICATION 23]'
        for call, data in ((other.parse_exact_size, ref), (other.parse_immutable, ref + b'\x30')):
            try:
                wrong = call(data)
                key = 'ldap-response-as-request' if case['rc'] is not None else 'ldap-request-as-response'
                bad.append((key, '{}.{}({}) returned {} although the protocolOp on the wire is {}'.format(
                    other.__name__, call.__name__, hx(data), canon.generic(wrong)[:80], on_wire)))
            except Exception as exc:  # pylint: disable=broad-except
                line = core.err_line(exc)
                if line != 'ERR InvalidType':
                    bad.append(('ldap-wrong-type:' + line.replace(' ', '_'),
                                '{}.{}({}) raised {} ({}); expected InvalidType, the protocolOp on the wire is {}'.format(
                                    other.__name__, call.__name__, hx(data), type(exc).__name__, str(exc)[:100], on_wire)))
        return bad


def ber_long(tag, content, n_len_octets):
    """the same TLV with the long form of the length on `n_len_octets` octets (X.690 8.1.3.5; padded with leading zeros
    when that is more than the value needs - BER allows it, Active Directory writes 30 84 00 00 00 nn)"""
    return bytes([tag, 0x80 | n_len_octets]) + len(content).to_bytes(n_len_octets, 'big') + content


def ldap_message(rc, diagnostic=b'', len_octets=None):
    """a conformant LDAPMessage (StartTLS request when rc is None, else the extended response) whose OUTER length is in
    the short/minimal form (len_octets None) or in the long form on that many octets"""
    if rc is None:
        content = ber(0x02, ber_int(1)) + ber(0x77, ber(0x80, LDAP_STARTTLS_OID))
    else:
        content = ber(0x02, ber_int(1)) + ber(0x78, ber(0x0a, ber_int(rc)) + ber(0x04, b'') + ber(0x04, diagnostic))
    if len_octets is None:
        return ber(0x30, content)
    return ber_long(0x30, content, len_octets)


class LdapSizeOracle(object):
    """case {'kind':'ldapsize','data':hex}: `_get_message_size` on arbitrary octets (model: CpModel/Opp/Ldap.lean);
    case {'kind':'ldapsize','rc':..,'diag':n,'lo':k,'tail':hex}: a conformant message in the given length form, followed by
    `tail`: parsed by the implementation, which must return the encoded values, the type on the wire and n = its length"""

    @staticmethod
    def _data(case):
        if 'data' in case:
            return unhx(case['data'])
        return ldap_message(case['rc'], b'd' * case['diag'], case['lo']) + unhx(case['tail'])

    @classmethod
    def lines(cls, case):
        return ['R LdapMessageSize {}'.format(hx(cls._data(case)))]

    @classmethod
    def impl(cls, case):
        from cryptoparser.tls.ldap import LDAPMessageParsableBase
        data = cls._data(case)
        try:
            n = LDAPMessageParsableBase._get_message_size(data)  # pylint: disable=protected-access
        except Exception as exc:  # pylint: disable=broad-except
            return [core.err_line(exc)]
        return ['OK {} LdapMessageSize() -'.format(n)]

    @classmethod
    def prop(cls, case):
        from cryptoparser.tls.ldap import LDAPExtendedRequestStartTLS, LDAPExtendedResponseStartTLS, LDAPResultCode
        if 'data' in case:
            return []
        bad = []
        tail = unhx(case['tail'])
        msg = ldap_message(case['rc'], b'd' * case['diag'], case['lo'])
        klass = LDAPExtendedRequestStartTLS if case['rc'] is None else LDAPExtendedResponseStartTLS
        what = '{} with the outer length on {} octets, diagnosticMessage of {} octets'.format(
            klass.__name__, 'the minimal number of' if case['lo'] is None else case['lo'], case['diag'])
        calls = [('parse_immutable', lambda: klass.parse_immutable(msg + tail))]
        if not tail:
            calls.append(('parse_exact_size', lambda: (klass.parse_exact_size(msg), len(msg))))
        for name, call in calls:
            got = _t(call)
            if isinstance(got, Exception):
                bad.append(('ldap-rejects-conformant:' + core.err_line(got).replace(' ', '_'),
                            '{}: {}({} + {} following octets) raised {}'.format(what, name, hx(msg[:8]) + '...', len(tail),
                                                                               core.err_line(got))))
                continue
            parsed, n = got
            if type(parsed) is not klass or (case['rc'] is not None and parsed.result_code != LDAPResultCode(case['rc'])):
                bad.append(('ldap-values', '{}: {} gives {!r}'.format(what, name, parsed)))
            if n != len(msg):
                bad.append(('ldap-consumed', '{}: {} consumed {} octets of a message of {} ({} octets follow it)'.format(
                    what, name, n, len(msg), len(tail))))
        return bad[:1]


def _t(fn):
    try:
        return fn()
    except Exception as exc:  # pylint: disable=broad-except
        return exc


def mysql_greeting(caps, adl, part2, plugin_name=None, version=b'5.1.73'):
    """HandshakeV10 octets with an explicit length octet (the reference encoder derives it from part 2)"""
    out = bytes([10]) + version + b'\x00' + struct.pack('<I', 9) + b'abcdefgh' + b'\x00'
    out += struct.pack('<HBHH', caps & 0xffff, 8, 2, caps >> 16) + bytes([adl]) + bytes(10) + part2
    return out + (plugin_name + b'\x00' if plugin_name is not None else b'')


def mysql_part2_probe():
    """the repaired reading of HandshakeV10 at fixed points, REQUIRED: [(finding key, message)]"""
    from cryptoparser.tls import mysql
    bad = []
    scramble = b'ijklmnopqrst\x00'
    secure, plugin = 1 << 15, 1 << 19

    def parse(wire):
        return _t(lambda: mysql.MySQLHandshakeV10.parse_exact_size(wire))

    def expect(what, wire, part2, plugin_name, recomposed=None):
        back = parse(wire)
        if isinstance(back, Exception):
            bad.append(('mysql-v10-part2', '{} is rejected: {} on {}'.format(what, core.err_line(back), hx(wire))))
            return
        got = (None if back.auth_plugin_data_2 is None else bytes(back.auth_plugin_data_2), back.auth_plugin_name)
        if got != (part2, plugin_name):
            bad.append(('mysql-v10-part2', '{}: parsed (part 2, plugin name) = {} expected {} on {}'.format(
                what, got, (part2, plugin_name), hx(wire))))
            return
        again = _t(back.compose)
        if isinstance(again, Exception) or bytes(again) != (wire if recomposed is None else recomposed):
            bad.append(('mysql-v10-part2', '{}: recomposed as {} expected {}'.format(
                what, core.err_line(again) if isinstance(again, Exception) else hx(again),
                hx(wire if recomposed is None else recomposed))))
            return
        if parse(bytes(again)) != back:
            bad.append(('mysql-v10-part2', '{}: the recomposed octets {} do not parse to the same object'.format(what, hx(again))))

    def expect_error(what, wire, line):
        back = parse(wire)
        got = core.err_line(back) if isinstance(back, Exception) else 'an object'
        if got != line and not got.startswith(line + ' '):
            bad.append(('mysql-v10-part2', '{}: {} expected {} on {}'.format(what, got, line, hx(wire))))

    # a MySQL 5.1 greeting: CLIENT_SECURE_CONNECTION without CLIENT_PLUGIN_AUTH, length octet 00, 13 bytes of part 2
    expect('a conformant pre-5.5.7 HandshakeV10 (CLIENT_SECURE_CONNECTION, no CLIENT_PLUGIN_AUTH, 13 bytes of part 2)',
           mysql_greeting(0xf7ff, 0, scramble), scramble, None)
    # the length octet is a filler there; what follows the 13 bytes is not part of the message
    expect('pre-5.5.7 HandshakeV10 with a non-zero filler in the length octet', mysql_greeting(0xf7ff, 77, scramble), scramble,
           None, recomposed=mysql_greeting(0xf7ff, 0, scramble))
    expect_error('pre-5.5.7 HandshakeV10 followed by one more byte', mysql_greeting(0xf7ff, 0, scramble + b'x'), 'ERR TooMuchData')
    expect_error('pre-5.5.7 HandshakeV10 with 12 bytes of part 2', mysql_greeting(0xf7ff, 0, scramble[:12]), 'ERR NotEnoughData 1')
    # with CLIENT_PLUGIN_AUTH: MAX(13, len - 8) bytes of part 2
    canonical = mysql_greeting(plugin | secure, 21, scramble, b'x', b'8.0')
    expect('HandshakeV10 with auth_plugin_data_len = 21', canonical, scramble, 'x')
    for adl in (8, 1, 7, 20):
        expect('HandshakeV10 with auth_plugin_data_len = {} (MAX(13, len - 8) = 13 bytes of part 2)'.format(adl),
               mysql_greeting(plugin | secure, adl, scramble, b'x', b'8.0'), scramble, 'x', recomposed=canonical)
    expect('HandshakeV10 with auth_plugin_data_len = 22', mysql_greeting(plugin, 22, b'A' + scramble, b'x'), b'A' + scramble, 'x')
    expect('HandshakeV10 with auth_plugin_data_len = 255', mysql_greeting(plugin | secure, 255, bytes(range(1, 248)), b'x'),
           bytes(range(1, 248)), 'x')
    expect_error('HandshakeV10 with CLIENT_PLUGIN_AUTH and auth_plugin_data_len = 0', mysql_greeting(plugin, 0, scramble, b'x'),
                 'ERR InvalidValue')
    # neither capability: nothing follows the reserved octets
    expect('HandshakeV10 without CLIENT_SECURE_CONNECTION and CLIENT_PLUGIN_AUTH', mysql_greeting(0x0800, 0, b''), None, None)
    expect_error('HandshakeV10 without either capability followed by 13 bytes', mysql_greeting(0x0800, 0, scramble), 'ERR TooMuchData')
    # compose() writes only what parse() reads back
    rng = random.Random(9)
    for _ in range(60):
        obj = gen_opp.mysql_handshake_v10_refused(rng)
        f = fields(obj)
        if spec_conformant('MySQLHandshakeV10', f):
            bad.append(('reference-inconsistent:MySQLHandshakeV10', 'gen_opp.mysql_handshake_v10_refused built a conformant value'))
        bad.extend(check_refused(obj, 'MySQLHandshakeV10', f))
    return bad[:1]


class ProbeOracle(object):
    """case {'kind':'probe','name':...}: fixed points where the library used to deviate (the constructors accept them);
    the repaired behaviour is required, a reappearance of the old one is a violation under the old finding key"""

    @staticmethod
    def lines(case):
        return []

    @staticmethod
    def impl(case):
        return []

    @staticmethod
    def prop(case):
        from cryptoparser.tls import rdp, mysql
        name = case['name']
        bad = []
        if name == 'rdp-zero-flag':
            # RDPProtocol.RDP is 0: it has no bit on the wire.  Required (repaired): the constructor drops it, so that
            # {RDP} and set() are ONE value, which composes to the zero field and is what the zero field parses to
            for cls, flag_cls in ((rdp.RDPNegotiationRequest, rdp.RDPNegotiationRequestFlags),
                                  (rdp.RDPNegotiationResponse, rdp.RDPNegotiationResponseFlags)):
                for protos in ({rdp.RDPProtocol.RDP}, {rdp.RDPProtocol.RDP, rdp.RDPProtocol.SSL},
                               set(rdp.RDPProtocol), [rdp.RDPProtocol.HYBRID, rdp.RDPProtocol.RDP, rdp.RDPProtocol.RDP]):
                    what = '{}(protocol={})'.format(cls.__name__, sorted(p.name for p in protos))
                    obj = cls(set(), protos)
                    same = cls(set(), {p for p in protos if p.value})
                    if obj != same:
                        bad.append(('rdp-zero-flag', '{} and the same without RDPProtocol.RDP are different values although '
                                    'they have one encoding: {!r} / {!r}'.format(what, obj, same)))
                        break
                    composed = _t(obj.compose)
                    want = ref_rdp_neg({'type': 1 if cls is rdp.RDPNegotiationRequest else 2, 'flags': 0,
                                        'protocols': word(protos)})
                    if isinstance(composed, Exception) or bytes(composed) != want:
                        bad.append(('rdp-zero-flag', '{}.compose() gives {} expected {}'.format(
                            what, core.err_line(composed) if isinstance(composed, Exception) else hx(composed), hx(want))))
                        break
                    back = _t(lambda: cls.parse_exact_size(want))  # pylint: disable=cell-var-from-loop
                    if isinstance(back, Exception) or back != obj or type(back) is not cls:
                        bad.append(('rdp-zero-flag', '{} composes to {} and parses back as {}'.format(
                            what, hx(want), core.err_line(back) if isinstance(back, Exception) else repr(back))))
                        break
            # what the parser returns is unchanged: the zero field is the empty set (RDP is never a member of a parsed set)
            for cls, t in ((rdp.RDPNegotiationRequest, 1), (rdp.RDPNegotiationResponse, 2)):
                back = _t(lambda: cls.parse_exact_size(ref_rdp_neg({'type': t, 'flags': 0, 'protocols': 0})))  # pylint: disable=cell-var-from-loop
                if isinstance(back, Exception) or list(back.protocol) != []:
                    bad.append(('rdp-zero-flag', '{}: a zero protocol field parses as {}'.format(
                        cls.__name__, core.err_line(back) if isinstance(back, Exception) else repr(back.protocol))))
        elif name == 'strnul-embedded-nul':
            # a NUL inside a null-terminated string cannot be represented: the composer must refuse it (InvalidValue),
            # in the server version and in the plugin name alike
            caps = {mysql.MySQLCapability.CLIENT_SSL, mysql.MySQLCapability.CLIENT_PLUGIN_AUTH}
            for kwargs in ({'server_version': '5\x007', 'auth_plugin_name': 'x'}, {'server_version': '5.7', 'auth_plugin_name': 'a\x00b'},
                           {'server_version': '\x00', 'auth_plugin_name': 'x'}):
                obj = mysql.MySQLHandshakeV10(protocol_version=mysql.MySQLVersion.MYSQL_10, connection_id=7,
                                              auth_plugin_data=b'12345678', capabilities=caps, auth_plugin_data_2=b'0123456789abc',
                                              **kwargs)
                composed = _t(obj.compose)
                if isinstance(composed, Exception):
                    if core.err_line(composed) != 'ERR InvalidValue':
                        bad.append(('strnul-embedded-nul', 'MySQLHandshakeV10({}).compose() raised {} instead of InvalidValue'.format(
                            kwargs, core.err_line(composed))))
                else:
                    back = _t(lambda: mysql.MySQLHandshakeV10.parse_immutable(bytes(composed))[0])  # pylint: disable=cell-var-from-loop
                    bad.append(('strnul-embedded-nul', 'MySQLHandshakeV10({}) composes (NUL not rejected) to {} which parses as {}'.format(
                        kwargs, hx(composed), core.err_line(back) if isinstance(back, Exception)
                        else (back.server_version, back.auth_plugin_name))))
        elif name == 'mysql-v10-part2':
            bad.extend(mysql_part2_probe())
        elif name == 'cotp-boundary':
            # X.224 CR/CC with the longest user data the one-octet length indicator allows (LI = 6 + 248 = 254) and its
            # neighbours: constructed, composed and parsed like every generated object
            for cls in (rdp.COTPConnectionRequest, rdp.COTPConnectionConfirm):
                for n in (0, 1, 247, gen_opp.COTP_MAX_USER_DATA):
                    kwargs = dict(src_ref=0x1234, user_data=bytes(range(1, 250))[:n], dst_ref=0xabcd, class_option=0)
                    obj = _t(lambda: cls(**kwargs))  # pylint: disable=cell-var-from-loop
                    if isinstance(obj, Exception):
                        bad.append(('refuses-conformant:' + cls.__name__, '{} with {} octets of user data (length indicator {}) is '
                                    'refused by the constructor: {}'.format(cls.__name__, n, 6 + n, core.err_line(obj))))
                    else:
                        bad.extend(check_object(obj))
        return bad[:1]


ORACLES = {'cls': clsrun.ClsOracle, 'obj': ObjOracle, 'consts': ConstOracle, 'ldap': LdapOracle, 'ldapsize': LdapSizeOracle, 'probe': ProbeOracle}
PROBES = ['rdp-zero-flag', 'strnul-embedded-nul', 'mysql-v10-part2', 'cotp-boundary']


class Dispatch(object):
    @staticmethod
    def lines(case):
        return ORACLES[case['kind']].lines(case)

    @staticmethod
    def impl(case):
        return ORACLES[case['kind']].impl(case)

    @staticmethod
    def prop(case):
        return ORACLES[case['kind']].prop(case)


def gen_cases(rng, tier):
    per_class = 40 if tier == 'quick' else 400
    n_mut = 6 if tier == 'quick' else 20
    cases = [{'kind': 'consts'}]
    cls_cases = []
    for name, gen in gen_opp.ALL_GENERATORS:
        for _ in range(per_class):
            seed = rng.getrandbits(48)
            cases.append({'kind': 'obj', 'gen': name, 'seed': seed})
            try:
                obj = gen(random.Random(seed))
                b = bytes(obj.compose())
            except Exception:  # pylint: disable=broad-except
                continue        # the object oracle reports it (refuses-conformant / compose)
            datas = [b, b + bytes(rng.getrandbits(8) for _ in range(rng.randrange(1, 4)))]
            datas += clsrun.mutations(rng, b, n_mut)
            if len(b) <= 80:
                datas += clsrun.all_truncations(b)
            for d in datas:
                # `want` is empty: C02/C03/C05 are decided by their own checks; here the class oracle only feeds the
                # correspondence with the model
                cls_cases.append({'kind': 'cls', 'cls': name, 'data': hx(d), 'want': [],
                                  'framing': name in FRAMING})
    for _ in range(per_class):
        cases.append({'kind': 'obj', 'gen': 'MySQLHandshakeV10:refused', 'seed': rng.getrandbits(48)})
    # greetings laid out from the documentation (gen_opp.RAW_INPUTS): no compose() of the library produces the length
    # octets 8, 0, 1..7 or a filler in a pre-5.5.7 greeting; both sides parse them, as they are, mutated and truncated
    for name, gen in gen_opp.RAW_INPUTS:
        for _ in range(2 * per_class):
            b = bytes(gen(rng))
            datas = [b, b + bytes(rng.getrandbits(8) for _ in range(rng.randrange(1, 4)))]
            datas += clsrun.mutations(rng, b, n_mut)
            if len(b) <= 80:
                datas += clsrun.all_truncations(b)
            for d in datas:
                cls_cases.append({'kind': 'cls', 'cls': name, 'data': hx(d), 'want': [], 'framing': name in FRAMING})
    from cryptoparser.tls.ldap import LDAPResultCode
    cases.append({'kind': 'ldap', 'rc': None})
    for rc in LDAPResultCode:
        cases.append({'kind': 'ldap', 'rc': int(rc)})
    # the BER header of the outer SEQUENCE in every length form: arbitrary headers for the size function alone, and
    # conformant messages (long diagnosticMessage, padded long forms) for the parsers
    n_size = 150 if tier == 'quick' else 1500
    for _ in range(n_size):
        form = rng.randrange(4)
        if form == 0:
            head = bytes([0x30, rng.randrange(0x80)])
        elif form == 1:
            k = rng.choice([1, 1, 2, 2, 3, 4, 4, 5, 8, rng.randrange(0, 128)])
            lead = rng.randrange(0, k + 1)
            head = bytes([rng.choice([0x30, 0x30, rng.randrange(256)]), 0x80 | k]) + bytes(lead) + \
                bytes(rng.getrandbits(8) for _ in range(k - lead))
        elif form == 2:       # fewer length octets in the buffer than the header announces
            k = rng.randrange(1, 128)
            head = bytes([0x30, 0x80 | k]) + bytes(rng.getrandbits(8) for _ in range(rng.randrange(0, k)))
        else:
            head = bytes(rng.getrandbits(8) for _ in range(rng.randrange(2, 8)))
        cases.append({'kind': 'ldapsize', 'data': hx(head + bytes(rng.getrandbits(8) for _ in range(rng.randrange(0, 4))))})
    codes = [None] + [int(rc) for rc in LDAPResultCode]
    for lo in (None, 1, 2, 3, 4, 5, 8):
        for diag in (0, 1, 90, 127, 128, 200, 255, 256, 300, 70000):
            if lo is not None and diag + 64 >= 256 ** lo:
                continue
            if diag == 70000 and tier == 'quick' and lo not in (None, 3):
                continue
            for tail in ('-', '16030100'):
                rc = rng.choice(codes) if diag == 0 else rng.choice(codes[1:])
                cases.append({'kind': 'ldapsize', 'rc': rc, 'diag': diag, 'lo': lo, 'tail': tail})
    for p in PROBES:
        cases.append({'kind': 'probe', 'name': p})
    return cases, cls_cases


def run(run, driver_ok=True, deep=False):  # pylint: disable=redefined-outer-name
    tier = 'thorough' if deep else run.tier
    cases, cls_cases = gen_cases(run.rng, tier)
    for c in cases:
        run.count('ops', c['kind'])
        if c['kind'] == 'obj':
            run.count('objects', c['gen'])
    for c in cls_cases[:3] + cases[1:4] + cases[-4:-2]:
        run.sample(c)
    if driver_ok:
        core.correspond(run, Dispatch, cases)
    else:
        for case in cases:
            run.evaluations += 1
            for key, message in Dispatch.prop(case):
                run.finding(key, message, case)
    clsrun.run_cases(run, cls_cases, driver_ok)
    inconsistent_header_probe(run)
    refused = sum(1 for c in cases if c['kind'] == 'obj' and c['gen'] == 'MySQLHandshakeV10:refused')
    kinds = {'plugin': 0, 'secure': 0, 'neither': 0}
    for c in cases:
        if c['kind'] == 'obj' and c['gen'] == 'MySQLHandshakeV10':
            caps = fields(ObjOracle.build(c))['caps']
            kinds['plugin' if caps >> 19 & 1 else 'secure' if caps >> 15 & 1 else 'neither'] += 1
    run.notes.append('HandshakeV10 objects: {} with CLIENT_PLUGIN_AUTH, {} with CLIENT_SECURE_CONNECTION alone (pre-5.5.7), {} with '
                     'neither; {} constructible values without an encoding (compose() must raise InvalidValue); {} greetings laid out '
                     'from the documentation (length octet 21 / 8 / 0 / 255 / 1..7 / arbitrary, pre-5.5.7 with and without a filler)'
                     .format(kinds['plugin'], kinds['secure'], kinds['neither'], refused,
                             len(gen_opp.RAW_INPUTS) * 2 * (40 if tier == 'quick' else 400)))
    run.notes.append('LDAP: the decoding is asn1crypto (implementation-side only; Lean carries the two encodings as specification '
                     'constants); the library\'s own framing (_get_message_size) is modelled, proved for every BER length form '
                     '(CpProps/C09Ldap) and run against the model on {} headers; {} conformant messages in short, minimal-long and '
                     'padded-long form parsed with and without following octets'.format(
                         sum(1 for c in cases if c['kind'] == 'ldapsize' and 'data' in c),
                         sum(1 for c in cases if c['kind'] == 'ldapsize' and 'data' not in c)))


def inconsistent_header_probe(run):  # pylint: disable=redefined-outer-name
    """OpenVPN: the remote session id is on the wire iff the packet-id (ACK) array is non-empty.  An object built with
    one but not the other has no encoding: compose() must refuse it with a documented error, or - if it does emit
    bytes - they must be the specified layout of an object that parses back equal"""
    from cryptoparser.tls import openvpn
    combos = [([], 0x99aabbccddeeff00), ([], 0), ([7], None), ([1, 2, 3], None)]
    builders = [
        ('OpenVpnPacketControlV1', lambda ids, rsid: openvpn.OpenVpnPacketControlV1(0x1122334455667788, ids, rsid, 5, b'payload')),
        ('OpenVpnPacketAckV1', lambda ids, rsid: openvpn.OpenVpnPacketAckV1(0x1122334455667788, rsid, ids)),
        ('OpenVpnPacketHardResetServerV2', lambda ids, rsid: openvpn.OpenVpnPacketHardResetServerV2(0x1122334455667788, rsid, ids, 9)),
    ]
    for name, build in builders:
        for ids, rsid in combos:
            run.evaluations += 1
            case = {'kind': 'ovpn-inconsistent', 'cls': name, 'ids': ids, 'rsid': rsid}
            for key, msg in inconsistent_case(case, build):
                run.finding(key, msg, case)


def inconsistent_case(case, build=None):
    from cryptoparser.tls import openvpn
    if build is None:
        build = {
            'OpenVpnPacketControlV1': lambda ids, rsid: openvpn.OpenVpnPacketControlV1(0x1122334455667788, ids, rsid, 5, b'payload'),
            'OpenVpnPacketAckV1': lambda ids, rsid: openvpn.OpenVpnPacketAckV1(0x1122334455667788, rsid, ids),
            'OpenVpnPacketHardResetServerV2': lambda ids, rsid: openvpn.OpenVpnPacketHardResetServerV2(0x1122334455667788, rsid, ids, 9),
        }[case['cls']]
    name = case['cls']
    try:
        obj = build(list(case['ids']), case['rsid'])
    except Exception:  # pylint: disable=broad-except
        return []           # refused at construction: fine
    try:
        data = bytes(obj.compose())
    except Exception as exc:  # pylint: disable=broad-except
        line = core.err_line(exc)
        if line.startswith('ERR '):
            return []
        return [('inconsistent-header:' + name, '{}(ids={}, remote_session_id={}).compose() raised {}'.format(
            name, case['ids'], case['rsid'], line))]
    try:
        back = type(obj).parse_exact_size(data)
        if canon.generic(back) == canon.generic(obj):
            return []
        what = 'parses back as a different object'
    except Exception as exc:  # pylint: disable=broad-except
        what = 'is not parsable ({})'.format(core.err_line(exc))
    return [('inconsistent-header:' + name, '{}(ids={}, remote_session_id={}) has no encoding (the remote session id is on the '
             'wire iff packet ids are acknowledged) but compose() emitted {} which {}'.format(
                 name, case['ids'], case['rsid'], hx(data), what))]


def search(run, proof):  # pylint: disable=redefined-outer-name
    if run.tier != 'thorough':
        sub = core.Run(run.prop, 'thorough', run.seed + 1)
        sub.kf = run.kf
        globals()['run'](sub, driver_ok=False, deep=True)
        run.violations.extend(sub.violations)
        run.evaluations += sub.evaluations
        run.notes.append('failing-input search: thorough-tier object set and reference comparison on the implementation, '
                         '{} cases'.format(sub.evaluations))


def replay(case):
    if case.get('kind') == 'ovpn-inconsistent':
        return inconsistent_case(case)
    return Dispatch.prop(case)
