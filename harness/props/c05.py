# -*- coding: utf-8 -*-
"""C05 — re-serialising an accepted input is a stable canonical form."""
from harness import core, clsrun, clsops

LEAN_MODULES = ['CpProps.C05', 'CpProps.C05Hello', 'CpProps.C05Ssl2', 'CpProps.C05Ext']
RULE = ('objects of every modelled class are built with the library constructors by type-directed generators (all enum '
        'members, unknown/GREASE code points, empty and maximal vectors, optional parts absent/present, boundary integers), '
        'composed, and the encodings are used as they are, with trailing bytes, concatenated, truncated at many offsets, '
        'bit-flipped, length-corrupted and spliced; each input runs through the real parse_immutable/parse_exact_size/'
        'parse_mutable and through the Lean model (ops R/X/M) and the outcomes (value in canonical form, consumed length, '
        'error class and count, buffer afterwards, recomposition) are compared; the property itself is evaluated on the '
        'real code for every input. Non-trivial: the input is not all zero; distinct: (class, bytes).')
WANT = ('C05',)


def run(run, driver_ok=True, deep=False):
    tier = 'thorough' if deep else run.tier
    clsrun.class_property_run(run, driver_ok, WANT, per_class=40 if tier == 'quick' else 300, n_mut=25, suffixes=True)
    extra(run, tier, driver_ok)


def extra(run, tier, driver_ok=True):
    reference_inputs(run, tier, driver_ok)
    try:
        from harness import corpus_props
    except ImportError:
        return
    corpus_props.run(run, WANT, tier)


def reference_inputs(run, tier, driver_ok):
    """accepted inputs that do NOT come from compose(): the RFC reference encodings of generated TLS messages and
    extensions (harness/props/c06.py, written from the RFC text).  A composer that silently drops or rewrites something
    produces a fixed point of parse/compose on its own output; it is seen only on independently written bytes."""
    try:
        from harness.props import c06
        from harness import canon
    except ImportError:
        return
    modelled = clsops.modelled()
    cases = []
    n = 40 if tier == 'quick' else 400
    for gen in c06.GENERATORS:
        for _ in range(n):
            try:
                obj = gen(run.rng)
                ref = c06.reference(obj)
            except canon.Unmodelled:
                continue
            except Exception:  # pylint: disable=broad-except
                continue
            name = type(obj).__name__
            if name not in modelled:
                continue
            run.count('reference_inputs', name)
            cases.append({'kind': 'cls', 'cls': name, 'data': core.hx(ref), 'want': ['C05'],
                          'framing': name in clsrun.FRAMING_MODELLED})
    clsrun.run_cases(run, cases, driver_ok)


def search(run, proof):
    if run.tier != 'thorough':
        sub = core.Run(run.prop, 'thorough', run.seed + 1)
        sub.kf = run.kf
        globals()['run'](sub, driver_ok=False, deep=True)
        run.violations.extend(sub.violations)
        run.known_hits.update(sub.known_hits)
        run.evaluations += sub.evaluations
        run.notes.append('failing-input search: thorough-tier implementation oracle, {} cases'.format(sub.evaluations))


def replay(case):
    if case.get('kind') == 'cls':
        return clsrun.ClsOracle.prop(case)
    if case.get('kind') == 'corpus':
        from harness import corpus_props
        return corpus_props.replay(case)
    return []
