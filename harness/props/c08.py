# -*- coding: utf-8 -*-
"""C08 — DNSSEC and mail-related record data follow the RFCs, key tag included (and the DNS part of
C01/C02/C03/C05).

Three kinds of cases:
  cls   class-level correspondence model <-> code for the DNS classes (valid encodings of generated
        objects, every truncation, mutations) with the implementation-side C02/C03/C05 statements;
  kt    `KT <rdata>`: key tag of the model of `key_tag` and of the Lean transcription of RFC 4034
        Appendix B, against the real `key_tag` and the Python reference below;
  spec  RDATA produced by the reference ENCODER below from RFC-level values: the real parser must
        accept it, consume all of it, recover exactly the encoded values (compared through the
        reference DECODER), re-compose it byte for byte, and report the reference key tag;
  obj   objects built with the library's constructors: what they compose must be read back by the
        reference decoder to the same values.
The reference encoder/decoder/key tag are written from RFC 1035 3.1/3.3, RFC 3110 2, RFC 4034
2.1/3.1/5.1/App. B, RFC 6605 4, RFC 8080 3, RFC 2536 2 and share no code with cryptoparser."""

from harness import core, clsops, clsrun, canon_dns, gen_dns
from harness.canon import Unmodelled, c_list
from harness.core import hx, unhx, err_line

LEAN_MODULES = ['CpProps.C08']
RULE = ('per run and DNS class (names, MX, DS, RRSIG, TXT, DNSKEY, private RR type): N generated objects (quick 40, thorough '
        '400) -> valid encoding, all truncations, 6 mutations each, through the model (R/X/M ops) and the real code, with '
        'the C02/C03/C05 statements evaluated on the real code for every input; every DNSKEY RDATA among them also as a KT '
        'op (model key tag, Lean RFC 4034 App. B value, real key_tag, Python reference); RFC-level values (every algorithm, '
        'RSA with 1- and 3-octet exponent length and odd/even modulus sizes, moduli at powers of 256, all 8 flag subsets, Ed448 '
        'with 57 octets, EC coordinates with leading zero octets, private RR types, timestamps 0 / 2^31 / 2^32-1 (an instant), root '
        'and 255-octet names, RRSIG RDATA of 19..23 octets, multi-string and >255-octet TXT) encoded by the reference encoder and '
        'checked for acceptance, exact recovery, byte-for-byte re-composition and key tag; a fixed list of edge inputs and 60 '
        '(quick) / 600 generated non-canonical inputs per class (gen_dns.RAW_INPUTS: algorithms without a key type, zero / '
        'power-of-256 integers, octets after a fixed-size key, labels over 63 octets or holding a dot, names over 255 octets) '
        'that must be refused with one of the four documented errors or re-composed. Non-trivial: the input is not all zero; '
        'distinct: (class, bytes).')
ASSUMPTIONS = [
    'CPython idna/ascii codecs on their ASCII paths; IDNA conversion of non-ASCII labels is library behaviour (UNMODELLED)',
    'asn1crypto EC points are sized by ceil(math.log(v, 2) / 8); the model uses the exact value and declares coordinates '
    'within 2^-32 of a power of 256 (>= 2^32) outside its boundary (RSA moduli and DSA primes are sized by bit_length())',
    'datetime <-> epoch conversion is CPython (calendar.timegm / datetime.fromtimestamp)',
]
TRUSTED_EXTRA = ['harness/props/c08.py reference RDATA encoder/decoder and key tag (written from the RFC text)']

DNS_CLASSES = ['DnsNameUncompressed', 'DnsRecordMx', 'DnsRecordDs', 'DnsRecordRrsig', 'DnsRecordTxt', 'DnsRecordDnskey',
               'DnsRrTypePrivate']


# ------------------------------------------------------------------------------------------------
# reference implementation (RFC text only)
# ------------------------------------------------------------------------------------------------

def ref_key_tag(rdata):
    """RFC 4034 Appendix B"""
    ac = 0
    for i, b in enumerate(bytes(rdata)):
        ac += b if (i & 1) else (b << 8)
    ac += (ac >> 16) & 0xFFFF
    return ac & 0xFFFF


def ref_key_tag_alg1(modulus_octets):
    """RFC 4034 Appendix B.1: most significant 16 of the least significant 24 bits of the modulus"""
    return (int.from_bytes(modulus_octets, 'big') % 2 ** 24) >> 8


def be(v, n):
    return int(v).to_bytes(n, 'big')


def min_be(v):
    return be(v, (v.bit_length() + 7) // 8)


def ref_enc_name(labels):
    return b''.join(bytes([len(l)]) + l for l in labels) + b'\x00'


def ref_dec_name(data):
    """(labels, rest) or None: labels of 1..63 octets, at most 255 octets in all (RFC 1035 3.1, 2.3.4)"""
    labels, pos = [], 0
    while True:
        if pos >= len(data):
            return None
        n = data[pos]
        pos += 1
        if n == 0:
            break
        if n > 63 or pos + n > len(data):
            return None
        labels.append(bytes(data[pos:pos + n]))
        pos += n
    if pos > 255:
        return None
    return labels, bytes(data[pos:])


def ref_enc_rsa(e, n, long_form=None):
    eb = min_be(e)
    if long_form is None:
        long_form = not 1 <= len(eb) <= 255
    return (b'\x00' + be(len(eb), 2) if long_form else be(len(eb), 1)) + eb + min_be(n)


def ref_dec_rsa(key):
    """(exponent octets, modulus octets) or None (RFC 3110 2)"""
    if not key:
        return None
    if key[0]:
        n, pos = key[0], 1
    else:
        if len(key) < 3:
            return None
        n, pos = int.from_bytes(key[1:3], 'big'), 3
    if pos + n > len(key):
        return None
    return bytes(key[pos:pos + n]), bytes(key[pos + n:])


RSA_ALGS = (1, 5, 7, 8, 10)
DSA_ALGS = (3, 6)
EC_ALGS = {13: (0, 32), 14: (1, 48), 12: (2, 32)}   # canon group index, coordinate octets
ED_ALGS = {15: (0, 32), 16: (1, 57)}                # canon curve index, key octets (RFC 8080 3)
KNOWN_FLAGS = (0x0001, 0x0080, 0x0100)


def ints(*vals):
    return ','.join(str(v) for v in vals)


def ref_canon_key(alg, key):
    """canonical text of the key material of conformant public key octets, or None"""
    key = bytes(key)
    if alg in RSA_ALGS:
        dec = ref_dec_rsa(key)
        if dec is None:
            return None
        e, n = dec
        if not e or not n or e[0] == 0 or n[0] == 0:
            return None             # leading zero octets are prohibited in the exponent and modulus
        if not key[0] and len(e) <= 255:
            return None             # the three-octet length form is for lengths above 255
        return 'Rsa({})'.format(ints(int.from_bytes(e, 'big'), int.from_bytes(n, 'big')))
    if alg in EC_ALGS:
        idx, size = EC_ALGS[alg]
        if len(key) != 2 * size:
            return None
        # (RFC 5933 stores the GOST coordinates little-endian; the library reads them big-endian like
        # ECDSA, and RFC 5933 is not among the RFCs of this property: the text follows the library)
        return 'Ec({})'.format(ints(idx, int.from_bytes(key[:size], 'big'), int.from_bytes(key[size:], 'big')))
    if alg in ED_ALGS:
        idx, size = ED_ALGS[alg]
        if len(key) != size:
            return None
        return 'Eddsa({},{})'.format(idx, hx(key))
    if alg in DSA_ALGS:
        if len(key) < 21:
            return None
        t = key[0]
        size = 64 + 8 * t
        if t > 8 or len(key) != 21 + 3 * size:
            return None
        q = int.from_bytes(key[1:21], 'big')
        p, g, y = (int.from_bytes(key[21 + i * size:21 + (i + 1) * size], 'big') for i in range(3))
        return 'Dsa({})'.format(ints(p, g, q, y))
    return None


def ref_canon(cls, data):
    """Canonical text (the format of canon_dns / CpModel.Dns.Canon) of conformant RDATA, None otherwise."""
    data = bytes(data)
    if cls == 'DnsNameUncompressed':
        dec = ref_dec_name(data)
        if dec is None or dec[1]:
            return None
        return 'DnsNameUncompressed({})'.format(c_list([hx(l) for l in dec[0]]))
    if cls == 'DnsRecordMx':
        dec = ref_dec_name(data[2:]) if len(data) >= 2 else None
        if dec is None or dec[1]:
            return None
        return 'DnsRecordMx({},{})'.format(int.from_bytes(data[:2], 'big'), c_list([hx(l) for l in dec[0]]))
    if cls == 'DnsRecordDs':
        if len(data) < 4:
            return None
        return 'DnsRecordDs({},E{},E{},{})'.format(int.from_bytes(data[:2], 'big'), data[2], data[3], hx(data[4:]))
    if cls == 'DnsRecordRrsig':
        if len(data) < 18:
            return None
        dec = ref_dec_name(data[18:])
        if dec is None:
            return None
        tc = int.from_bytes(data[:2], 'big')
        return 'DnsRecordRrsig(' + ','.join([
            ('P' if 0xff00 <= tc <= 0xfffe else 'E') + str(tc), 'E{}'.format(data[2]), str(data[3]),
            str(int.from_bytes(data[4:8], 'big')), str(int.from_bytes(data[8:12], 'big')),
            str(int.from_bytes(data[12:16], 'big')), str(int.from_bytes(data[16:18], 'big')),
            c_list([hx(l) for l in dec[0]]), hx(dec[1])]) + ')'
    if cls == 'DnsRecordTxt':
        if not data:
            return None
        pos, value = 0, b''
        while pos < len(data):
            n = data[pos]
            if pos + 1 + n > len(data):
                return None
            value += data[pos + 1:pos + 1 + n]
            pos += 1 + n
        return 'DnsRecordTxt({})'.format(hx(value))
    if cls == 'DnsRecordDnskey':
        if len(data) < 4:
            return None
        flags = int.from_bytes(data[:2], 'big')
        if flags & ~sum(KNOWN_FLAGS) or data[2] != 3:
            return None             # reserved flag bits MUST be zero, the protocol MUST be 3
        key = ref_canon_key(data[3], data[4:])
        if key is None:
            return None
        return 'DnsRecordDnskey({},E{},{},3)'.format(c_list([str(f) for f in KNOWN_FLAGS if flags & f]), data[3], key)
    if cls == 'DnsRrTypePrivate':
        if len(data) != 2 or not 0xff00 <= int.from_bytes(data, 'big') <= 0xfffe:
            return None
        return 'DnsRrTypePrivate({})'.format(int.from_bytes(data, 'big'))
    return None


def ref_spec_key_tag_text(data):
    """what the driver prints as the specification value in a KT line"""
    data = bytes(data)
    if data[3] == 1:
        dec = ref_dec_rsa(data[4:])
        return '~' if dec is None else str(ref_key_tag_alg1(dec[1]))
    return str(ref_key_tag(data))


# ------------------------------------------------------------------------------------------------
# constants written into the Lean model by hand (tools/extract.py does not regenerate them)
# ------------------------------------------------------------------------------------------------

def consts_tie(run):
    from cryptoparser.dnsrec import record as rec
    from cryptodatahub.dnsrec.algorithm import DnsSecAlgorithm
    from cryptodatahub.common.algorithm import Authentication, NamedGroup
    want = {
        'header sizes': ((rec.DnsRecordDnskey.HEADER_SIZE, rec.DnsRecordDs.HEADER_SIZE, rec.DnsRecordRrsig.HEADER_SIZE,
                          rec.DnsRecordMx.HEADER_SIZE, rec.DnsRecordTxt.HEADER_SIZE), (4, 4, 18, 2, 1)),
        'name size limit': (getattr(rec.DnsNameUncompressed, 'MAX_SIZE', None), 255),
        'DnsSecProtocol': (sorted(m.value for m in rec.DnsSecProtocol), [3]),
        'private type range': ((rec.DnsRrTypePrivate._get_value_min(), rec.DnsRrTypePrivate._get_value_max(),  # pylint: disable=protected-access
                                rec.DnsRrTypePrivate._get_value_length()), (0xff00, 0xfffe, 2)),  # pylint: disable=protected-access
        'RSAMD5 code': (DnsSecAlgorithm.RSAMD5.value.code, 1),
        'group sizes': ((NamedGroup.SECP256K1.value.size, NamedGroup.SECP384R1.value.size, NamedGroup.GC256B.value.size,
                         NamedGroup.CURVE25519.value.size, NamedGroup.CURVE448.value.size), (256, 384, 256, 256, 448)),
    }
    kinds = {}
    for a in DnsSecAlgorithm:
        try:
            kt = a.value.algorithm.value.key_type
        except AttributeError:
            kinds[a.value.code] = None
            continue
        kinds[a.value.code] = {Authentication.RSA: 'rsa', Authentication.DSS: 'dsa', Authentication.ECDSA: 'ec',
                               Authentication.GOST_R3410_01: 'ec', Authentication.EDDSA: 'eddsa'}.get(kt, str(kt))
    model = {0: None, 2: None, 1: 'rsa', 5: 'rsa', 7: 'rsa', 8: 'rsa', 10: 'rsa', 3: 'dsa', 6: 'dsa', 12: 'ec', 13: 'ec',
             14: 'ec', 15: 'eddsa', 16: 'eddsa'}
    want['key kind per algorithm'] = (kinds, model)
    for what, (live, lean) in want.items():
        run.evaluations += 1
        if live != lean:
            run.finding('consts:' + what.replace(' ', '-'),
                        'constant written into CpModel/Dns/Msg.lean no longer equals the live code: {} is {} (model: {})'.format(
                            what, live, lean), {'kind': 'consts'})


# ------------------------------------------------------------------------------------------------
# oracles
# ------------------------------------------------------------------------------------------------

def dnskey_cls():
    from cryptoparser.dnsrec.record import DnsRecordDnskey
    return DnsRecordDnskey


def py_class(name):
    from cryptoparser.dnsrec import record as rec
    return getattr(rec, name)


CANON = {
    'DnsNameUncompressed': canon_dns.c_name, 'DnsRecordMx': canon_dns.c_mx, 'DnsRecordDs': canon_dns.c_ds,
    'DnsRecordRrsig': canon_dns.c_rrsig, 'DnsRecordTxt': canon_dns.c_txt, 'DnsRecordDnskey': canon_dns.c_dnskey,
    'DnsRrTypePrivate': lambda t: 'DnsRrTypePrivate({})'.format(t.value),
}


def keytag_findings(obj, data, tag):
    """the real key_tag against RFC 4034 Appendix B over the RDATA the record was parsed from"""
    data = bytes(data)
    try:
        real = obj.key_tag
    except Exception as exc:  # pylint: disable=broad-except
        return [('keytag-raises',
                 'DnsRecordDnskey.parse_exact_size({}).key_tag raised {}: {}'.format(hx(data), type(exc).__name__, str(exc)[:100]))]
    if data[3] == 1:
        dec = ref_dec_rsa(data[4:])
        if dec is None:
            return []
        want = ref_key_tag_alg1(dec[1])
        if real != want:
            return [('keytag-alg1', 'RSAMD5 key tag of {} is {}, RFC 4034 B.1 gives {}'.format(hx(data), real, want))]
        return []
    want = ref_key_tag(data)
    if real == want:
        return []
    try:
        recomposed = bytes(obj.compose())
    except Exception:  # pylint: disable=broad-except
        recomposed = None
    if recomposed == data and len(data) % 2 == 1:
        return [('keytag-odd', 'key_tag of the {}-octet (odd) DNSKEY RDATA {} is {}, RFC 4034 Appendix B gives {} '
                 '(the last octet is added unshifted) [{}]'.format(len(data), hx(data), real, want, tag))]
    if recomposed != data:
        return [('keytag-recomposed', 'key_tag of DNSKEY RDATA {} is {}, RFC 4034 Appendix B over that RDATA gives {}: the tag is '
                 'computed over the re-composition {}, which differs from the RDATA [{}]'.format(
                     hx(data), real, want, recomposed and hx(recomposed), tag))]
    return [('keytag', 'key_tag of DNSKEY RDATA {} is {}, RFC 4034 Appendix B gives {} [{}]'.format(hx(data), real, want, tag))]


def dnskey_c05(data):
    """C05 for DNSKEY with the canonical rendering of canon_dns (canon.generic cannot compare asn1crypto objects)"""
    cls = dnskey_cls()
    try:
        obj, _ = cls.parse_immutable(bytes(data))
    except Exception:  # pylint: disable=broad-except
        return []
    try:
        text = canon_dns.c_dnskey(obj)
    except Unmodelled:
        return []
    try:
        b2 = bytes(obj.compose())
    except Exception as exc:  # pylint: disable=broad-except
        return [('recompose:DnsRecordDnskey:{}'.format(type(exc).__name__),
                 'DnsRecordDnskey: accepted {} but compose() raised {}'.format(hx(data), err_line(exc)))]
    try:
        o2, n2 = cls.parse_immutable(b2)
        t2 = canon_dns.c_dnskey(o2)
    except Unmodelled:
        return []
    except Exception as exc:  # pylint: disable=broad-except
        return [('reparse:DnsRecordDnskey', 'DnsRecordDnskey: {} -> compose {} is rejected: {}'.format(hx(data), hx(b2), err_line(exc)))]
    if n2 != len(b2) or t2 != text:
        return [('meaning:DnsRecordDnskey', 'DnsRecordDnskey: {} -> {} re-parses to a different object: {} vs {}'.format(
            hx(data), hx(b2), t2[:200], text[:200]))]
    try:
        b3 = bytes(o2.compose())
    except Exception:  # pylint: disable=broad-except
        b3 = None
    if b3 != b2:
        return [('stable:DnsRecordDnskey', 'DnsRecordDnskey: compose not stable: {} then {}'.format(hx(b2), b3 and hx(b3)))]
    return []


# the generic C05 keys of clsops.check_input, grouped by root cause
ROOT_CAUSE = {
    'recompose:DnsNameUncompressed:InvalidValue': 'label-accepted-not-composable',
    'recompose:DnsRecordMx:InvalidValue': 'label-accepted-not-composable',
    'recompose:DnsRecordRrsig:InvalidValue': 'label-accepted-not-composable',
    'recompose:DnsRecordDnskey:ValueError': 'dnskey-accepted-not-composable',
    'recompose:DnsRecordDnskey:InvalidValue': 'dnskey-accepted-not-composable',
    'reparse:DnsRecordDnskey': 'dnskey-accepted-not-composable',
    'meaning:DnsRecordDnskey': 'dnskey-accepted-not-composable',
}


class ClsOracle(clsrun.ClsOracle):
    @staticmethod
    def prop(case):
        out = [(key, msg) for prop, key, msg in clsops.check_input(py_class(case['cls']), unhx(case['data']),
                                                                   want=tuple(case['want']), framing=False)
               if prop in case['want']]
        if case['cls'] == 'DnsRecordDnskey':
            out = out + dnskey_c05(unhx(case['data']))
        return [(ROOT_CAUSE.get(key, key), message) for key, message in out]


class KtOracle(object):
    """case {'kind':'kt','data':hex,'tag':text}"""

    @staticmethod
    def lines(case):
        return ['KT ' + case['data']]

    @staticmethod
    def impl(case):
        data = unhx(case['data'])
        try:
            obj, _ = dnskey_cls().parse_immutable(data)
        except Exception as exc:  # pylint: disable=broad-except
            return [err_line(exc)]
        try:
            canon_dns.c_dnskey(obj)
        except Unmodelled:
            return ['UNMODELLED']
        try:
            real = obj.key_tag
        except Exception as exc:  # pylint: disable=broad-except
            return ['KEYTAG-' + err_line(exc).replace(' ', '_')]
        return ['OK {} {}'.format(real, ref_spec_key_tag_text(data))]

    @staticmethod
    def prop(case):
        data = unhx(case['data'])
        try:
            obj, _ = dnskey_cls().parse_immutable(data)
        except Exception:  # pylint: disable=broad-except
            return []
        return keytag_findings(obj, data, case.get('tag', ''))


# one finding key per root cause: every symptom of these tags is reported under the tag's key
TAG_KEY = {'ed448': 'ed448-key-56-octets', 'rrsig-short': 'rrsig-header-size'}


def tag_key(what, tag):
    return TAG_KEY.get(tag, '{}:{}'.format(what, tag))


class SpecOracle(object):
    """case {'kind':'spec','cls':class,'data':hex,'tag':text,'canonical':bool}: RDATA from the reference encoder"""

    @staticmethod
    def lines(case):
        return clsops.model_lines(case['cls'], unhx(case['data']))[:1]

    @staticmethod
    def impl(case):
        return clsops.impl_lines(case['cls'], unhx(case['data']))[:1]

    @staticmethod
    def prop(case):
        name, tag = case['cls'], case['tag']
        data = unhx(case['data'])
        want = ref_canon(name, data)
        if want is None:
            return [('reference', 'the reference decoder rejects its own encoder\'s output {} [{}]'.format(hx(data), tag))]
        cls = py_class(name)
        try:
            obj, n = cls.parse_immutable(data)
        except Exception as exc:  # pylint: disable=broad-except
            key = tag_key('reject', tag)
            if err_line(exc).startswith('CRASH'):
                key = 'crash:{}:{}'.format(name, type(exc).__name__)
            return [(key, '{} rejects the conformant RDATA {} ({}): {}'.format(name, hx(data), want[:120], err_line(exc)))]
        bad = []
        if n != len(data):
            bad.append((tag_key('consumed', tag), '{} consumed {} of {} octets of {}'.format(name, n, len(data), hx(data))))
        try:
            got = CANON[name](obj)
        except Unmodelled:
            got = None
        if got is not None and got != want:
            bad.append((tag_key('recover', tag), '{} parses {} to {} where the RDATA encodes {}'.format(name, hx(data), got[:300], want[:300])))
        if name == 'DnsRecordDnskey':
            bad.extend(keytag_findings(obj, data, tag))
            if data[3] == 13 and obj.key.params.named_group.name != 'SECP256R1':
                bad.append(('ecdsa-p256-curve', 'algorithm 13 (ECDSAP256SHA256, RFC 6605: curve P-256) key is reported on curve {}'.format(
                    obj.key.params.named_group.name)))
        if case.get('canonical', True):
            try:
                again = bytes(obj.compose())
            except Exception as exc:  # pylint: disable=broad-except
                bad.append((tag_key('compose', tag), '{} parsed from {} cannot be composed: {}'.format(name, hx(data), err_line(exc))))
                return bad
            if again != data:
                bad.append((tag_key('compose', tag), '{} parsed from the conformant RDATA {} composes {}'.format(name, hx(data), hx(again))))
        return bad


class ObjOracle(object):
    """case {'kind':'obj','cls':class,'data':hex of compose(),'want':canonical text of the constructed object}"""

    @staticmethod
    def lines(case):
        return []

    @staticmethod
    def impl(case):
        return []

    @staticmethod
    def prop(case):
        got = ref_canon(case['cls'], unhx(case['data']))
        if got != case['want']:
            key = 'compose-format:' + case['cls']
            if case['cls'] == 'DnsRecordDnskey' and unhx(case['data'])[3:4] == b'\x10':
                key = TAG_KEY['ed448']      # an Ed448 key is composed with 56 octets
            return [(key, '{} {} composes {}, which the reference decoder reads as {}'.format(
                case['cls'], case['want'][:300], case['data'][:600], got and got[:300]))]
        return []


ORACLES = {'cls': ClsOracle, 'kt': KtOracle, 'spec': SpecOracle, 'obj': ObjOracle}


class Dispatch(object):
    @staticmethod
    def lines(case):
        return ORACLES[case['kind']].lines(case)

    @staticmethod
    def impl(case):
        return ORACLES[case['kind']].impl(case)

    @staticmethod
    def prop(case):
        return ORACLES[case['kind']].prop(case)


# ------------------------------------------------------------------------------------------------
# case generation
# ------------------------------------------------------------------------------------------------

def rint(rng, nbytes):
    """integer of exactly nbytes octets, away from the float-logarithm zone"""
    return gen_dns.safe_int(rng, nbytes)


def spec_dnskeys(rng, tier):
    """(tag, rdata, canonical) over every algorithm, flag subset, exponent form and modulus parity"""
    out = []
    subsets = [sum(f for i, f in enumerate(KNOWN_FLAGS) if m >> i & 1) for m in range(8)]
    rounds = 1 if tier == 'quick' else 6
    for _ in range(rounds):
        for flags in subsets:
            head = be(flags, 2) + b'\x03'
            alg = rng.choice(RSA_ALGS)
            for msize in (rng.choice([64, 128, 256]), rng.choice([65, 129, 257]), rng.randrange(2, 140)):
                e = rng.choice([3, 65537, rint(rng, rng.choice([1, 2, 4, 5, 255]))])
                out.append(('rsa', head + be(alg, 1) + ref_enc_rsa(e, rint(rng, msize)), True))
            out.append(('rsa3', head + be(rng.choice(RSA_ALGS), 1) + ref_enc_rsa(rint(rng, rng.choice([256, 257, 511])),
                                                                           rint(rng, rng.choice([128, 129]))), True))
            out.append(('rsamd5', head + be(1, 1) + ref_enc_rsa(65537, rint(rng, rng.choice([3, 4, 64, 65, 128]))), True))
            for alg, (_, size) in sorted(EC_ALGS.items()):
                tag = {13: 'ec256', 14: 'ec384', 12: 'gost'}[alg]
                out.append((tag, head + be(alg, 1) + be(rint(rng, size), size) + be(rint(rng, size), size), True))
            out.append(('ed25519', head + be(15, 1) + gen_dns.rbytes(rng, 32), True))
            out.append(('ed448', head + be(16, 1) + gen_dns.rbytes(rng, 57), True))
            t = rng.choice([0, 1, 8])
            size = 64 + 8 * t
            out.append(('dsa', head + be(rng.choice(DSA_ALGS), 1) + be(t, 1) + be(rint(rng, 20), 20) + be(rint(rng, size), size) +
                        be(rng.randrange(1, 256 ** size), size) + be(rng.randrange(1, 256 ** size), size), True))
        head = be(rng.choice(subsets), 2) + b'\x03'
        # both coordinates with a leading zero octet (one key in 65536)
        for alg, (_, size) in sorted(EC_ALGS.items()):
            out.append(({13: 'ec256', 14: 'ec384', 12: 'gost'}[alg], head + be(alg, 1) + b'\x00' + be(rint(rng, size - 1), size - 1) + b'\x00' +
                        be(rint(rng, size - 2), size - 1), True))
            out.append(({13: 'ec256', 14: 'ec384', 12: 'gost'}[alg], head + be(alg, 1) + b'\x00' + be(rint(rng, size - 1), size - 1) +
                        be(rint(rng, size), size), True))
    return out


def spec_cases(rng, tier):
    cases = []

    def add(cls, tag, data, canonical=True):
        cases.append({'kind': 'spec', 'cls': cls, 'tag': tag, 'data': hx(data), 'canonical': canonical})

    for tag, data, canonical in spec_dnskeys(rng, tier):
        add('DnsRecordDnskey', tag, data, canonical)
    rounds = 12 if tier == 'quick' else 120
    for _ in range(rounds):
        labels = [l.encode('ascii') for l in gen_dns.labels(rng)]
        add('DnsNameUncompressed', 'name', ref_enc_name(labels))
        add('DnsRecordMx', 'mx', be(rng.choice([0, 10, 65535, rng.randrange(65536)]), 2) + ref_enc_name(labels))
        add('DnsRecordDs', 'ds', be(rng.randrange(65536), 2) + be(rng.choice([5, 7, 8, 10, 13, 14, 15, 16]), 1) +
            be(rng.choice([1, 2, 4]), 1) + gen_dns.rbytes(rng, rng.choice([20, 32, 48])))
        for ts, tag in ((rng.choice([0, 1, 2 ** 31 - 1, 2 ** 31, 2 ** 32 - 2, rng.randrange(2 ** 32)]), 'rrsig'),
                        (2 ** 32 - 1, 'rrsig')):
            signer = [l.encode('ascii') for l in gen_dns.labels(rng)]
            add('DnsRecordRrsig', tag,
                be(rng.choice([1, 15, 16, 48, 257, 0xff00, 0xfffe, rng.randrange(0xff00, 0xffff)]), 2) +
                be(rng.choice([8, 13, 15]), 1) + be(rng.randrange(128), 1) + be(rng.choice([0, 3600, 2 ** 32 - 1]), 4) +
                be(ts, 4) + be(rng.choice([0, 1600000000, 2 ** 32 - 2, 2 ** 32 - 1]), 4) + be(rng.randrange(65536), 2) +
                ref_enc_name(signer) + gen_dns.rbytes(rng, rng.choice([64, 96, 256])))
        text = gen_dns.txt_text(rng, rng.choice([0, 1, 30, 255])).encode('ascii')
        add('DnsRecordTxt', 'txt', bytes([len(text)]) + text)
        parts = [gen_dns.txt_text(rng, rng.choice([0, 3, 40])).encode('ascii') for _ in range(rng.choice([2, 3]))]
        add('DnsRecordTxt', 'txt-multi', b''.join(bytes([len(p)]) + p for p in parts), canonical=False)
        parts = [gen_dns.txt_text(rng, 255).encode('ascii'), gen_dns.txt_text(rng, rng.choice([1, 100, 255])).encode('ascii')]
        add('DnsRecordTxt', 'txt-long', b''.join(bytes([len(p)]) + p for p in parts))     # 255 + k: the composed form
        add('DnsRrTypePrivate', 'private-type', be(rng.choice([0xff00, 0xfffe, rng.randrange(0xff00, 0xffff)]), 2))
    # valid RRSIGs of 19 to 23 octets (the fixed part has 18)
    for sig in range(5):
        add('DnsRecordRrsig', 'rrsig-short', be(1, 2) + be(8, 1) + be(0, 1) + be(3600, 4) + be(1600000000, 4) + be(1500000000, 4) +
            be(7, 2) + b'\x00' + gen_dns.rbytes(rng, sig))
    add('DnsRecordRrsig', 'rrsig-short', be(1, 2) + be(8, 1) + be(1, 1) + be(3600, 4) + be(1600000000, 4) + be(1500000000, 4) +
        be(7, 2) + b'\x01a\x00' + gen_dns.rbytes(rng, rng.randrange(0, 3)))
    # RSA moduli at a power of 256 and next to one (sized by bit_length(), not by a float logarithm)
    for k in (1, 64, 128):
        for n in (256 ** k, 256 ** k + 1, 256 ** k - 1):
            add('DnsRecordDnskey', 'rsa-pow256', b'\x01\x00\x03\x08' + ref_enc_rsa(65537, n))
    return cases


def txt_compose_check(rng):
    """TXT data above 255 octets is legitimate (several character-strings); composing it must be possible"""
    from cryptoparser.dnsrec.record import DnsRecordTxt
    text = gen_dns.txt_text(rng, rng.choice([256, 300, 700]))
    try:
        data = bytes(DnsRecordTxt(text).compose())
    except Exception as exc:  # pylint: disable=broad-except
        return [('compose:DnsRecordTxt:long', 'DnsRecordTxt of {} characters cannot be composed: {}'.format(len(text), err_line(exc)),
                 {'kind': 'txt-compose', 'n': len(text)})]
    if ref_canon('DnsRecordTxt', data) != 'DnsRecordTxt({})'.format(hx(text.encode('ascii'))):
        return [('compose:DnsRecordTxt:long', 'DnsRecordTxt of {} characters composes to RDATA that does not hold it'.format(len(text)),
                 {'kind': 'txt-compose', 'n': len(text)})]
    return []


def nonconformant_cases(rng):
    """RDATA the RFCs do not allow and a conformant reader must not silently accept as something else"""
    out = []
    head = b'\x01\x01\x03'
    for alg, size in ((13, 64), (14, 96), (12, 64), (15, 32), (16, 57)):
        out.append(('trailing-key-bytes', 'DnsRecordDnskey', head + be(alg, 1) + gen_dns.safe_int(rng, size).to_bytes(size, 'big') +
                    b'\xaa\xbb'))
    size = 64 + 8 * rng.choice([0, 1])
    out.append(('trailing-key-bytes', 'DnsRecordDnskey', head + be(3, 1) + be((size - 64) // 8, 1) + gen_dns.rbytes(rng, 20) +
                be(gen_dns.safe_int(rng, size), size) + gen_dns.rbytes(rng, 2 * size) + b'\xaa'))
    out.append(('label-over-63', 'DnsNameUncompressed', bytes([64]) + b'a' * 64 + b'\x00'))
    out.append(('label-over-63', 'DnsNameUncompressed', bytes([0xc0]) + b'a' * 0xc0 + b'\x00'))
    out.append(('label-over-63', 'DnsNameUncompressed', bytes([127]) + b'a' * 63 + b'.' + b'b' * 63 + b'\x00'))
    out.append(('label-over-63', 'DnsRecordMx', be(10, 2) + bytes([64]) + b'a' * 64 + b'\x00'))
    out.append(('name-over-255', 'DnsNameUncompressed', (bytes([63]) + b'a' * 63) * 5 + b'\x00'))
    out.append(('name-over-255', 'DnsNameUncompressed', (bytes([63]) + b'a' * 63) * 3 + bytes([62]) + b'a' * 62 + b'\x00'))
    out.append(('name-over-255', 'DnsRecordRrsig', be(1, 2) + be(8, 1) + be(2, 1) + be(3600, 4) + be(1600000000, 4) +
                be(1500000000, 4) + be(7, 2) + b'\x01a' * 128 + b'\x00' + gen_dns.rbytes(rng, 64)))
    return out


def check_nonconformant(tag, name, data):
    cls = py_class(name)
    try:
        obj, n = cls.parse_immutable(data)
    except Exception as exc:  # pylint: disable=broad-except
        if err_line(exc).startswith('CRASH'):
            return [('crash:{}:{}'.format(name, type(exc).__name__), '{}.parse_immutable({}) raised {}'.format(
                name, hx(data), type(exc).__name__))]
        return []
    try:
        again = bytes(obj.compose())
    except Exception as exc:  # pylint: disable=broad-except
        again = None
    if again != bytes(data) or tag in ('name-over-255', 'label-over-63'):
        return [(tag, '{} accepts the non-conformant RDATA {} (consumed {}), and what it keeps composes {}'.format(
            name, hx(data), n, again and hx(again)))]
    return []


def edge_cases():
    """inputs at the boundary of what the key/name/TXT code handles, the same on every run (class, RDATA)"""
    head = b'\x01\x01\x03'
    rsa = head + b'\x08'
    ec = head + b'\x0d'
    one = b'\x00' * 31 + b'\x01'
    long_label = bytes([64]) + b'a' * 64 + b'\x00'
    dotted = bytes([4]) + b'a..b' + b'\x00'
    rrsig_head = be(1, 2) + be(8, 1) + be(2, 1) + be(3600, 4)
    return [
        ('DnsRecordDnskey', head + b'\x00' + bytes(10)),                       # algorithm DELETE
        ('DnsRecordDnskey', head + b'\x02' + bytes(10)),                       # algorithm DH
        ('DnsRecordDnskey', rsa + b'\x03\x01\x00\x01'),                        # no modulus octets
        ('DnsRecordDnskey', rsa + b'\x03\x01\x00\x01' + b'\x01' + bytes(64)),  # modulus 256^64
        ('DnsRecordDnskey', rsa + b'\x03\x01\x00\x01' + b'\x01'),             # modulus 1
        ('DnsRecordDnskey', rsa + b'\x03\x01\x00\x01' + b'\x00' + bytes(range(1, 65))),   # leading zero octet
        ('DnsRecordDnskey', rsa + b'\x00\x00\x03\x01\x00\x01' + bytes(range(1, 65))),   # long form for a short exponent
        ('DnsRecordDnskey', rsa + b'\x00\x00\x00' + bytes(range(1, 65))),      # exponent of no octets
        ('DnsRecordDnskey', ec + bytes(32) + bytes(range(1, 33))),              # x = 0
        ('DnsRecordDnskey', ec + bytes(range(1, 33)) + bytes(32)),              # y = 0
        ('DnsRecordDnskey', ec + one + one),                                    # x = y = 1
        ('DnsRecordDnskey', ec + b'\x00' * 30 + b'\x01\x00' + one),             # x = 256
        ('DnsRecordDnskey', ec + b'\x00' + bytes(range(1, 32)) + b'\x00' + bytes(range(1, 32))),
        ('DnsRecordDnskey', head + b'\x03' + b'\x00' + bytes(range(1, 21)) + b'\x00' + bytes(range(1, 64)) +
         bytes(range(2, 66)) + bytes(range(3, 67))),                            # DSA prime with a leading zero octet
        ('DnsRecordDnskey', b'\xfe\x7e\x03\x0f' + bytes(range(1, 33))),        # reserved flag bits
        ('DnsRecordDnskey', rsa + b'\x03\x01\x00\x01' + bytes(8)),               # modulus 0 in eight octets
        ('DnsRecordDnskey', rsa + b'\x01\x00' + bytes(range(1, 65))),             # exponent 0
        ('DnsRecordDnskey', rsa + b'\x03\x01\x00\x01' + b'\x01' + bytes(127) + b'\x01'),   # modulus 2^1024 + 1
        ('DnsRecordDnskey', rsa + b'\x03\x01\x00\x01' + b'\xff' * 128),         # modulus 2^1024 - 1
        ('DnsRecordDnskey', ec + bytes(range(1, 33)) + bytes(range(2, 34)) + b'\xaa'),   # an octet after an ECDSA key
        ('DnsRecordDnskey', head + b'\x0f' + bytes(range(1, 33)) + b'\xaa\xbb'),  # two octets after an Ed25519 key
        ('DnsRecordDnskey', head + b'\x10' + bytes(range(1, 58))),                # an Ed448 key of 57 octets (RFC 8080)
        ('DnsRecordDnskey', head + b'\x03' + b'\x00' + bytes(range(1, 21)) + bytes(range(1, 65)) + bytes(range(2, 66)) +
         bytes(range(3, 67)) + b'\xaa'),                                        # an octet after a DSA key
        ('DnsRecordDnskey', head + b'\x03' + b'\x00' + bytes(range(1, 21)) + b'\x01' + bytes(63) + bytes(range(2, 66)) +
         bytes(range(3, 67))),                                                  # DSA prime 256^63
        ('DnsRecordDnskey', head + b'\x03' + b'\x00' + bytes(range(1, 21)) + bytes(64) + bytes(range(2, 66)) +
         bytes(range(3, 67))),                                                  # DSA prime 0
        ('DnsRecordDnskey', head + b'\x03' + b'\x00' + bytes(range(1, 21)) + b'\x00' + bytes(range(1, 64)) + bytes(range(2, 40))),
        ('DnsNameUncompressed', bytes([63]) + b'a' * 63 + b'\x00'),
        ('DnsNameUncompressed', bytes([3]) + b'a.b' + b'\x00'),
        ('DnsNameUncompressed', bytes([127]) + b'a' * 63 + b'.' + b'b' * 63 + b'\x00'),
        ('DnsNameUncompressed', (bytes([63]) + b'a' * 63) * 3 + bytes([61]) + b'a' * 61 + b'\x00'),   # 255 octets
        ('DnsNameUncompressed', (bytes([63]) + b'a' * 63) * 3 + bytes([62]) + b'a' * 62 + b'\x00'),   # 256 octets
        ('DnsNameUncompressed', (bytes([63]) + b'a' * 63) * 4),                  # beyond 255 octets and truncated
        ('DnsRecordRrsig', rrsig_head + be(1600000000, 4) + be(1500000000, 4) + be(7, 2)),                # 18 octets: no name
        ('DnsRecordRrsig', rrsig_head + be(1600000000, 4) + be(1500000000, 4) + be(7, 2) + b'\x00'),      # 19 octets
        ('DnsRecordRrsig', rrsig_head + be(1600000000, 4) + be(1500000000, 4) + be(7, 2) + b'\x00\x01\x02\x03\x04'),
        ('DnsRecordRrsig', rrsig_head + be(1600000000, 4) + be(1500000000, 4) + be(7, 2) + b'\x01a' * 128 + b'\x00' + bytes(range(40))),
        ('DnsNameUncompressed', long_label),
        ('DnsNameUncompressed', dotted),
        ('DnsRecordMx', be(10, 2) + long_label),
        ('DnsRecordMx', be(10, 2) + dotted),
        ('DnsRecordRrsig', rrsig_head + be(1600000000, 4) + be(1500000000, 4) + be(7, 2) + long_label + bytes(range(40))),
        ('DnsRecordRrsig', rrsig_head + be(2 ** 32 - 1, 4) + be(1500000000, 4) + be(7, 2) + b'\x01a\x00' + bytes(range(40))),
        ('DnsRecordRrsig', rrsig_head + be(1600000000, 4) + be(2 ** 32 - 1, 4) + be(7, 2) + b'\x01a\x00' + bytes(range(40))),
        ('DnsRecordTxt', bytes([255]) + b'a' * 255 + bytes([1]) + b'b'),
        ('DnsRecordTxt', bytes([1, 0x80])),
    ]


def raw_cases(run, per_class, seen):
    """non-canonical wire inputs of gen_dns.RAW_INPUTS"""
    cases, kt = [], []
    for name, gen in gen_dns.RAW_INPUTS:
        for _ in range(per_class):
            data = bytes(gen(run.rng))
            if (name, data) in seen:
                continue
            seen.add((name, data))
            want_props = ['C02', 'C03'] if name == 'DnsRecordDnskey' else ['C02', 'C03', 'C05']
            cases.append({'kind': 'cls', 'cls': name, 'data': hx(data), 'want': want_props, 'framing': False})
            if name == 'DnsRecordDnskey' and len(data) >= 4:
                kt.append({'kind': 'kt', 'data': hx(data), 'tag': 'raw'})
    return cases, kt


def class_cases(run, per_class, mutations, late):
    cases, kt, objs = [], [], []
    seen = set()
    for name, gen in gen_dns.MODELLED_GENERATORS:
        cls = py_class(name)
        for _ in range(per_class):
            try:
                obj = gen(run.rng)
            except Exception as exc:  # pylint: disable=broad-except
                run.count('generator_errors', '{}:{}'.format(name, type(exc).__name__))
                continue
            try:
                data = bytes(obj.compose())
            except Exception as exc:  # pylint: disable=broad-except
                late.append(('compose:{}:{}'.format(name, type(exc).__name__), '{}: compose() of a constructed object raised {}'.format(name, err_line(exc)),
                             {'kind': 'constructed', 'cls': name}))
                continue
            try:
                want = CANON[name](obj)
                objs.append({'kind': 'obj', 'cls': name, 'data': hx(data), 'want': want})
            except Unmodelled:
                pass
            variants = [data] + clsrun.all_truncations(data, limit=40) + clsrun.mutations(run.rng, data, mutations)
            for v in variants:
                if (name, v) in seen:
                    continue
                seen.add((name, v))
                want_props = ['C02', 'C03'] if cls is dnskey_cls() else ['C02', 'C03', 'C05']
                cases.append({'kind': 'cls', 'cls': name, 'data': hx(v), 'want': want_props, 'framing': False})
                if name == 'DnsRecordDnskey' and len(v) >= 4:
                    kt.append({'kind': 'kt', 'data': hx(v), 'tag': 'generated'})
    for name, data in edge_cases():
        if (name, data) in seen or name not in dict(gen_dns.MODELLED_GENERATORS):
            continue
        seen.add((name, data))
        want_props = ['C02', 'C03'] if name == 'DnsRecordDnskey' else ['C02', 'C03', 'C05']
        cases.append({'kind': 'cls', 'cls': name, 'data': hx(data), 'want': want_props, 'framing': False})
        if name == 'DnsRecordDnskey':
            kt.append({'kind': 'kt', 'data': hx(data), 'tag': 'edge'})
    more, more_kt = raw_cases(run, 60 if per_class <= 40 else 600, seen)
    return cases + more, kt + more_kt + carry_cases(run.rng, 40 if per_class <= 40 else 600), objs


def carry_cases(rng, n):
    """DNSKEY RDATA (even length) aimed at the final fold of RFC 4034 Appendix B: the 16-bit word sum S is placed where
    (S & 0xffff) + (S >> 16) lands on 0xfffe, 0xffff, 0x10000, 0x10001 - an end-around-carry implementation (Internet
    checksum style) and the RFC's single add-and-truncate differ exactly at and above 0x10000"""
    out = []
    layouts = [(15, 32), (13, 64), (14, 96), (8, 3 + 64), (8, 3 + 128), (10, 3 + 256), (16, 56)]
    for _ in range(n):
        alg, klen = rng.choice(layouts)
        flags = rng.choice([0x0100, 0x0101, 0x0180, 0x0000, 0xffff])
        head = flags.to_bytes(2, 'big') + bytes([3, alg])
        if alg in (8, 10):
            body = bytes([1, 3]) + bytes(rng.choice([0xff, 0xfe, rng.getrandbits(8)]) for _ in range(klen - 2))
        else:
            body = bytes(rng.choice([0xff, 0xff, 0xfe, rng.getrandbits(8)]) for _ in range(klen))
        data = bytearray(head + body)
        if len(data) % 2:
            data.append(0xff)
        base = bytes(data[:-2])
        s0 = 0
        for i, b in enumerate(base):
            s0 += b if (i & 1) else (b << 8)
        for target in (0xfffe, 0xffff, 0x10000, 0x10001, 0x1fffe):
            # choose the last word w so that ((s0 + w) & 0xffff) + ((s0 + w) >> 16) == target, if possible
            for w in range(0x10000):
                t = s0 + w
                if (t & 0xffff) + (t >> 16) == target:
                    out.append({'kind': 'kt', 'data': hx(base + w.to_bytes(2, 'big')), 'tag': 'carry'})
                    break
    return out


def run(run, driver_ok=True, deep=False):  # pylint: disable=redefined-outer-name
    tier = 'thorough' if deep else run.tier
    consts_tie(run)
    if not gen_dns.MODELLED_GENERATORS:
        run.notes.append('the driver in use does not know the DNS classes: class-level correspondence skipped')
        driver_ok = False
    per_class, mutations = (40, 6) if tier == 'quick' else (400, 10)
    late = []
    cases, kt, objs = class_cases(run, per_class, mutations, late)
    spec = spec_cases(run.rng, tier)
    for c in spec:
        if c['cls'] == 'DnsRecordDnskey':
            kt.append({'kind': 'kt', 'data': c['data'], 'tag': c['tag']})
    everything = kt + spec + cases + objs
    for c in everything:
        run.count('kinds', c['kind'])
        run.count('classes', c.get('cls', 'DnsRecordDnskey'))
        if c['data'].strip('0-'):
            run.note_nontrivial((c['kind'], c.get('cls', 'kt'), c['data']))
    for c in cases[:2] + kt[:2] + spec[:3] + objs[:2]:
        run.sample({k: (v[:160] if isinstance(v, str) else v) for k, v in c.items()})
    if driver_ok:
        core.correspond(run, Dispatch, everything, compare=clsops.same)
    else:
        for case in everything:
            run.evaluations += 1
            for key, message in Dispatch.prop(case):
                run.finding(key, message, case)
    for tag, name, data in nonconformant_cases(run.rng):
        run.evaluations += 1
        for key, message in check_nonconformant(tag, name, data):
            run.finding(key, message, {'kind': 'nonconformant', 'tag': tag, 'cls': name, 'data': hx(data)})
    for key, message, case in late + txt_compose_check(run.rng):
        run.finding(key, message, case)
    run.notes.append('{} class-level inputs, {} KT ops, {} reference-encoded RDATA, {} constructed objects'.format(
        len(cases), len(kt), len(spec), len(objs)))


def search(run, proof):  # pylint: disable=redefined-outer-name
    if run.tier != 'thorough':
        sub = core.Run(run.prop, 'thorough', run.seed + 1)
        sub.kf = run.kf
        globals()['run'](sub, driver_ok=False, deep=True)
        run.violations.extend(sub.violations)
        run.evaluations += sub.evaluations
        run.notes.append('failing-input search: thorough-tier case set on the implementation alone, {} cases'.format(sub.evaluations))


def replay(case):
    kind = case.get('kind')
    if kind in ORACLES:
        return Dispatch.prop(case)
    if kind == 'nonconformant':
        return check_nonconformant(case['tag'], case['cls'], unhx(case['data']))
    if kind == 'txt-compose':
        import random
        return [(k, m) for k, m, _ in txt_compose_check(random.Random(case.get('n', 0)))]
    if kind == 'consts':
        r = core.Run('C08', 'quick', 0)
        consts_tie(r)
        return [(k, m) for k, m, _ in r.violations]
    if kind == 'constructed':
        from cryptoparser.dnsrec.record import DnsRecordTxt
        try:
            DnsRecordTxt('a' * 300).compose()
        except Exception as exc:  # pylint: disable=broad-except
            return [('compose:DnsRecordTxt:long', 'DnsRecordTxt of 300 characters cannot be composed: {}'.format(err_line(exc)))]
    return []
