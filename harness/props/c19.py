# -*- coding: utf-8 -*-
"""C19 — parsing work is bounded linearly by the input size.

Lean side (`CpProps/C19.lean`): tick-counting counterparts of the binary loops (`CpModel/Cost.lean`), linear bounds
for the item loop with ANY item parser, for the record / handshake framing and for the whole ClientHello, "a declared
count never drives more iterations than bytes present" for every count-driven primitive, the variant walks, and the
class graph of the TLS model (finite, acyclic, call chains of at most 7 classes).

Implementation side (this module): the REAL parse is run under `sys.monitoring` (fallback `sys.settrace`) and its
interpreter LINE EVENTS inside `cryptoparser/` are counted, together with the deepest nesting of cryptoparser
frames.  Line events are deterministic, so every verdict is taken on them and never on time:

  superlinear:<Class>:<shape>       sizes s, 2s, 4s, 8s of a scalable shape; the slope d(events)/d(bytes) of the last
                                    doubling exceeds 1.5 x the slope of the first
  declared-count-work:<Class>:<f>   a maximal declared length/count followed by a few bytes costs more than a fixed
                                    budget of events (DECLARED_BUDGET), more than DECLARED_DIFF events above the SAME
                                    input declaring a value just beyond the data, or allocates more than DECLARED_ALLOC
  depth:<Class>                     the nesting of cryptoparser frames grows with the size, or RecursionError escapes
                                    (filed under the class whose parser recurses)
  hang:<Class>                      a parse exceeds the time limit (signal.alarm)
  budget:<Class>                    a corpus / mutated input costs more than EV_PER_BYTE * len + EV_CONST events
  entry-points:<Class>              parse_immutable / parse_exact_size / parse_mutable differ by more than a constant

and the tick model is validated on the modelled classes (`TK <Class> <hex>`): events <= ALPHA * ticks + BETA, and
ticks <= the proven linear bound.

NOT claimed (recorded as unmodelled): C-level work inside one interpreter step — slice copies such as
`unparsed_bytes[parsed_length:]` or `buf[a:b].endswith(sep)` (quadratic in BYTES for some shapes, Lean:
`C18.search_bytes_quadratic`), `list.insert(0, x)`, `str +=`, third-party code (dateutil, json, asn1crypto).  Wall
time (untraced) is measured at s..8s, continued by doubling, and reported in the notes where it is clearly superlinear
while the events are linear; it becomes a finding (`time-worse-than-quadratic:`) only when it grows worse than
quadratically on two measurements.  A detector self-test (synthetic quadratic / recursive / count-driven parsers compiled
under a cryptoparser/ file name) runs first; its failure is an infrastructure error, not a verdict."""
from __future__ import print_function

import os
import signal
import subprocess
import sys
import time
import tracemalloc

from harness import core
from harness.core import hx, unhx

LEAN_MODULES = ['CpProps.C19']
RULE = ('line events inside cryptoparser/ of the real parse (parse_immutable; the three entry points compared at the '
        'smallest size) for every scalable shape in SHAPES (HTTP header block: many parsed/unparsed headers, one huge '
        'value, no CRLF, no colon, only CRLFs; every FieldValueMultiple header and every TXT policy record with n '
        'components, n repeated separators, n spaces, one huge component, no separator; CSP with n directives / n '
        'sources; NEL with nested / long / many-keyed JSON; ClientHello with n cipher suites (known, GREASE), n extensions (parsed, unparsed), n groups, n '
        'signature algorithms, n ALPN names, n key shares, n SNI bytes, one huge extension; ServerHello with n '
        'extensions; Certificate with n certificates and with one huge certificate; CertificateRequest with n names; '
        'TLS/SSL records; SSH KEXINIT with n names and with one huge name, SSH banner without line end and with a huge '
        'comment, SSH records; DNS TXT with n strings, names with n labels, DNSKEY/RRSIG/DS with n key bytes; '
        'MySQL/TPKT/COTP/OpenVPN/LDAP/PostgreSQL frames with n payload bytes) at four sizes s,2s,4s,8s with s '
        'calibrated so that the largest run has about EV_TARGET events; maximal declared lengths/counts with little '
        'data for every length/count field (DECLARED); the corpus harvested from the repo test-suite at natural sizes '
        'and seeded mutations of it; the tick model on TlsRecord / ClientHello / ServerHello / Certificate / '
        'handshake variant inputs.  A case is non-trivial when the input has more than 8 bytes; distinct by '
        '(class, shape, size) or (class, input).')
ASSUMPTIONS = [
    'line events of CPython 3.12 inside files under cryptoparser/ are the unit of "interpreter-level step"; work done '
    'in C inside one step (slicing, bytes.endswith, list.insert, str concatenation, struct, int()) and in third-party '
    'packages (dateutil, json, asn1crypto, attrs-generated __init__) is not counted',
    'the tick model covers the binary TLS classes of CpModel/Tls/Msg.lean; text classes are covered by '
    'C18.array_ticks_linear (one scanner call) and by measurement',
]
TRUSTED_EXTRA = ['sys.monitoring / sys.settrace line events of CPython; tracemalloc peak as the allocation measure']

EV_TARGET = 30000           # events of the largest run of a shape in the quick tier (about 0.04 s under monitoring;
                            # thorough: x4)
SLOPE_RATIO = 1.5
MIN_BYTES = 64              # floor on the smallest size of a series
DECLARED_BUDGET = 10000     # events allowed for a maximal declared value followed by a few bytes (the most expensive
                            # constant is the walk over ~40 host-key classes of SshHostPublicKeyVariant: ~8400)
DECLARED_DIFF = 100         # ... and by how much it may exceed the same input declaring a value just beyond the data
DECLARED_ALLOC = 300 * 1024   # tracemalloc peak allowed for such an input (< 100 bytes)
EV_PER_BYTE, EV_CONST = 1500, 60000     # sanity budget on corpus inputs and mutations
TIME_LIMIT = 20             # seconds, per parse
TIME_FLOOR = 0.004          # untraced seconds below which a series is not examined for time growth
TIME_SUSPECT = 1.25         # time ratio / byte ratio of the last doubling that triggers the extended timing
TIME_SUPER = 1.5            # ... that is reported as 'clearly superlinear' after the extension (quadratic -> 2)
TIME_CHEAP = 0.02           # the untraced timing of a series is continued by doubling until a parse takes this long
TIME_STOP = 0.25            # stop extending once a single parse takes this long
ENTRY_SLACK = 40            # events by which the three entry points may differ
TICK_ALPHA, TICK_BETA = 40, 400        # events <= ALPHA * ticks + BETA on the modelled classes


# ------------------------------------------------------------------------------------------------
# the meter
# ------------------------------------------------------------------------------------------------

def _root():
    import os
    import cryptoparser
    return os.path.dirname(os.path.abspath(cryptoparser.__file__)) + os.sep


class Meter(object):
    """Counts line events and the deepest nesting of frames whose code lives under cryptoparser/."""

    def __init__(self):
        self.root = _root()
        self.events = 0
        self.depth = 0
        self.maxdepth = 0
        self._codes = {}

    def _mine(self, code):
        r = self._codes.get(code)
        if r is None:
            r = code.co_filename.startswith(self.root)
            self._codes[code] = r
        return r

    # --- sys.monitoring (3.12+)
    def _line(self, code, _lineno):
        if self._mine(code):
            self.events += 1
            return None
        return sys.monitoring.DISABLE

    def _start(self, code, _off):
        if self._mine(code):
            self.depth += 1
            if self.depth > self.maxdepth:
                self.maxdepth = self.depth
            return None
        return sys.monitoring.DISABLE

    def _ret(self, code, _off, _val):
        if self._mine(code):
            self.depth -= 1
            return None
        return sys.monitoring.DISABLE

    def _unwind(self, code, _off, _exc):
        if self._mine(code):
            self.depth -= 1

    def run_monitoring(self, fn):
        mon = sys.monitoring
        ev = mon.events
        tool = None
        for cand in (3, 4, 2, 1):
            if mon.get_tool(cand) is None:
                tool = cand
                break
        if tool is None:
            return self.run_settrace(fn)
        mon.use_tool_id(tool, 'cpverif-c19')
        try:
            mon.register_callback(tool, ev.LINE, self._line)
            mon.register_callback(tool, ev.PY_START, self._start)
            mon.register_callback(tool, ev.PY_RETURN, self._ret)
            mon.register_callback(tool, ev.PY_UNWIND, self._unwind)
            mon.set_events(tool, ev.LINE | ev.PY_START | ev.PY_RETURN | ev.PY_UNWIND)
            mon.restart_events()
            return fn()
        finally:
            mon.set_events(tool, 0)
            for e in (ev.LINE, ev.PY_START, ev.PY_RETURN, ev.PY_UNWIND):
                mon.register_callback(tool, e, None)
            mon.free_tool_id(tool)

    # --- sys.settrace fallback
    def run_settrace(self, fn):
        def local(frame, event, _arg):
            if event == 'line':
                self.events += 1
            elif event == 'return':
                self.depth -= 1
            return local

        def tracer(frame, event, _arg):
            if event == 'call' and self._mine(frame.f_code):
                self.depth += 1
                if self.depth > self.maxdepth:
                    self.maxdepth = self.depth
                return local
            return None
        old = sys.gettrace()
        sys.settrace(tracer)
        try:
            return fn()
        finally:
            sys.settrace(old)

    def run(self, fn):
        if hasattr(sys, 'monitoring'):
            return self.run_monitoring(fn)
        return self.run_settrace(fn)


class Hang(Exception):
    pass


def _alarm(_sig, _frm):
    raise Hang()


def measure(cls, data, entry='parse_immutable', limit=TIME_LIMIT, alloc=False):
    """(events, depth, seconds, outcome, peak bytes) of one real parse."""
    meter = Meter()
    arg = bytearray(data) if entry == 'parse_mutable' else bytes(data)
    fn = getattr(cls, entry)
    out = ['OK']

    def call():
        try:
            fn(arg)
        except Hang:
            raise
        except RecursionError:
            out[0] = 'RecursionError'
        except Exception as exc:  # pylint: disable=broad-except
            out[0] = type(exc).__name__
    old = signal.signal(signal.SIGALRM, _alarm)
    signal.alarm(limit)
    peak = 0
    t0 = time.perf_counter()
    try:
        if alloc:
            tracemalloc.start()
            try:
                call()
                peak = tracemalloc.get_traced_memory()[1]
            finally:
                tracemalloc.stop()
        else:
            meter.run(call)
    except Hang:
        out[0] = 'HANG'
    finally:
        signal.alarm(0)
        signal.signal(signal.SIGALRM, old)
    return meter.events, meter.maxdepth, time.perf_counter() - t0, out[0], peak


def wall(cls, data, limit=TIME_LIMIT):
    """untraced wall time of one real parse (seconds), None on a hang"""
    arg = bytes(data)
    fn = cls.parse_immutable
    old = signal.signal(signal.SIGALRM, _alarm)
    signal.alarm(limit)
    t0 = time.perf_counter()
    try:
        try:
            fn(arg)
        except Hang:
            return None
        except Exception:  # pylint: disable=broad-except
            pass
        return time.perf_counter() - t0
    finally:
        signal.alarm(0)
        signal.signal(signal.SIGALRM, old)


# ------------------------------------------------------------------------------------------------
# byte builders
# ------------------------------------------------------------------------------------------------

def u(n, k):
    return int(n).to_bytes(k, 'big')


def vec(k, body):
    return u(len(body), k) + body


def hs(typ, body):
    return u(typ, 1) + vec(3, body)


def ext(typ, body):
    return u(typ, 2) + vec(2, body)


RANDOM32 = bytes(range(32))


def client_hello(suites=b'\x00\x2f', exts=b'', sid=b'', comp=b'\x00'):
    body = b'\x03\x03' + RANDOM32 + vec(1, sid) + vec(2, suites) + vec(1, comp) + (vec(2, exts) if exts else b'')
    return hs(1, body)


def server_hello(exts=b'', sid=b''):
    body = b'\x03\x03' + RANDOM32 + vec(1, sid) + b'\x00\x2f' + b'\x00' + (vec(2, exts) if exts else b'')
    return hs(2, body)


def ssh_string(b):
    return vec(4, b)


def kexinit(lists):
    body = b'\x14' + bytes(16) + b''.join(ssh_string(x) for x in lists) + b'\x00' + bytes(4)
    return body


def ssh_record(payload, pad=4):
    return u(len(payload) + pad + 1, 4) + u(pad, 1) + payload + bytes(pad)


KEX_DEFAULT = [b'curve25519-sha256', b'ssh-ed25519', b'aes128-ctr', b'aes128-ctr', b'hmac-sha2-256', b'hmac-sha2-256',
               b'none', b'none', b'', b'']


def kex_with(i, value):
    lists = list(KEX_DEFAULT)
    lists[i] = value
    return kexinit(lists)


def dns_name(labels):
    return b''.join(vec(1, x) for x in labels) + b'\x00'


def rrsig(sig, labels=(b'example', b'com')):
    return (u(48, 2) + u(8, 1) + u(2, 1) + u(3600, 4) + u(1700000000, 4) + u(1690000000, 4) + u(12345, 2) +
            dns_name(labels) + sig)


def der(tag, body):
    n = len(body)
    if n < 0x80:
        return bytes([tag, n]) + body
    ln = n.to_bytes((n.bit_length() + 7) // 8, 'big')
    return bytes([tag, 0x80 | len(ln)]) + ln + body


def ldap_response(controls=b'', referrals=b''):
    op = der(0x0a, b'\x00') + der(0x04, b'') + der(0x04, b'') + (der(0xa3, referrals) if referrals else b'')
    return der(0x30, der(0x02, b'\x01') + der(0x78, op) + (der(0xa0, controls) if controls else b''))


def cls_of(path):
    from harness import corpus
    return corpus.resolve(path)


# ------------------------------------------------------------------------------------------------
# scalable shapes: (class path, shape name, builder(n) -> bytes, cap on n or None)
# ------------------------------------------------------------------------------------------------

HDR = 'cryptoparser.httpx.header:'
TXT = 'cryptoparser.dnsrec.txt:'
TLS = 'cryptoparser.tls.subprotocol:'
EXT = 'cryptoparser.tls.extension:'
SSH = 'cryptoparser.ssh.subprotocol:'

# every FieldValueMultiple header value / TXT policy: (class, separator, a valid first component, a repeatable one)
MULTI = [
    (HDR + 'HttpHeaderFieldValueSTS', b';', b'max-age=1', b'includeSubDomains'),
    (HDR + 'HttpHeaderFieldValueExpectStaple', b';', b'max-age=1', b'preload'),
    (HDR + 'HttpHeaderFieldValueExpectCT', b',', b'max-age=1', b'enforce'),
    (HDR + 'HttpHeaderFieldValueContentType', b';', b'text/html', b'charset=utf-8'),
    (HDR + 'HttpHeaderFieldValuePublicKeyPinning', b';', b'max-age=1', b'pin-sha256="AAAA"'),
    (HDR + 'HttpHeaderFieldValueSetCookieParams', b';', b'Max-Age=1', b'Secure'),
    (HDR + 'HttpHeaderFieldValueXXSSProtection', b';', b'1', b'mode=block'),
    (HDR + 'HttpHeaderFieldValueCacheControlResponse', b',', b'max-age=1', b'no-cache'),
    (TXT + 'DnsRecordTxtValueDmarc', b';', b'v=DMARC1; p=none', b'pct=100'),
    (TXT + 'DnsRecordTxtValueMtaSts', b';', b'v=STSv1; id=1', b'x=y'),
    (TXT + 'DnsRecordTxtValueTlsRpt', b';', b'v=TLSRPTv1; rua=mailto:a@example.com', b'x=y'),
]


def _multi_shapes():
    out = []
    for path, sep, first, rep in MULTI:
        out.append((path, 'components', lambda n, f=first, s=sep, r=rep: f + b''.join(s + b' ' + r for _ in range(n)), None))
        out.append((path, 'unknown-components',
                    lambda n, f=first, s=sep: f + b''.join(s + b' x%d=y' % i for i in range(n)), None))
        out.append((path, 'repeated-separators', lambda n, f=first, s=sep: f + s * n, None))
        out.append((path, 'separator-space', lambda n, f=first, s=sep: f + (s + b' ') * n, None))
        out.append((path, 'spaces', lambda n, f=first, s=sep: f + b' ' * n + s, None))
        out.append((path, 'huge-component', lambda n, f=first, s=sep: f + s + b' x=' + b'a' * n, None))
        out.append((path, 'no-separator', lambda n: b'a' * n, None))
    return out


def _shapes():
    s = []
    # --- HTTP header block
    hf = HDR + 'HttpHeaderFields'
    s += [
        (hf, 'many-unparsed', lambda n: b''.join(b'X-H%d: v\r\n' % i for i in range(n)) + b'\r\n', None),
        (hf, 'many-server', lambda n: b'Server: nginx\r\n' * n + b'\r\n', None),
        (hf, 'many-sts', lambda n: b'Strict-Transport-Security: max-age=1; includeSubDomains\r\n' * n + b'\r\n', None),
        (hf, 'many-set-cookie', lambda n: b'Set-Cookie: a=b; Path=/; Secure\r\n' * n + b'\r\n', None),
        (hf, 'huge-value', lambda n: b'Server: ' + b'a' * n + b'\r\n\r\n', None),
        (hf, 'huge-unparsed-value', lambda n: b'X-Foo: ' + b'a' * n + b'\r\n\r\n', None),
        (hf, 'huge-name', lambda n: b'a' * n + b': v\r\n\r\n', None),
        (hf, 'no-crlf', lambda n: b'X-Foo: ' + b'a' * n, None),
        (hf, 'no-colon', lambda n: b'a' * n, None),
        (hf, 'only-crlf', lambda n: b'\r\n' * n, None),
        (hf, 'only-cr', lambda n: b'\r' * n, None),
        (hf, 'spaces-after-colon', lambda n: b'Server:' + b' ' * n + b'x\r\n\r\n', None),
        (hf, 'missing-final-crlf', lambda n: b'Server: nginx\r\n' * n, None),
    ]
    for name, value in (('HttpHeaderFieldSTS', b'Strict-Transport-Security: max-age=1'),
                        ('HttpHeaderFieldServer', b'Server: x'),
                        ('HttpHeaderFieldUnparsed', b'X-Foo: x'),
                        ('HttpHeaderFieldContentSecurityPolicy', b"Content-Security-Policy: default-src 'self'"),
                        ('HttpHeaderFieldSetCookie', b'Set-Cookie: a=b')):
        s.append((HDR + name, 'huge-tail', lambda n, v=value: v + b'a' * n + b'\r\n', None))
        s.append((HDR + name, 'no-line-end', lambda n, v=value: v + b'a' * n, None))
    s.append((HDR + 'HttpHeaderFieldParsedVariant', 'huge-unknown-name', lambda n: b'x' * n + b': v\r\n', None))
    s.append((HDR + 'HttpHeaderFieldValueSetCookie', 'many-params',
              lambda n: b'a=b' + b''.join(b'; x%d=y' % i for i in range(n)), None))
    s.append((HDR + 'HttpHeaderFieldValueSetCookie', 'huge-value', lambda n: b'a=' + b'b' * n + b'; Secure', None))
    s.append((HDR + 'HttpHeaderFieldValueSetCookie', 'no-equals', lambda n: b'a' * n, None))
    s.append((HDR + 'HttpHeaderFieldValueSetCookie', 'semicolons', lambda n: b'a=b' + b';' * n, None))
    s += _multi_shapes()
    csp = HDR + 'HttpHeaderFieldValueContentSecurityPolicy'
    s += [
        (csp, 'many-directives', lambda n: b'; '.join([b"default-src 'self'"] * n), None),
        (csp, 'many-sources', lambda n: b'default-src' + b" 'self'" * n, None),
        (csp, 'many-hosts', lambda n: b'script-src' + b''.join(b' https://h%d.example.com' % i for i in range(n)), None),
        (csp, 'huge-source', lambda n: b'default-src https://' + b'a' * n, None),
        (csp, 'semicolons', lambda n: b"default-src 'self'" + b';' * n, None),
        (csp, 'spaces', lambda n: b'default-src' + b' ' * n + b"'self'", None),
        (csp, 'unknown-directive', lambda n: b'x' * n + b" 'self'", None),
        (csp, 'many-report-uris', lambda n: b'report-uri' + b' /r' * n, None),
        (csp, 'many-sandbox', lambda n: b'sandbox' + b' allow-forms' * n, None),
    ]
    for name, value in (('HttpHeaderFieldValueETag', b'"'), ('HttpHeaderFieldValueServer', b''),
                        ('HttpHeaderFieldValueAge', b''), ('HttpHeaderFieldValueDate', b'Mon, 01 Jan 2024 '),
                        ('HttpHeaderFieldValuePragma', b'no-cache'), ('HttpHeaderFieldValueXFrameOptions', b'DENY'),
                        ('HttpHeaderFieldValueReferrerPolicy', b'origin'),
                        ('HttpHeaderFieldValueXContentTypeOptions', b'nosniff')):
        s.append((HDR + name, 'huge-text', lambda n, v=value: v + b'a' * n, None))
    s.append((HDR + 'HttpHeaderFieldValueAge', 'digits', lambda n: b'1' * n, 4000))
    s.append((HDR + 'HttpHeaderFieldValueNetworkErrorLogging', 'huge-json-string',
              lambda n: b'{"report_to":"' + b'a' * n + b'","max_age":1}', None))
    s.append((HDR + 'HttpHeaderFieldValueNetworkErrorLogging', 'many-json-keys',
              lambda n: b'{"report_to":"a","max_age":1' + b''.join(b',"k%d":1' % i for i in range(n)) + b'}', None))
    nel = HDR + 'HttpHeaderFieldValueNetworkErrorLogging'
    s += [
        (nel, 'nested-json-arrays', lambda n: b'{"report_to":' + b'[' * n + b']' * n + b',"max_age":1}', 6400),
        (nel, 'nested-json-objects', lambda n: b'{"a":' * n + b'1' + b'}' * n, 6400),
        (nel, 'unclosed-json-arrays', lambda n: b'[' * n, 6400),
        (hf, 'nel-nested-json-arrays', lambda n: b'NEL: ' + b'[' * (8 * n) + b']' * (8 * n) + b'\r\n\r\n', 800,
         {'blame': 'HttpHeaderFieldValueNetworkErrorLogging', 'scale': 4}),
    ]
    # --- TXT: SPF
    spf = TXT + 'DnsRecordTxtValueSpf'
    s += [
        (spf, 'many-ip4', lambda n: b'v=spf1' + b' ip4:192.0.2.1' * n + b' -all', None),
        (spf, 'many-include', lambda n: b'v=spf1' + b''.join(b' include:d%d.example.com' % i for i in range(n)), None),
        (spf, 'many-unknown-modifiers', lambda n: b'v=spf1' + b''.join(b' x%d=y' % i for i in range(n)), None),
        (spf, 'many-all', lambda n: b'v=spf1' + b' ~all' * n, None),
        (spf, 'many-a-mx', lambda n: b'v=spf1' + b' a mx' * n, None),
        (spf, 'huge-domain', lambda n: b'v=spf1 include:' + b'a' * n, None),
        (spf, 'huge-unknown-term', lambda n: b'v=spf1 x=' + b'a' * n, None),
        (spf, 'spaces', lambda n: b'v=spf1' + b' ' * n + b'-all', None),
        (spf, 'no-space', lambda n: b'v=spf1' + b'a' * n, None),
        (spf, 'not-spf', lambda n: b'a' * n, None),
    ]
    # --- TLS
    ch = TLS + 'TlsHandshakeClientHello'
    cap2 = 32000
    s += [
        (ch, 'many-cipher-suites', lambda n: client_hello(suites=b'\x00\x2f' * n), cap2),
        (ch, 'many-cipher-suites-last-member', lambda n: client_hello(suites=b'\xcc\xaa' * n), cap2),
        (ch, 'many-grease-suites', lambda n: client_hello(suites=b'\x0a\x0a' * n), cap2),
        (ch, 'many-unknown-suites', lambda n: client_hello(suites=b'\xfe\xdc' * n), cap2),
        (ch, 'many-scsv', lambda n: client_hello(suites=b'\x00\x2f' + b'\x56\x00' * n), cap2),
        (ch, 'many-compressions', lambda n: client_hello(comp=b'\x00' * n), 255),
        (ch, 'many-ems-extensions', lambda n: client_hello(exts=ext(23, b'') * n), 16000),
        (ch, 'many-unparsed-extensions', lambda n: client_hello(exts=ext(0xffaa, b'\x00') * n), 13000),
        (ch, 'many-grease-extensions', lambda n: client_hello(exts=ext(0x0a0a, b'') * n), 16000),
        (ch, 'many-sni-extensions', lambda n: client_hello(exts=ext(0, vec(2, b'\x00' + vec(2, b'a.example'))) * n), 3500),
        (ch, 'many-groups', lambda n: client_hello(exts=ext(10, vec(2, b'\x00\x1d' * n))), 32000),
        (ch, 'many-grease-groups', lambda n: client_hello(exts=ext(10, vec(2, b'\x1a\x1a' * n))), 32000),
        (ch, 'many-point-formats', lambda n: client_hello(exts=ext(11, vec(1, b'\x00' * n))), 255),
        (ch, 'many-sigalgs', lambda n: client_hello(exts=ext(13, vec(2, b'\x04\x03' * n))), 32000),
        (ch, 'many-versions', lambda n: client_hello(exts=ext(43, vec(1, b'\x03\x03' * n))), 127),
        (ch, 'many-alpn', lambda n: client_hello(exts=ext(16, vec(2, vec(1, b'h2') * n))), 21000),
        (ch, 'many-key-shares', lambda n: client_hello(exts=ext(51, vec(2, (b'\x00\x1d' + vec(2, bytes(32))) * n))), 1800),
        (ch, 'many-psk-modes', lambda n: client_hello(exts=ext(45, vec(1, b'\x01' * n))), 255),
        (ch, 'huge-sni', lambda n: client_hello(exts=ext(0, vec(2, b'\x00' + vec(2, b'a' * n)))), 65000),
        (ch, 'huge-padding', lambda n: client_hello(exts=ext(21, bytes(n))), 65000),
        (ch, 'huge-session-ticket', lambda n: client_hello(exts=ext(35, bytes(n))), 65000),
        (ch, 'huge-unparsed-extension', lambda n: client_hello(exts=ext(0xffaa, bytes(n))), 65000),
        (ch, 'trailing-bytes-in-payload', lambda n: hs(1, client_hello()[4:] + vec(2, ext(23, b'')) + bytes(n)), 16000000),
        (ch, 'truncated-cipher-suites', lambda n: client_hello(suites=b'\x00\x2f' * n)[:-(n + 3)], cap2),
        (ch, 'odd-cipher-suites', lambda n: client_hello(suites=b'\x00\x2f' * n + b'\x00'), cap2),
    ]
    sh = TLS + 'TlsHandshakeServerHello'
    s += [
        (sh, 'many-ems-extensions', lambda n: server_hello(exts=ext(23, b'') * n), 16000),
        (sh, 'many-unparsed-extensions', lambda n: server_hello(exts=ext(0xffaa, b'\x00') * n), 13000),
        (sh, 'huge-unparsed-extension', lambda n: server_hello(exts=ext(0xffaa, bytes(n))), 65000),
        (sh, 'many-alpn', lambda n: server_hello(exts=ext(16, vec(2, vec(1, b'h2') * n))), 21000),
    ]
    cert = TLS + 'TlsHandshakeCertificate'
    s += [
        (cert, 'many-certificates', lambda n: hs(11, vec(3, vec(3, b'\x30\x00') * n)), 3000000),
        (cert, 'many-empty-certificates', lambda n: hs(11, vec(3, vec(3, b'') * n)), 5000000),
        (cert, 'huge-certificate', lambda n: hs(11, vec(3, vec(3, bytes(n)))), 2 ** 24 - 10),
        (cert, 'truncated-many', lambda n: hs(11, vec(3, vec(3, b'\x30\x00') * n))[:-1], 3000000),
    ]
    s += [
        (TLS + 'TlsHandshakeMessageVariant', 'client-hello-many-suites', lambda n: client_hello(suites=b'\x00\x2f' * n), cap2),
        (TLS + 'TlsHandshakeMessageVariant', 'certificate-many', lambda n: hs(11, vec(3, vec(3, b'\x30\x00') * n)), 3000000),
        (TLS + 'TlsHandshakeMessageVariant', 'unknown-type-huge', lambda n: hs(99, bytes(n)), 16000000),
        (TLS + 'TlsHandshakeServerKeyExchange', 'huge-params', lambda n: hs(12, bytes(n)), 16000000),
        (TLS + 'TlsHandshakeCertificateStatus', 'huge-status', lambda n: hs(22, b'\x01' + vec(3, bytes(n))), 16000000),
        (TLS + 'TlsHandshakeCertificateRequest', 'many-names',
         lambda n: hs(13, vec(1, b'\x01') + vec(2, b'\x04\x03') + vec(2, vec(2, b'\x30\x00') * n)), 16000),
        (TLS + 'TlsHandshakeCertificateRequest', 'many-sigalgs',
         lambda n: hs(13, vec(1, b'\x01') + vec(2, b'\x04\x03' * n) + vec(2, b'')), 32000),
        (TLS + 'TlsHandshakeCertificateRequest', 'many-types',
         lambda n: hs(13, vec(1, b'\x01' * n) + vec(2, b'\x04\x03') + vec(2, b'')), 255),
        (TLS + 'TlsHandshakeCertificateRequest', 'huge-name',
         lambda n: hs(13, vec(1, b'\x01') + vec(2, b'\x04\x03') + vec(2, vec(2, bytes(n)))), 65000),
        (TLS + 'TlsApplicationDataMessage', 'huge', lambda n: bytes(n), None),
        ('cryptoparser.tls.record:TlsRecord', 'huge-fragment', lambda n: b'\x17\x03\x03' + vec(2, bytes(n)), 65535),
        ('cryptoparser.tls.record:TlsRecord', 'trailing', lambda n: b'\x17\x03\x03' + vec(2, b'x') + bytes(n), None),
        ('cryptoparser.tls.record:SslRecord', 'huge-client-hello',
         lambda n: u(0x8000 | (25 + 3 * n), 2) + b'\x01\x00\x02' + u(3 * n, 2) + u(0, 2) + u(16, 2) + b'\x01\x00\x80' * n +
         bytes(16), 10000),
        (TLS + 'SslHandshakeClientHello', 'many-cipher-kinds',
         lambda n: b'\x00\x02' + u(3 * n, 2) + u(0, 2) + u(16, 2) + b'\x01\x00\x80' * n + bytes(16), 20000),
        (TLS + 'SslHandshakeServerHello', 'huge-certificate',
         lambda n: b'\x00\x01\x00\x02' + u(n, 2) + u(3, 2) + u(16, 2) + bytes(n) + b'\x01\x00\x80' + bytes(16), 65000),
        (TLS + 'SslHandshakeServerHello', 'many-cipher-kinds',
         lambda n: b'\x00\x01\x00\x02' + u(0, 2) + u(3 * n, 2) + u(16, 2) + b'\x01\x00\x80' * n + bytes(16), 20000),
        (EXT + 'TlsExtensionsClient', 'many-ems', lambda n: vec(2, ext(23, b'') * n), 16000),
        (EXT + 'TlsExtensionEllipticCurves', 'many-groups', lambda n: ext(10, vec(2, b'\x00\x1d' * n)), 32000),
        (EXT + 'TlsExtensionApplicationLayerProtocolNegotiation', 'many-names', lambda n: ext(16, vec(2, vec(1, b'h2') * n)), 21000),
        (EXT + 'TlsExtensionApplicationLayerProtocolNegotiation', 'many-unknown-names',
         lambda n: ext(16, vec(2, vec(1, b'zz') * n)), 21000),
        (EXT + 'TlsExtensionKeyShareClient', 'many-entries', lambda n: ext(51, vec(2, (b'\x00\x1d' + vec(2, bytes(32))) * n)), 1800),
        (EXT + 'TlsExtensionKeyShareClient', 'huge-entry', lambda n: ext(51, vec(2, b'\x00\x1d' + vec(2, bytes(n)))), 65000),
        (EXT + 'TlsExtensionServerNameClient', 'huge-name', lambda n: ext(0, vec(2, b'\x00' + vec(2, b'a' * n))), 65000),
        (EXT + 'TlsExtensionCertificateStatusRequestClient', 'many-responders',
         lambda n: ext(5, b'\x01' + vec(2, vec(2, b'x') * n) + vec(2, b'')), 21000),
        (EXT + 'TlsExtensionSignedCertificateTimestampServer', 'many-scts',
         lambda n: ext(18, vec(2, vec(2, b'\x00' + bytes(32) + u(0, 8) + vec(2, b'') + b'\x04\x03' + vec(2, b'ab')) * n)), 1200),
        (EXT + 'TlsExtensionUnparsed', 'huge', lambda n: ext(0xffaa, bytes(n)), 65535),
        (EXT + 'TlsExtensionVariantClient', 'huge-unparsed', lambda n: ext(0xffaa, bytes(n)), 65535),
        (EXT + 'TlsExtensionTokenBinding', 'many-parameters', lambda n: ext(24, b'\x01\x00' + vec(1, b'\x02' * n)), 255),
    ]
    # --- SSH
    ki = SSH + 'SshKeyExchangeInit'
    s += [
        (ki, 'many-kex-names', lambda n: kex_with(0, b','.join([b'curve25519-sha256'] * n)), None),
        (ki, 'many-unknown-names', lambda n: kex_with(0, b','.join(b'alg%d@example.com' % i for i in range(n))), None),
        (ki, 'many-mac-names', lambda n: kex_with(4, b','.join([b'hmac-sha2-256'] * n)), None),
        (ki, 'many-languages', lambda n: kex_with(8, b','.join([b'en-US'] * n)), None),
        (ki, 'huge-name', lambda n: kex_with(0, b'a' * n), None),
        (ki, 'commas', lambda n: kex_with(0, b'a' + b',' * n), None),
        (ki, 'huge-language', lambda n: kex_with(9, b'a' * n), None),
    ]
    s += [
        ('cryptoparser.ssh.record:SshRecordInit', 'kexinit-many-names',
         lambda n: ssh_record(kex_with(0, b','.join([b'curve25519-sha256'] * n))), None),
        ('cryptoparser.ssh.record:SshRecordInit', 'huge-padding', lambda n: ssh_record(kexinit(KEX_DEFAULT), pad=n), 255),
        ('cryptoparser.ssh.record:SshRecordInit', 'trailing', lambda n: ssh_record(kexinit(KEX_DEFAULT)) + bytes(n), None),
        (SSH + 'SshProtocolMessage', 'no-line-end', lambda n: b'SSH-2.0-' + b'a' * n, None),
        (SSH + 'SshProtocolMessage', 'huge-software', lambda n: b'SSH-2.0-' + b'a' * n + b'\r\n', None),
        (SSH + 'SshProtocolMessage', 'huge-comment', lambda n: b'SSH-2.0-OpenSSH_8.9 ' + b'a' * n + b'\r\n', None),
        (SSH + 'SshProtocolMessage', 'many-comment-words', lambda n: b'SSH-2.0-OpenSSH_8.9' + b' a' * n + b'\r\n', None),
        (SSH + 'SshProtocolMessage', 'openssh-huge-version', lambda n: b'SSH-2.0-OpenSSH_' + b'9' * n + b'\r\n', None),
        (SSH + 'SshDisconnectMessage', 'huge-description',
         lambda n: b'\x01' + u(2, 4) + ssh_string(b'a' * n) + ssh_string(b'en'), None),
        (SSH + 'SshDHKeyExchangeInit', 'huge-ephemeral', lambda n: b'\x1e' + ssh_string(bytes([1]) * n), None),
        (SSH + 'SshDHGroupExchangeGroup', 'huge-p', lambda n: b'\x1f' + ssh_string(b'\x01' * n) + ssh_string(b'\x02'), None),
        (SSH + 'SshDHKeyExchangeReply', 'huge-signature',
         lambda n: b'\x1f' + ssh_string(ssh_string(b'ssh-ed25519') + ssh_string(bytes(32))) + ssh_string(b'\x01' * 32) +
         ssh_string(ssh_string(b'ssh-ed25519') + ssh_string(bytes(n))), None),
        ('cryptoparser.ssh.key:SshHostKeyRSA', 'huge-modulus',
         lambda n: ssh_string(b'ssh-rsa') + ssh_string(b'\x01\x00\x01') + ssh_string(b'\x01' * n), None),
        ('cryptoparser.ssh.key:SshHostPublicKeyVariant', 'huge-rsa-modulus',
         lambda n: ssh_string(b'ssh-rsa') + ssh_string(b'\x01\x00\x01') + ssh_string(b'\x01' * n), None),
        ('cryptoparser.ssh.key:SshHostPublicKeyVariant', 'huge-unknown-type', lambda n: ssh_string(b'a' * n), None),
    ]
    # --- DNS
    dr = 'cryptoparser.dnsrec.record:'
    s += [
        (dr + 'DnsRecordTxt', 'many-strings', lambda n: vec(1, b'ab') * n, None),
        (dr + 'DnsRecordTxt', 'many-empty-strings', lambda n: b'\x00' * n, None),
        (dr + 'DnsRecordTxt', 'many-full-strings', lambda n: vec(1, b'a' * 255) * n, None),
        (dr + 'DnsNameUncompressed', 'many-labels', lambda n: dns_name([b'a'] * n), None),
        (dr + 'DnsNameUncompressed', 'no-terminator', lambda n: vec(1, b'ab') * n, None),
        (dr + 'DnsRecordMx', 'many-labels', lambda n: u(10, 2) + dns_name([b'mx'] * n), None),
        (dr + 'DnsRecordRrsig', 'many-labels', lambda n: rrsig(bytes(64), labels=[b'a'] * n), None),
        (dr + 'DnsRecordRrsig', 'huge-signature', lambda n: rrsig(bytes(n)), None),
        (dr + 'DnsRecordDnskey', 'huge-rsa-key', lambda n: u(257, 2) + b'\x03\x08' + b'\x03\x01\x00\x01' + b'\x01' * n, None),
        (dr + 'DnsRecordDnskey', 'huge-rsa-exponent',
         lambda n: u(257, 2) + b'\x03\x08' + b'\x00' + u(n, 2) + b'\x01' * n + b'\x01' * 64, 65000),
        (dr + 'DnsRecordDnskey', 'huge-unknown-algorithm', lambda n: u(257, 2) + b'\x03\xfd' + b'\x01' * n, None),
        (dr + 'DnsRecordDs', 'huge-digest', lambda n: u(1, 2) + b'\x08\x02' + bytes(n), None),
    ]
    # --- other record layers
    s += [
        ('cryptoparser.tls.mysql:MySQLRecord', 'huge-payload', lambda n: n.to_bytes(3, 'little') + b'\x00' + bytes(n), 2 ** 24 - 1),
        ('cryptoparser.tls.mysql:MySQLHandshakeV10', 'huge-version',
         lambda n: b'\x0a' + b'8' * n + b'\x00' + u(1, 4) + b'abcdefgh\x00' + b'\xff\xff' + b'\x21' + b'\x02\x00' + b'\xff\xff' +
         b'\x15' + bytes(10) + b'abcdefghijkl\x00' + b'mysql_native_password\x00', None),
        ('cryptoparser.tls.mysql:MySQLHandshakeV10', 'huge-plugin-name',
         lambda n: b'\x0a' + b'8.0\x00' + u(1, 4) + b'abcdefgh\x00' + b'\xff\xff' + b'\x21' + b'\x02\x00' + b'\xff\xff' +
         b'\x15' + bytes(10) + b'abcdefghijkl\x00' + b'p' * n + b'\x00', None),
        ('cryptoparser.tls.mysql:MySQLHandshakeV10', 'no-nul', lambda n: b'\x0a' + b'8' * n, None),
        ('cryptoparser.tls.rdp:TPKT', 'huge-payload', lambda n: b'\x03\x00' + u(n + 4, 2) + bytes(n), 65531),
        ('cryptoparser.tls.rdp:TPKT', 'trailing', lambda n: b'\x03\x00' + u(5, 2) + bytes(n), None),
        ('cryptoparser.tls.rdp:COTPConnectionRequest', 'huge-user-data',
         lambda n: u(6 + n, 1) + b'\xe0' + u(0, 2) + u(0, 2) + b'\x00' + bytes(n), 249),
        ('cryptoparser.tls.rdp:COTPConnectionRequest', 'trailing', lambda n: u(6, 1) + b'\xe0' + u(0, 2) + u(0, 2) + b'\x00' + bytes(n), None),
        ('cryptoparser.tls.openvpn:OpenVpnPacketWrapperTcp', 'huge-payload', lambda n: vec(2, bytes(n)), 65535),
        ('cryptoparser.tls.openvpn:OpenVpnPacketControlV1', 'huge-payload',
         lambda n: b'\x20' + bytes(8) + b'\x00' + u(1, 4) + bytes(n), None),
        ('cryptoparser.tls.openvpn:OpenVpnPacketControlV1', 'many-acks',
         lambda n: b'\x20' + bytes(8) + u(n, 1) + u(7, 4) * n + bytes(8) + u(1, 4) + b'x', 255),
        ('cryptoparser.tls.openvpn:OpenVpnPacketAckV1', 'many-acks', lambda n: b'\x28' + bytes(8) + u(n, 1) + u(7, 4) * n + bytes(8), 255),
        ('cryptoparser.tls.openvpn:OpenVpnPacketVariant', 'control-huge-payload',
         lambda n: b'\x20' + bytes(8) + b'\x00' + u(1, 4) + bytes(n), None),
        ('cryptoparser.tls.ldap:LDAPExtendedResponseStartTLS', 'trailing',
         lambda n: bytes.fromhex('300c02010178070a010004000400') + bytes(n), None),
        ('cryptoparser.tls.ldap:LDAPExtendedRequestStartTLS', 'trailing',
         lambda n: bytes.fromhex('301d02010177188016312e332e362e312e342e312e313436362e3230303337') + bytes(n), None),
        ('cryptoparser.tls.ldap:LDAPExtendedResponseStartTLS', 'many-controls',
         lambda n: ldap_response(controls=der(0x30, der(0x04, b'1.2.3')) * n), None),
        ('cryptoparser.tls.ldap:LDAPExtendedResponseStartTLS', 'many-referrals',
         lambda n: ldap_response(referrals=der(0x04, b'ldap://a.example') * n), None),
        ('cryptoparser.tls.ldap:LDAPExtendedResponseStartTLS', 'huge-diagnostic',
         lambda n: der(0x30, der(0x02, b'\x01') + der(0x78, der(0x0a, b'\x00') + der(0x04, b'') + der(0x04, b'a' * n))), None),
        ('cryptoparser.tls.postgresql:SslRequest', 'trailing', lambda n: u(8, 4) + u(80877103, 4) + bytes(n), None),
        ('cryptoparser.tls.postgresql:Sync', 'trailing', lambda n: b'S' + u(4, 4) + bytes(n), None),
        ('cryptoparser.common.x509:SignedCertificateTimestampList', 'many-scts',
         lambda n: vec(2, vec(2, b'\x00' + bytes(32) + u(0, 8) + vec(2, b'') + b'\x04\x03' + vec(2, b'ab')) * n), 1200),
        ('cryptoparser.common.x509:SignedCertificateTimestamp', 'huge-extensions',
         lambda n: vec(2, b'\x00' + bytes(32) + u(0, 8) + vec(2, bytes(n)) + b'\x04\x03' + vec(2, b'ab')), 65000),
    ]
    return s


SHAPES = None


def shapes():
    global SHAPES  # pylint: disable=global-statement
    if SHAPES is None:
        SHAPES = _shapes()
    return SHAPES


# ------------------------------------------------------------------------------------------------
# maximal declared lengths / counts with little data: (class path, field, bytes)
# ------------------------------------------------------------------------------------------------

def _declared():
    """(class path, field, width of the field in bytes, maximal value, builder(v) -> bytes): the builder puts `v` into
    the length/count field and a few bytes behind it; every input is shorter than 200 bytes."""
    ch_prefix = b'\x03\x03' + RANDOM32
    ch_mid = ch_prefix + b'\x00' + vec(2, b'\x00\x2f') + vec(1, b'\x00')
    rr = u(48, 2) + u(8, 1) + u(2, 1) + u(3600, 4) + u(1700000000, 4) + u(1690000000, 4) + u(1, 2)
    my = b'\x0a' + b'8.0\x00' + u(1, 4) + b'abcdefgh\x00' + b'\xff\xff' + b'\x21' + b'\x02\x00' + b'\xff\xff'
    ovpn = lambda op: (lambda v: u(op << 3, 1) + bytes(8) + u(v, 1) + u(7, 4) * 2)   # noqa: E731
    d = [
        ('cryptoparser.tls.record:TlsRecord', 'length', 2, 0xffff, lambda v: b'\x16\x03\x03' + u(v, 2) + b'abc'),
        ('cryptoparser.tls.record:SslRecord', 'length-2byte', 2, 0x7fff, lambda v: u(0x8000 | v, 2) + b'\x01\x00\x02'),
        ('cryptoparser.tls.record:SslRecord', 'length-3byte', 2, 0x3fff, lambda v: u(v, 2) + b'\xff\x01\x00\x02'),
        (TLS + 'TlsHandshakeClientHello', 'handshake-length', 3, 0xffffff, lambda v: b'\x01' + u(v, 3) + b'\x03\x03'),
        (TLS + 'TlsHandshakeClientHello', 'session-id-length', 1, 0xff, lambda v: hs(1, ch_prefix + u(v, 1) + b'ab')),
        (TLS + 'TlsHandshakeClientHello', 'cipher-suites-length', 2, 0xfffe,
         lambda v: hs(1, ch_prefix + b'\x00' + u(v, 2) + b'\x00\x2f')),
        (TLS + 'TlsHandshakeClientHello', 'compression-length', 1, 0xff,
         lambda v: hs(1, ch_prefix + b'\x00' + vec(2, b'\x00\x2f') + u(v, 1) + b'\x00')),
        (TLS + 'TlsHandshakeClientHello', 'extensions-length', 2, 0xffff, lambda v: hs(1, ch_mid + u(v, 2) + ext(23, b''))),
        (TLS + 'TlsHandshakeClientHello', 'extension-data-length', 2, 0xffff,
         lambda v: hs(1, ch_mid + vec(2, b'\x00\x17' + u(v, 2) + b'ab'))),
        (TLS + 'TlsHandshakeClientHello', 'unparsed-extension-data-length', 2, 0xffff,
         lambda v: hs(1, ch_mid + vec(2, b'\xff\xaa' + u(v, 2) + b'ab'))),
        (TLS + 'TlsHandshakeClientHello', 'groups-length', 2, 0xfffe,
         lambda v: hs(1, ch_mid + vec(2, ext(10, u(v, 2) + b'\x00\x1d')))),
        (TLS + 'TlsHandshakeClientHello', 'sigalgs-length', 2, 0xfffe,
         lambda v: hs(1, ch_mid + vec(2, ext(13, u(v, 2) + b'\x04\x03')))),
        (TLS + 'TlsHandshakeClientHello', 'sni-list-length', 2, 0xffff,
         lambda v: hs(1, ch_mid + vec(2, ext(0, u(v, 2) + b'\x00' + vec(2, b'a'))))),
        (TLS + 'TlsHandshakeClientHello', 'sni-name-length', 2, 0xffff,
         lambda v: hs(1, ch_mid + vec(2, ext(0, vec(2, b'\x00' + u(v, 2) + b'a'))))),
        (TLS + 'TlsHandshakeClientHello', 'alpn-list-length', 2, 0xffff,
         lambda v: hs(1, ch_mid + vec(2, ext(16, u(v, 2) + vec(1, b'h2'))))),
        (TLS + 'TlsHandshakeClientHello', 'alpn-name-length', 1, 0xff,
         lambda v: hs(1, ch_mid + vec(2, ext(16, vec(2, u(v, 1) + b'h2'))))),
        (TLS + 'TlsHandshakeClientHello', 'key-share-list-length', 2, 0xffff,
         lambda v: hs(1, ch_mid + vec(2, ext(51, u(v, 2) + b'\x00\x1d' + vec(2, b'ab'))))),
        (TLS + 'TlsHandshakeClientHello', 'key-share-entry-length', 2, 0xffff,
         lambda v: hs(1, ch_mid + vec(2, ext(51, vec(2, b'\x00\x1d' + u(v, 2) + b'ab'))))),
        (TLS + 'TlsHandshakeClientHello', 'versions-length', 1, 0xfe,
         lambda v: hs(1, ch_mid + vec(2, ext(43, u(v, 1) + b'\x03\x03')))),
        (TLS + 'TlsHandshakeServerHello', 'extensions-length', 2, 0xffff,
         lambda v: hs(2, ch_prefix + b'\x00' + b'\x00\x2f' + b'\x00' + u(v, 2) + ext(23, b''))),
        (TLS + 'TlsHandshakeCertificate', 'handshake-length', 3, 0xffffff, lambda v: b'\x0b' + u(v, 3) + b'ab'),
        (TLS + 'TlsHandshakeCertificate', 'list-length', 3, 0xffffff, lambda v: hs(11, u(v, 3) + vec(3, b'ab'))),
        (TLS + 'TlsHandshakeCertificate', 'certificate-length', 3, 0xffffff, lambda v: hs(11, vec(3, u(v, 3) + b'ab'))),
        (TLS + 'TlsHandshakeCertificateStatus', 'status-length', 3, 0xffffff, lambda v: hs(22, b'\x01' + u(v, 3) + b'ab')),
        (TLS + 'TlsHandshakeCertificateRequest', 'types-length', 1, 0xff, lambda v: hs(13, u(v, 1) + b'\x01')),
        (TLS + 'TlsHandshakeCertificateRequest', 'sigalgs-length', 2, 0xfffe, lambda v: hs(13, vec(1, b'\x01') + u(v, 2) + b'\x04\x03')),
        (TLS + 'TlsHandshakeCertificateRequest', 'names-length', 2, 0xffff,
         lambda v: hs(13, vec(1, b'\x01') + vec(2, b'\x04\x03') + u(v, 2) + b'ab')),
        (TLS + 'TlsHandshakeCertificateRequest', 'name-length', 2, 0xffff,
         lambda v: hs(13, vec(1, b'\x01') + vec(2, b'\x04\x03') + vec(2, u(v, 2) + b'ab'))),
        (TLS + 'TlsHandshakeServerKeyExchange', 'handshake-length', 3, 0xffffff, lambda v: b'\x0c' + u(v, 3) + b'ab'),
        (TLS + 'TlsHandshakeMessageVariant', 'handshake-length', 3, 0xffffff, lambda v: b'\x02' + u(v, 3) + b'\x03\x03'),
        (TLS + 'SslHandshakeClientHello', 'cipher-kinds-length', 2, 0xffff,
         lambda v: b'\x00\x02' + u(v, 2) + u(0, 2) + u(16, 2) + b'\x01\x00\x80'),
        (TLS + 'SslHandshakeClientHello', 'session-id-length', 2, 0xffff,
         lambda v: b'\x00\x02' + u(3, 2) + u(v, 2) + u(16, 2) + b'\x01\x00\x80'),
        (TLS + 'SslHandshakeClientHello', 'challenge-length', 2, 0xffff,
         lambda v: b'\x00\x02' + u(3, 2) + u(0, 2) + u(v, 2) + b'\x01\x00\x80'),
        (TLS + 'SslHandshakeServerHello', 'certificate-length', 2, 0xffff,
         lambda v: b'\x00\x01\x00\x02' + u(v, 2) + u(3, 2) + u(16, 2) + b'ab'),
        (TLS + 'SslHandshakeServerHello', 'cipher-kinds-length', 2, 0xffff,
         lambda v: b'\x00\x01\x00\x02' + u(0, 2) + u(v, 2) + u(16, 2) + b'\x01\x00\x80'),
        (TLS + 'SslHandshakeServerHello', 'connection-id-length', 2, 0xffff,
         lambda v: b'\x00\x01\x00\x02' + u(0, 2) + u(3, 2) + u(v, 2) + b'\x01\x00\x80'),
        (EXT + 'TlsExtensionsClient', 'length', 2, 0xffff, lambda v: u(v, 2) + ext(23, b'')),
        (EXT + 'TlsExtensionsServer', 'length', 2, 0xffff, lambda v: u(v, 2) + ext(23, b'')),
        (EXT + 'TlsExtensionUnparsed', 'length', 2, 0xffff, lambda v: b'\xff\xaa' + u(v, 2) + b'ab'),
        (EXT + 'TlsExtensionEllipticCurves', 'vector-length', 2, 0xfffe, lambda v: ext(10, u(v, 2) + b'\x00\x1d')),
        (EXT + 'TlsExtensionECPointFormats', 'vector-length', 1, 0xff, lambda v: ext(11, u(v, 1) + b'\x00')),
        (EXT + 'TlsExtensionSignatureAlgorithms', 'vector-length', 2, 0xfffe, lambda v: ext(13, u(v, 2) + b'\x04\x03')),
        (EXT + 'TlsExtensionSupportedVersionsClient', 'vector-length', 1, 0xfe, lambda v: ext(43, u(v, 1) + b'\x03\x03')),
        (EXT + 'TlsExtensionKeyShareClient', 'entry-length', 2, 0xffff, lambda v: ext(51, vec(2, b'\x00\x1d' + u(v, 2) + b'ab'))),
        (EXT + 'TlsExtensionKeyShareServer', 'entry-length', 2, 0xffff, lambda v: ext(51, b'\x00\x1d' + u(v, 2) + b'ab')),
        (EXT + 'TlsExtensionSessionTicket', 'length', 2, 0xffff, lambda v: b'\x00\x23' + u(v, 2) + b'ab'),
        (EXT + 'TlsExtensionPadding', 'length', 2, 0xffff, lambda v: b'\x00\x15' + u(v, 2) + b'\x00\x00'),
        (EXT + 'TlsExtensionRenegotiationInfo', 'opaque-length', 1, 0xff, lambda v: ext(0xff01, u(v, 1) + b'ab')),
        (EXT + 'TlsExtensionApplicationLayerProtocolNegotiation', 'name-length', 1, 0xff, lambda v: ext(16, vec(2, u(v, 1) + b'h2'))),
        (EXT + 'TlsExtensionCertificateStatusRequestClient', 'responder-list-length', 2, 0xffff,
         lambda v: ext(5, b'\x01' + u(v, 2) + b'ab')),
        (EXT + 'TlsExtensionSignedCertificateTimestampServer', 'list-length', 2, 0xffff, lambda v: ext(18, u(v, 2) + b'\x00\x01')),
        (EXT + 'TlsExtensionTokenBinding', 'parameters-length', 1, 0xff, lambda v: ext(24, b'\x01\x00' + u(v, 1) + b'\x02')),
        ('cryptoparser.common.x509:SignedCertificateTimestampList', 'length', 2, 0xffff, lambda v: u(v, 2) + b'\x00\x01'),
        ('cryptoparser.common.x509:SignedCertificateTimestamp', 'length', 2, 0xffff, lambda v: u(v, 2) + b'\x00' + bytes(32)),
        ('cryptoparser.common.x509:SignedCertificateTimestamp', 'extensions-length', 2, 0xffff,
         lambda v: vec(2, b'\x00' + bytes(32) + u(0, 8) + u(v, 2) + b'ab')),
        ('cryptoparser.ssh.record:SshRecordInit', 'packet-length', 4, 0xffffffff, lambda v: u(v, 4) + b'\x04\x14' + b'ab'),
        ('cryptoparser.ssh.record:SshRecordInit', 'padding-length', 1, 0xff,
         lambda v: u(12, 4) + u(v, 1) + b'\x15' + bytes(10)),
        ('cryptoparser.ssh.record:SshRecordKexDH', 'packet-length', 4, 0xffffffff, lambda v: u(v, 4) + b'\x04\x1e' + b'ab'),
        ('cryptoparser.ssh.record:SshRecordKexDHGroup', 'packet-length', 4, 0xffffffff, lambda v: u(v, 4) + b'\x04\x1f' + b'ab'),
        (SSH + 'SshKeyExchangeInit', 'name-list-length', 4, 0xffffffff, lambda v: b'\x14' + bytes(16) + u(v, 4) + b'ab'),
        (SSH + 'SshKeyExchangeInit', 'last-name-list-length', 4, 0xffffffff,
         lambda v: b'\x14' + bytes(16) + b''.join(ssh_string(x) for x in KEX_DEFAULT[:9]) + u(v, 4) + b'ab'),
        (SSH + 'SshDHKeyExchangeInit', 'mpint-length', 4, 0xffffffff, lambda v: b'\x1e' + u(v, 4) + b'ab'),
        (SSH + 'SshDHGroupExchangeGroup', 'mpint-length', 4, 0xffffffff, lambda v: b'\x1f' + u(v, 4) + b'ab'),
        (SSH + 'SshDHGroupExchangeGroup', 'mpint-length-positive', 4, 0x7fffffff, lambda v: b'\x1f' + u(v, 4) + b'ab'),
        (SSH + 'SshDHGroupExchangeGroup', 'second-mpint-length', 4, 0xffffffff,
         lambda v: b'\x1f' + ssh_string(b'\x01\x02') + u(v, 4) + b'ab'),
        (SSH + 'SshDHKeyExchangeReply', 'host-key-length', 4, 0xffffffff, lambda v: b'\x1f' + u(v, 4) + b'ab'),
        (SSH + 'SshDHKeyExchangeReply', 'inner-key-length', 4, 0xffffffff,
         lambda v: b'\x1f' + ssh_string(ssh_string(b'ssh-rsa') + u(v, 4) + b'ab')),
        (SSH + 'SshDHKeyExchangeReply', 'signature-length', 4, 0xffffffff,
         lambda v: b'\x1f' + ssh_string(ssh_string(b'ssh-ed25519') + ssh_string(bytes(32))) + ssh_string(b'\x01') + u(v, 4) + b'ab'),
        (SSH + 'SshDisconnectMessage', 'description-length', 4, 0xffffffff, lambda v: b'\x01' + u(2, 4) + u(v, 4) + b'ab'),
        ('cryptoparser.ssh.key:SshHostKeyRSA', 'mpint-length', 4, 0xffffffff, lambda v: ssh_string(b'ssh-rsa') + u(v, 4) + b'ab'),
        ('cryptoparser.ssh.key:SshHostKeyRSA', 'type-length', 4, 0xffffffff, lambda v: u(v, 4) + b'ssh-rsa'),
        ('cryptoparser.ssh.key:SshHostKeyDSS', 'mpint-length', 4, 0xffffffff, lambda v: ssh_string(b'ssh-dss') + u(v, 4) + b'ab'),
        ('cryptoparser.ssh.key:SshHostKeyECDSA', 'point-length', 4, 0xffffffff,
         lambda v: ssh_string(b'ecdsa-sha2-nistp256') + ssh_string(b'nistp256') + u(v, 4) + b'ab'),
        ('cryptoparser.ssh.key:SshHostKeyEDDSA', 'key-length', 4, 0xffffffff, lambda v: ssh_string(b'ssh-ed25519') + u(v, 4) + b'ab'),
        ('cryptoparser.ssh.key:SshHostPublicKeyVariant', 'type-length', 4, 0xffffffff, lambda v: u(v, 4) + b'ssh-rsa'),
        ('cryptoparser.ssh.key:SshHostPublicKeyVariant', 'rsa-mpint-length', 4, 0xffffffff,
         lambda v: ssh_string(b'ssh-rsa') + u(v, 4) + b'ab'),
        ('cryptoparser.ssh.key:SshX509CertificateChain', 'certificate-count', 4, 0xffffffff,
         lambda v: ssh_string(b'x509v3-ssh-rsa') + u(v, 4) + b'\x00\x00\x00\x00' * 4),
        ('cryptoparser.ssh.key:SshX509CertificateChain', 'certificate-length', 4, 0xffffffff,
         lambda v: ssh_string(b'x509v3-ssh-rsa') + u(1, 4) + u(v, 4) + b'ab'),
        ('cryptoparser.dnsrec.record:DnsRecordTxt', 'string-length', 1, 0xff, lambda v: u(v, 1) + b'ab'),
        ('cryptoparser.dnsrec.record:DnsNameUncompressed', 'label-length', 1, 0xff, lambda v: u(v, 1) + b'ab'),
        ('cryptoparser.dnsrec.record:DnsRecordMx', 'label-length', 1, 0xff, lambda v: u(10, 2) + u(v, 1) + b'ab'),
        ('cryptoparser.dnsrec.record:DnsRecordDnskey', 'rsa-exponent-length', 2, 0xffff,
         lambda v: u(257, 2) + b'\x03\x08' + b'\x00' + u(v, 2) + b'ab'),
        ('cryptoparser.dnsrec.record:DnsRecordDnskey', 'rsa-exponent-length-1byte', 1, 0xff,
         lambda v: u(257, 2) + b'\x03\x08' + u(v, 1) + b'ab'),
        ('cryptoparser.dnsrec.record:DnsRecordRrsig', 'label-length', 1, 0xff, lambda v: rr + u(v, 1) + b'abcdefghij'),
        ('cryptoparser.tls.mysql:MySQLRecord', 'packet-length', 3, 0xffffff, lambda v: v.to_bytes(3, 'little') + b'\x00' + b'ab'),
        ('cryptoparser.tls.mysql:MySQLHandshakeV10', 'auth-plugin-data-length', 1, 0xff,
         lambda v: my + u(v, 1) + bytes(10) + b'ab'),
        ('cryptoparser.tls.rdp:TPKT', 'packet-length', 2, 0xffff, lambda v: b'\x03\x00' + u(v, 2) + b'ab'),
        ('cryptoparser.tls.rdp:COTPConnectionRequest', 'length-indicator', 1, 0xff, lambda v: u(v, 1) + b'\xe0' + bytes(5) + b'ab'),
        ('cryptoparser.tls.rdp:COTPConnectionConfirm', 'length-indicator', 1, 0xff, lambda v: u(v, 1) + b'\xd0' + bytes(5) + b'ab'),
        ('cryptoparser.tls.rdp:RDPNegotiationRequest', 'length', 2, 0xffff, lambda v: b'\x01\x00' + v.to_bytes(2, 'little') + bytes(4)),
        ('cryptoparser.tls.rdp:RDPNegotiationResponse', 'length', 2, 0xffff, lambda v: b'\x02\x00' + v.to_bytes(2, 'little') + bytes(4)),
        ('cryptoparser.tls.openvpn:OpenVpnPacketWrapperTcp', 'length', 2, 0xffff, lambda v: u(v, 2) + b'ab'),
        ('cryptoparser.tls.openvpn:OpenVpnPacketControlV1', 'packet-id-array-length', 1, 0xff, ovpn(4)),
        ('cryptoparser.tls.openvpn:OpenVpnPacketAckV1', 'packet-id-array-length', 1, 0xff, ovpn(5)),
        ('cryptoparser.tls.openvpn:OpenVpnPacketHardResetClientV2', 'packet-id-array-length', 1, 0xff, ovpn(7)),
        ('cryptoparser.tls.openvpn:OpenVpnPacketHardResetServerV2', 'packet-id-array-length', 1, 0xff, ovpn(8)),
        ('cryptoparser.tls.openvpn:OpenVpnPacketVariant', 'packet-id-array-length', 1, 0xff, ovpn(4)),
        ('cryptoparser.tls.ldap:LDAPExtendedResponseStartTLS', 'asn1-length', 4, 0xffffffff,
         lambda v: b'\x30\x84' + u(v, 4) + b'\x02\x01\x01'),
        ('cryptoparser.tls.ldap:LDAPExtendedRequestStartTLS', 'asn1-length', 4, 0xffffffff,
         lambda v: b'\x30\x84' + u(v, 4) + b'\x02\x01\x01'),
        ('cryptoparser.tls.postgresql:SslRequest', 'length', 4, 0xffffffff, lambda v: u(v, 4) + u(80877103, 4)),
        ('cryptoparser.tls.postgresql:Sync', 'length', 4, 0xffffffff, lambda v: b'S' + u(v, 4)),
    ]
    # count-driven loops that are only reached behind a VALID certificate (the one input here longer than 200 bytes)
    der = _test_certificate_der()
    if der is not None:
        alg = vec(4, b'x509v3-ssh-rsa')
        d.append(('cryptoparser.ssh.key:SshX509CertificateChain', 'ocsp-response-count', 4, 0xffffffff,
                  lambda v: alg + u(1, 4) + vec(4, der) + u(v, 4) + vec(4, b'ab')))
        d.append(('cryptoparser.ssh.key:SshX509CertificateChain', 'certificate-count', 4, 0xffffffff,
                  lambda v: alg + u(v, 4) + vec(4, der) + u(0, 4)))
    return d


def _test_certificate_der():
    try:
        import asn1crypto.pem
        with open(os.path.join(core.REPO, 'test', 'common', 'certs', 'snakeoil_cert.pem'), 'rb') as f:
            return asn1crypto.pem.unarmor(f.read())[2]
    except Exception:  # pylint: disable=broad-except
        return None


DECLARED_SMALL = 100     # the twin of every maximal declaration: a value just beyond the bytes present


# ------------------------------------------------------------------------------------------------
# series: calibration, measurement, verdict
# ------------------------------------------------------------------------------------------------

SCALE = [1]                 # 4 in the thorough tier


def _calibrate(cls, build, cap, scale=1):
    """Smallest unit count s such that the 8s run has about EV_TARGET events and the s run has at least MIN_BYTES."""
    probe = 2 if cap is None or cap >= 16 else 1
    e1 = measure(cls, build(probe))[0]
    e2 = measure(cls, build(3 * probe))[0]
    per_unit = max(1.0, float(e2 - e1) / (2 * probe))
    s = int(EV_TARGET * SCALE[0] * scale / per_unit / 8)
    s = max(s, 2)
    if cap is not None and 8 * s > cap:
        s = max(1, cap // 8)
    while len(build(s)) < MIN_BYTES and (cap is None or 16 * s <= cap):
        s *= 2
    return s


def series(cls, build, cap, factor=(1, 2, 4, 8), scale=1):
    s = _calibrate(cls, build, cap, scale)
    rows = []
    for f in factor:
        data = build(f * s)
        ev, depth, traced, out, _ = measure(cls, data)
        secs = wall(cls, data) if out != 'HANG' else None
        if secs is None:
            out, secs = 'HANG', float(TIME_LIMIT)
        rows.append({'units': f * s, 'bytes': len(data), 'events': ev, 'depth': depth, 'secs': secs, 'traced': traced,
                     'outcome': out})
    return rows


def slopes(rows, key='events'):
    out = []
    for a, b in zip(rows, rows[1:]):
        db = b['bytes'] - a['bytes']
        out.append(float(b[key] - a[key]) / db if db > 0 else 0.0)
    return out


def verdict(name, shape, rows, blame=None):
    """[(finding key, message)] for one series; `blame` names the class a depth finding is filed under (the class
    whose parser recurses, when it is reached through an enclosing class)."""
    out = []
    blame = blame or name
    if any(r['outcome'] == 'HANG' for r in rows):
        out.append(('hang:' + name, '{} [{}]: a parse exceeded {} s at {} bytes'.format(
            name, shape, TIME_LIMIT, [r['bytes'] for r in rows if r['outcome'] == 'HANG'][0])))
        return out
    if any(r['outcome'] == 'RecursionError' for r in rows):
        first = [r['bytes'] for r in rows if r['outcome'] == 'RecursionError'][0]
        out.append(('depth:' + blame, '{} [{}]: the nesting of the input drives the recursion depth: RecursionError escapes '
                    'the parse of {} bytes (outcomes {})'.format(name, shape, first, [r['outcome'] for r in rows])))
    # the slope test compares like with like: only the trailing sizes that end in the same outcome (another outcome is
    # another code path, e.g. accepted up to a limit and rejected beyond it)
    same = list(rows)
    while same and same[0]['outcome'] != rows[-1]['outcome']:
        same = same[1:]
    sl = slopes(same)
    if len(sl) >= 2 and same[0]['bytes'] >= 16:
        first, last = sl[0], sl[-1]
        if last > SLOPE_RATIO * max(first, 1.0) and same[-1]['events'] - same[0]['events'] > 2000:
            out.append(('superlinear:{}:{}'.format(name, shape),
                        '{} [{}]: line events grow faster than the input: bytes {} -> events {} (slopes {})'.format(
                            name, shape, [r['bytes'] for r in same], [r['events'] for r in same],
                            ['%.1f' % x for x in sl])))
    d = [r['depth'] for r in rows]
    if len(d) >= 4 and d[3] > d[2] > d[0]:
        out.append(('depth:' + blame, '{} [{}]: nesting of cryptoparser frames grows with the input: {} at {} bytes'.format(
            name, shape, d, [r['bytes'] for r in rows])))
    return out


def time_growth(rows):
    """(time ratio, byte ratio) of the last doubling"""
    a, b = rows[-2], rows[-1]
    return b['secs'] / max(a['secs'], 1e-6), float(b['bytes']) / max(1, a['bytes'])


def time_rows(cls, build, cap, rows, upto, until):
    """untraced wall times continued beyond the last row by doubling, at most `upto` times, while a single parse is
    faster than `until` seconds and the cap allows"""
    out = [dict(r) for r in rows]
    units = rows[-1]['units']
    n = 0
    while n < upto and out[-1]['secs'] < until:
        units *= 2
        n += 1
        if cap is not None and units > cap:
            break
        try:
            data = build(units)
        except (OverflowError, ValueError, MemoryError):     # the shape cannot be built that large
            break
        secs = wall(cls, data)
        if secs is None:
            out.append({'units': units, 'bytes': len(data), 'secs': float(TIME_LIMIT), 'outcome': 'HANG'})
            break
        out.append({'units': units, 'bytes': len(data), 'secs': secs})
    return out


def time_note(name, shape, cls, build, cap, rows):
    """Wall time clearly superlinear while events are linear -> (note or None, worse than quadratic).
    The untraced timing is continued by doubling until a parse takes TIME_CHEAP seconds (at most 5 doublings); a
    series whose last doubling is suspect gets one more."""
    ext_rows = time_rows(cls, build, cap, rows, upto=5, until=TIME_CHEAP)
    rt, rb = time_growth(ext_rows)
    if ext_rows[-1]['secs'] < TIME_FLOOR or rt < TIME_SUSPECT * rb:
        return None, False
    ext_rows = time_rows(cls, build, cap, ext_rows, upto=1, until=TIME_STOP)
    rt, rb = time_growth(ext_rows)
    if rt < TIME_SUPER * rb:
        return None, False
    note = '{} [{}]: wall time x{:.1f} for bytes x{:.1f} at the last doubling: {} s at {} bytes'.format(
        name, shape, rt, rb, ['%.3f' % r['secs'] for r in ext_rows], [r['bytes'] for r in ext_rows])
    return note, rt > TIME_SUPER * rb * rb and ext_rows[-1]['secs'] > 0.5


def short_name(path):
    return path.split(':')[1]


# ------------------------------------------------------------------------------------------------
# self-test of the detector: synthetic parsers whose code objects carry a file name under cryptoparser/
# ------------------------------------------------------------------------------------------------

_SELFTEST_SRC = """
class Quadratic(object):
    @classmethod
    def parse_immutable(cls, data):
        total = 0
        for i in range(len(data)):
            for j in range(0, i, 16):
                total += 1
        return total, len(data)


class Linear(object):
    @classmethod
    def parse_immutable(cls, data):
        total = 0
        for i in range(len(data)):
            total += 1
        return total, len(data)


class Recursive(object):
    @classmethod
    def parse_immutable(cls, data):
        if len(data) < 8:
            return 0, len(data)
        return cls.parse_immutable(data[8:])


class Declared(object):
    @classmethod
    def parse_immutable(cls, data):
        total = 0
        for i in range(int.from_bytes(data[:2], 'big')):
            total += 1
        return total, 2
"""


def self_test():
    """The verdict functions flag what they must and nothing else; raises RuntimeError otherwise (an infrastructure
    failure, never a verdict)."""
    ns = {}
    exec(compile(_SELFTEST_SRC, _root() + '_c19_selftest.py', 'exec'), ns)   # pylint: disable=exec-used
    saved = SCALE[0]
    SCALE[0] = 1
    try:
        quad = verdict('Quadratic', 'selftest', series(ns['Quadratic'], bytes, None))
        lin = verdict('Linear', 'selftest', series(ns['Linear'], bytes, None))
        rec = verdict('Recursive', 'selftest', series(ns['Recursive'], bytes, 400 * 8))
        dec = declared_verdict(ns['Declared'], 'Declared', 'count', 0xffff, lambda v: u(v, 2) + b'ab')[0]
    finally:
        SCALE[0] = saved
    problems = []
    if not any(k.startswith('superlinear:') for k, _ in quad):
        problems.append('a quadratic parser is not flagged: {}'.format(quad))
    if lin:
        problems.append('a linear parser is flagged: {}'.format(lin))
    if not any(k.startswith('depth:') for k, _ in rec):
        problems.append('a recursive parser is not flagged: {}'.format(rec))
    if not any(k.startswith('declared-count-work:') for k, _ in dec):
        problems.append('a loop driven by a declared count is not flagged: {}'.format(dec))
    if problems:
        raise RuntimeError('C19 detector self-test failed: ' + '; '.join(problems))


# ------------------------------------------------------------------------------------------------
# the parts of a run
# ------------------------------------------------------------------------------------------------

def run_shapes(run, only=None):
    table = {}
    for entry in shapes():
        path, shape, build, cap = entry[:4]
        name = short_name(path)
        opts = entry[4] if len(entry) > 4 else {}
        blame = opts.get('blame', name)
        if only and only not in (name, shape, name + ':' + shape):
            continue
        try:
            cls = cls_of(path)
        except Exception as exc:  # pylint: disable=broad-except
            run.count('shape_errors', '{}:{}'.format(name, type(exc).__name__))
            continue
        rows = series(cls, build, cap, scale=opts.get('scale', 1))
        table[(name, shape)] = rows
        run.evaluations += len(rows)
        run.count('shape_classes', name, len(rows))
        run.count('outcomes', rows[-1]['outcome'])
        for r in rows:
            run.note_nontrivial((name, shape, r['bytes']))
        case = {'kind': 'shape', 'cls': path, 'shape': shape}
        for key, msg in verdict(name, shape, rows, blame=blame):
            run.finding(key, msg, case)
        note, bad = time_note(name, shape, cls, build, cap, rows)
        if note:
            run.time_notes.append(note)
            if bad:
                # time is noisy: confirm on a second measurement before it becomes a finding
                note2, bad2 = time_note(name, shape, cls, build, cap, series(cls, build, cap))
                if bad2:
                    run.finding('time-worse-than-quadratic:{}:{}'.format(name, shape), note2, case)
        # the three entry points at the smallest size
        data = build(rows[0]['units'])
        evs = [measure(cls, data, entry)[0] for entry in ('parse_immutable', 'parse_exact_size', 'parse_mutable')]
        run.evaluations += 3
        if max(evs) - min(evs) > ENTRY_SLACK:
            run.finding('entry-points:' + name, '{} [{}]: line events of parse_immutable / parse_exact_size / parse_mutable '
                        'differ: {}'.format(name, shape, evs), case)
    return table


def declared_verdict(cls, name, field, vmax, build):
    """[(key, message)], events of the maximal declaration, events of its small twin"""
    data = build(vmax)
    twin = build(min(DECLARED_SMALL, vmax - 1))
    ev, _, _, out, _ = measure(cls, data)
    ev_twin, _, _, out_twin, _ = measure(cls, twin)
    peak = measure(cls, data, alloc=True)[4]
    msgs = []
    if out == 'HANG':
        msgs.append(('hang:' + name, '{}: {} = {:#x} followed by a few bytes did not finish in {} s'.format(
            name, field, vmax, TIME_LIMIT)))
    elif ev > DECLARED_BUDGET or peak > DECLARED_ALLOC or ev - ev_twin > DECLARED_DIFF:
        msgs.append(('declared-count-work:{}:{}'.format(name, field),
                     '{}: {} declares {:#x} over {} bytes of input: {} line events (budget {}; the same input declaring {} '
                     'costs {}), peak allocation {} bytes (budget {}), outcome {}'.format(
                         name, field, vmax, len(data), ev, DECLARED_BUDGET, min(DECLARED_SMALL, vmax - 1), ev_twin, peak,
                         DECLARED_ALLOC, out)))
    return msgs, ev, ev_twin, peak, out


def run_declared(run):
    worst = (0, None)
    worst_diff = (0, None)
    table = _declared()
    for path, field, _width, vmax, build in table:
        name = short_name(path)
        try:
            cls = cls_of(path)
        except Exception as exc:  # pylint: disable=broad-except
            run.count('shape_errors', '{}:{}'.format(name, type(exc).__name__))
            continue
        msgs, ev, ev_twin, _peak, out = declared_verdict(cls, name, field, vmax, build)
        run.evaluations += 2
        run.count('declared_outcomes', out)
        run.count('declared_classes', name)
        run.note_nontrivial((name, field, hx(build(vmax))))
        case = {'kind': 'declared', 'cls': path, 'field': field}
        if ev > worst[0]:
            worst = (ev, '{}:{}'.format(name, field))
        if ev - ev_twin > worst_diff[0]:
            worst_diff = (ev - ev_twin, '{}:{}'.format(name, field))
        for key, msg in msgs:
            run.finding(key, msg, case)
    run.notes.append('declared counts: {} fields; the most expensive maximal declaration costs {} line events ({}); largest '
                     'difference to the same input declaring a value just beyond the data: {} ({})'.format(
                         len(table), worst[0], worst[1], worst_diff[0], worst_diff[1]))


def check_input(cls, data):
    """budget / hang verdict for one natural-size input: [(key, message)]"""
    name = cls.__name__
    ev, depth, secs, out, _ = measure(cls, data)
    if out == 'HANG':
        return [('hang:' + name, '{}: parse of {} bytes did not finish in {} s'.format(name, len(data), TIME_LIMIT))], ev, depth
    if out == 'RecursionError':
        return [('depth:' + name, '{}: RecursionError on {} bytes'.format(name, len(data)))], ev, depth
    if ev > EV_PER_BYTE * len(data) + EV_CONST:
        return [('budget:' + name, '{}: {} line events for {} bytes (budget {} * len + {})'.format(
            name, ev, len(data), EV_PER_BYTE, EV_CONST))], ev, depth
    return [], ev, depth


def run_corpus(run, n_mut):
    from harness import corpus, clsrun
    pairs = corpus.harvest()
    classes = {}
    maxdepth = {}
    total = 0
    for cls, data in pairs:
        classes.setdefault(cls, []).append(data)
    for cls in sorted(classes, key=lambda c: c.__module__ + c.__qualname__):
        datas = sorted(set(classes[cls]), key=lambda d: (-len(d), d))[:6]
        for data in datas:
            variants = [data] + clsrun.mutations(run.rng, data, n_mut)
            for v in variants:
                msgs, ev, depth = check_input(cls, v)
                total += 1
                run.evaluations += 1
                maxdepth[cls.__name__] = max(maxdepth.get(cls.__name__, 0), depth)
                if len(v) > 8:
                    run.note_nontrivial((cls.__name__, hx(v)))
                for key, msg in msgs:
                    run.finding(key, msg, {'kind': 'input', 'cls': corpus.class_path(cls), 'data': hx(v)})
        run.count('corpus_classes', cls.__name__, len(datas))
    deepest = sorted(maxdepth.items(), key=lambda kv: -kv[1])[:5]
    run.notes.append('corpus: {} classes, {} inputs incl. mutations; deepest nesting of cryptoparser frames: {}'.format(
        len(classes), total, deepest))
    run.maxdepth = max(maxdepth.values()) if maxdepth else 0


# --- tick model ---------------------------------------------------------------------------------

MODEL_CLASSES = {
    'TlsRecord': 'cryptoparser.tls.record:TlsRecord',
    'TlsHandshakeClientHello': TLS + 'TlsHandshakeClientHello',
    'TlsHandshakeServerHello': TLS + 'TlsHandshakeServerHello',
    'TlsHandshakeCertificate': TLS + 'TlsHandshakeCertificate',
    'TlsHandshakeMessageVariant': TLS + 'TlsHandshakeMessageVariant',
}


def tick_cases(run, deep):
    """(model class, bytes): the scalable shapes of the modelled classes at several sizes, generated objects, mutations"""
    from harness import clsrun, gen_tls
    cases = []
    sizes = (1, 2, 3, 8, 32, 96) if not deep else (1, 2, 3, 8, 32, 128, 512, 2048)
    for entry in shapes():
        path, shape, build, cap = entry[:4]
        name = short_name(path)
        if name not in MODEL_CLASSES:
            continue
        for n in sizes:
            if cap is not None and n > cap:
                continue
            cases.append((name, build(n), shape))
    for path, _field, _width, vmax, build in _declared():
        if short_name(path) in MODEL_CLASSES:
            cases.append((short_name(path), build(vmax), 'declared'))
            cases.append((short_name(path), build(min(DECLARED_SMALL, vmax - 1)), 'declared'))
    for name, gen in gen_tls.MODELLED_GENERATORS:
        if name not in MODEL_CLASSES:
            continue
        for _ in range(6 if not deep else 30):
            try:
                data = bytes(gen(run.rng).compose())
            except Exception:  # pylint: disable=broad-except
                continue
            cases.append((name, data, 'generated'))
            for m in clsrun.mutations(run.rng, data, 4):
                cases.append((name, m, 'mutated'))
    return cases


def run_ticks(run, driver_ok, deep):
    if not driver_ok:
        run.notes.append('tick model not validated: driver unavailable')
        return
    cases = tick_cases(run, deep)
    try:
        out = core.run_driver(['TK {} {}'.format(name, hx(data)) for name, data, _ in cases])
    except RuntimeError as exc:
        run.notes.append('tick model not validated: {}'.format(exc))
        return
    worst = 0.0
    unmodelled = 0
    for (name, data, shape), line in zip(cases, out):
        run.evaluations += 1
        parts = line.split(' ')
        case = {'kind': 'tk', 'cls': name, 'shape': shape, 'data': hx(data)[:4000]}
        if parts[0] == 'UNMODELLED':
            unmodelled += 1
            continue
        if parts[0] != 'OK' or len(parts) != 4:
            run.disagreements.append((case, 0, line, 'expected: OK <ticks> <bound> <outcome class>'))
            continue
        ticks, bound, model_out = int(parts[1]), int(parts[2]), parts[3]
        ev, _, _, outcome, _ = measure(cls_of(MODEL_CLASSES[name]), data)
        run.count('tick_cases', name)
        run.note_nontrivial(('tk', name, hx(data)))
        impl_out = 'OK' if outcome == 'OK' else 'ERR'
        ok = ticks <= bound and ev <= TICK_ALPHA * ticks + TICK_BETA and model_out == impl_out
        if ticks:
            worst = max(worst, float(ev) / ticks)
        if not ok:
            run.disagreements.append((case, 0, 'ticks {} bound {} outcome {}'.format(ticks, bound, model_out),
                                      'line events {} (allowed {} * ticks + {}) outcome {}'.format(ev, TICK_ALPHA, TICK_BETA, outcome)))
    run.notes.append('tick model: {} inputs on {} ({} outside the model), line events <= {} * ticks + {}, '
                     'ticks <= proven bound; worst events/ticks {:.1f}'.format(
                         len(cases), sorted(MODEL_CLASSES), unmodelled, TICK_ALPHA, TICK_BETA, worst))


# ------------------------------------------------------------------------------------------------
# entry points of the check
# ------------------------------------------------------------------------------------------------

HISTORY_CHILD = r"""
import sys
sys.path.insert(0, {verif!r}); sys.path.insert(0, {repo!r})
from harness.props import c19
from cryptoparser.httpx import header as H

registered = 'not registered'
try:
    # an existing field class registered a second time under an application tag: harmless, but it makes the list of
    # registered variants non-empty, which is the state the library's own tests never reach
    H.HttpHeaderFieldParsedVariant.register_variant_parser('x-verif-probe', H.HttpHeaderFieldServer)
    registered = 'registered'
except Exception as e:
    registered = 'register failed: ' + repr(e)
block = b''.join(b'X-Unknown-%d: value %d\r\n' % (i, i) for i in range(40)) + b'Server: x\r\nAge: 5\r\n\r\n'
rows = []
for _ in range(6):
    ev = c19.measure(H.HttpHeaderFields, block)[0]
    rows.append(ev)
print(registered)
print(' '.join(str(r) for r in rows))
# a variant class whose table of variants is a class-level dict: an existing message class registered again under its tag
from cryptoparser.tls import subprotocol as S
try:
    # registered under the FIRST tag of the table, so that every later message class is reached through it
    S.TlsHandshakeMessageVariant.register_variant_parser(S.TlsHandshakeType.CLIENT_HELLO, S.TlsHandshakeClientHello)
    print('registered')
except Exception as e:
    print('register failed: ' + repr(e))
rows = []
for _ in range(60):
    rows.append(c19.measure(S.TlsHandshakeMessageVariant, bytes([0x0e, 0, 0, 0]))[0])
print(' '.join(str(r) for r in rows[::10] + rows[-1:]))
rows = []
for _ in range(60):
    rows.append(c19.measure(S.TlsHandshakeMessageVariant, bytes([0xee, 0, 0, 0]))[0])
print(' '.join(str(r) for r in rows[::10] + rows[-1:]))
"""


def run_history(run):
    """the cost of parsing an input does not depend on what was parsed before in the same process, also after an
    application registered a variant parser of its own (a child process: the registration is global state)"""
    code = HISTORY_CHILD.format(verif=core.VERIF, repo=core.REPO)
    env = dict(os.environ)
    env['PYTHONDONTWRITEBYTECODE'] = '1'
    try:
        proc = subprocess.run([sys.executable, '-W', 'ignore', '-c', code], stdout=subprocess.PIPE, stderr=subprocess.PIPE,
                              universal_newlines=True, timeout=600, env=env, check=False)
    except subprocess.TimeoutExpired:
        run.finding('history-work:HttpHeaderFields', 'six parses of a 1 KB header block after register_variant_parser did not finish '
                    'in 600 s', {'kind': 'history', 'cls': 'HttpHeaderFields'})
        return
    run.evaluations += 6
    lines = proc.stdout.strip().split('\n')
    if proc.returncode != 0 or len(lines) < 2:
        run.notes.append('history probe did not run: ' + (proc.stderr or proc.stdout)[-300:])
        return
    rows = [int(x) for x in lines[1].split()]
    run.notes.append('history probe ({}): line events of six consecutive parses of the same header block: {}'.format(lines[0], rows))
    if max(rows) > min(rows) * 1.05 + 50:
        run.finding('history-work:HttpHeaderFields',
                    'the same 1 KB header block costs {} line events in consecutive parses ({}): work depends on what was '
                    'parsed before'.format(rows, lines[0]), {'kind': 'history', 'cls': 'HttpHeaderFields', 'rows': rows})
    if len(lines) >= 5:
        for what, line in (('accepted ServerHelloDone', lines[3]), ('rejected message type', lines[4])):
            rows = [int(x) for x in line.split()]
            run.evaluations += 60
            run.notes.append('history probe ({}; TlsHandshakeMessageVariant, {}): events of parse 1, 11, ..., 60: {}'.format(lines[2], what, rows))
            if max(rows) > min(rows) * 1.05 + 50:
                run.finding('history-work:TlsHandshakeMessageVariant',
                            'the same 4-byte handshake message ({}) costs {} line events over 60 consecutive parses ({}): work '
                            'depends on what was parsed before'.format(what, rows, lines[2]),
                            {'kind': 'history', 'cls': 'TlsHandshakeMessageVariant', 'rows': rows})


def run(run, driver_ok=True, deep=False):  # pylint: disable=redefined-outer-name
    deep = deep or run.tier == 'thorough'
    SCALE[0] = 4 if deep else 1
    run.time_notes = []
    phases = []
    self_test()
    run.notes.append('detector self-test passed: synthetic quadratic / recursive / count-driven parsers compiled under a '
                     'cryptoparser/ file name are flagged, a linear one is not')
    t0 = time.time()
    table = run_shapes(run)
    phases.append(('shapes', time.time() - t0))
    t0 = time.time()
    run_declared(run)
    phases.append(('declared', time.time() - t0))
    t0 = time.time()
    run_history(run)
    phases.append(('history', time.time() - t0))
    t0 = time.time()
    run_corpus(run, n_mut=3 if not deep else 12)
    phases.append(('corpus', time.time() - t0))
    t0 = time.time()
    run_ticks(run, driver_ok, deep)
    phases.append(('ticks', time.time() - t0))
    run.notes.append('phases (s): ' + ', '.join('{} {:.1f}'.format(k, v) for k, v in phases))
    if table:
        key = ('HttpHeaderFields', 'many-unparsed')
        for k in (key, ('TlsHandshakeClientHello', 'many-cipher-suites'), ('SshKeyExchangeInit', 'huge-name')):
            if k in table:
                run.sample({'cls': k[0], 'shape': k[1], 'series': [
                    {x: (round(r[x], 4) if x == 'secs' else r[x]) for x in ('bytes', 'events', 'depth', 'secs', 'outcome')}
                    for r in table[k]]})
    run.notes.append('shapes: {} series x 4 sizes over {} classes; verdicts on line events only'.format(
        len(table), len({k[0] for k in table})))
    run.notes.append('UNMODELLED (C-level work inside one line event, invisible to events and ticks): slice copies in '
                     '_parse_parsable_derived_array (unparsed_bytes[parsed_length:]) and _parse_string_until_separator '
                     '(buf[a:b].endswith), list.insert(0, x) in parse_parsable_list, str += in DnsRecordTxt, third-party '
                     'parsers (dateutil, json, asn1crypto); wall time at s..8s, shapes where it is clearly superlinear '
                     'while events are linear: ' + ('; '.join(run.time_notes[:40]) if run.time_notes else 'none'))


def search(run, proof):  # pylint: disable=redefined-outer-name,unused-argument
    if run.tier != 'thorough':
        sub = core.Run(run.prop, 'thorough', run.seed + 1)
        sub.kf = run.kf
        sub.time_notes = []
        SCALE[0] = 4
        run_shapes(sub)
        run_declared(sub)
        run_corpus(sub, n_mut=12)
        run.violations.extend(sub.violations)
        run.evaluations += sub.evaluations
        run.notes.append('failing-input search: shapes, declared counts, corpus with 12 mutations per input, {} cases'.format(
            sub.evaluations))


def replay(case):
    kind = case.get('kind')
    if kind == 'shape':
        for entry in shapes():
            path, shape, build, cap = entry[:4]
            if path == case['cls'] and shape == case['shape']:
                opts = entry[4] if len(entry) > 4 else {}
                rows = series(cls_of(path), build, cap, scale=opts.get('scale', 1))
                out = verdict(short_name(path), shape, rows, blame=opts.get('blame'))
                note, bad = time_note(short_name(path), shape, cls_of(path), build, cap, rows)
                if bad:
                    out.append(('time-worse-than-quadratic:{}:{}'.format(short_name(path), shape), note))
                return out
        return []
    if kind == 'declared':
        for path, field, _width, vmax, build in _declared():
            if path == case['cls'] and field == case['field']:
                return declared_verdict(cls_of(path), short_name(path), field, vmax, build)[0]
        return []
    if kind == 'input':
        return check_input(cls_of(case['cls']), unhx(case['data']))[0]
    return []


if __name__ == '__main__':   # exploration aid: python -m harness.props.c19 [filter]
    flt = sys.argv[1] if len(sys.argv) > 1 else None
    r = core.Run('C19', 'quick', 1)
    r.time_notes = []
    t0 = time.time()
    if flt != 'declared':
        tab = run_shapes(r, only=flt)
        for (nm, shp), rws in sorted(tab.items()):
            print('{:45s} {:32s} {} bytes {} ev {} d {} t {} sl {}'.format(
                nm, shp, rws[-1]['outcome'], [x['bytes'] for x in rws], [x['events'] for x in rws], [x['depth'] for x in rws],
                ['%.3f' % x['secs'] for x in rws], ['%.1f' % x for x in slopes(rws)]))
    if flt in (None, 'declared'):
        for pth, fld, _w, vmx, bld in _declared():
            ms, e1, e2, pk, o = declared_verdict(cls_of(pth), short_name(pth), fld, vmx, bld)
            print('{:45s} {:28s} ev {:6d} twin {:6d} peak {:8d} {}'.format(short_name(pth), fld, e1, e2, pk, o))
        run_declared(r)
    print('violations', [(k, m) for k, m, _ in r.violations])
    print('time notes', r.time_notes)
    print('wall', time.time() - t0)
