# -*- coding: utf-8 -*-
"""C10 — every wire code point is decoded faithfully or preserved verbatim."""
import enum
import importlib
import inspect
import pkgutil

from harness import core
from harness.core import hx, outcome

LEAN_MODULES = ['CpProps.C10']
RULE = ('for every enum factory: every value of the 1-byte space and (quick: every member, member+-1, every GREASE value, '
        'boundaries and a seeded sample; thorough: every value) of the 2-byte space, boundary/member/seeded values of the '
        '3- and 4-byte spaces, each parsed alone (strict), and in arrays with the fallback class (as inside its list '
        'container); every IntEnum converter over its whole 1-byte space or members+-1; every string-coded enumeration '
        'over all members, case variants, prefixes/extensions; every concrete list-container class of code points is fed '
        'member/unknown/GREASE codes in several orders through its own parse_exact_size and every enum-valued single field of '
        'the generated message classes is set to every member, composed and parsed; every length-prefixed string code (ALPN/NPN '
        'names) is fed with invalid-UTF-8, case and prefix/extension variants of every member. Non-trivial: the code is not 0; distinct: (table, op, bytes).')
ASSUMPTIONS = ['cryptodatahub supplies the enum classes; their tables are extracted from the live objects, not assumed']


def _mods():
    import cryptoparser
    mods = []
    for m in pkgutil.walk_packages(cryptoparser.__path__, 'cryptoparser.'):
        mods.append(importlib.import_module(m.name))
    return mods


def _all_sub(cls):
    out = []
    for s in cls.__subclasses__():
        if s not in out:
            out.append(s)
        for x in _all_sub(s):
            if x not in out:
                out.append(x)
    return out


def factories():
    """{table name: (factory class, enum class, size)} in the extractor's naming."""
    from cryptoparser.common import base
    _mods()
    out = {}
    for f in _all_sub(base.NByteEnumParsable):
        if inspect.isabstract(f) and f.__module__ == 'cryptoparser.common.base':
            continue
        try:
            e = f.get_enum_class()
            k = f.get_byte_num()
        except NotImplementedError:
            continue
        out.setdefault(e.__name__, (f, e, k))
    return out


def int_enums():
    out = {}
    for mod in _mods():
        for _, obj in sorted(vars(mod).items()):
            if (inspect.isclass(obj) and issubclass(obj, enum.IntEnum) and obj.__module__.startswith('cryptoparser.')
                    and len(obj.__members__)):
                out.setdefault(obj.__name__, obj)
    return out


def str_enums():
    from cryptoparser.common import base
    _mods()
    out = {}
    for c in _all_sub(base.StringEnumParsableBase):
        if getattr(c, '__members__', None):
            out[c.__name__] = c
    return out


def fallback_for(k):
    from cryptoparser.tls.grease import TlsInvalidTypeOneByte, TlsInvalidTypeTwoByte
    return {1: TlsInvalidTypeOneByte, 2: TlsInvalidTypeTwoByte}.get(k)


def canon_item(item):
    from cryptoparser.tls.grease import TlsInvalidTypeBase
    if isinstance(item, TlsInvalidTypeBase):
        return 'U{}'.format(item.value.code)
    return 'E{}'.format(item.value.code)


def compose_item(item, k):
    from cryptoparser.common.parse import ComposerBinary
    from cryptoparser.tls.grease import TlsInvalidTypeBase
    if isinstance(item, TlsInvalidTypeBase) or hasattr(item, 'compose'):
        return bytes(item.compose())
    c = ComposerBinary()
    c.compose_numeric_enum_coded(item)
    return bytes(c.composed)


class ArrayOracle(object):
    """case {'kind':'arr','tbl':name,'k':k,'fb':0/1,'data':hex}"""

    @staticmethod
    def lines(case):
        return ['EA {} {} {} {}'.format(case['tbl'], case['k'], case['fb'], case['data'])]

    @staticmethod
    def _parse(case):
        from cryptoparser.common.parse import ParserBinary
        f, e, k = factories()[case['tbl']]
        data = core.unhx(case['data'])
        p = ParserBinary(data)
        p.parse_parsable_array('x', len(data), f, fallback_for(k) if case['fb'] else None)
        return p['x']

    @classmethod
    def impl(cls, case):
        k = case['k']

        def fmt(items):
            return 'OK [{}] {}'.format(','.join(canon_item(i) for i in items),
                                       hx(b''.join(compose_item(i, k) for i in items)))
        return [outcome(lambda: cls._parse(case), fmt)]

    @classmethod
    def prop(cls, case):
        """faithful or verbatim or rejected, nothing dropped, nothing redirected — on the real code."""
        bad = []
        f, e, k = factories()[case['tbl']]
        data = core.unhx(case['data'])
        if len(data) % k:
            return bad
        want_codes = [int.from_bytes(data[i:i + k], 'big') for i in range(0, len(data), k)]
        known = {}
        for m in e:
            known.setdefault(m.value.code, m)
        try:
            items = cls._parse(case)
        except Exception as exc:  # pylint: disable=broad-except
            line = core.err_line(exc)
            if line == 'ERR InvalidValue' and (not case['fb'] or fallback_for(k) is None) and \
                    any(c not in known for c in want_codes):
                return bad
            bad.append(('array-error', '{} codes {} -> {}'.format(case['tbl'], want_codes, line)))
            return bad
        if len(items) != len(want_codes):
            bad.append(('dropped', '{}: {} codes on the wire, {} items parsed'.format(case['tbl'], len(want_codes), len(items))))
            return bad
        from cryptoparser.tls.grease import TlsInvalidTypeBase, TlsInvalidType
        for c, item in zip(want_codes, items):
            if item.value.code != c:
                bad.append(('redirected', '{}: code {} decoded as {} (code {})'.format(case['tbl'], c, item, item.value.code)))
            elif c in known and item is not known[c]:
                bad.append(('not-member', '{}: known code {} decoded as {!r}'.format(case['tbl'], c, item)))
            elif c not in known and not isinstance(item, TlsInvalidTypeBase):
                bad.append(('phantom', '{}: unknown code {} decoded as {!r}'.format(case['tbl'], c, item)))
            elif isinstance(item, TlsInvalidTypeBase):
                g = {m.value.code for m in item.get_grease_enum()}
                is_g = item.value.value_type == TlsInvalidType.GREASE
                if is_g != (c in g):
                    bad.append(('grease-class', '{}: code {} classified GREASE={}'.format(case['tbl'], c, is_g)))
            if compose_item(item, k) != c.to_bytes(k, 'big'):
                bad.append(('recompose', '{}: code {} re-encodes to {}'.format(case['tbl'], c, hx(compose_item(item, k)))))
        return bad


class IntEnumOracle(object):
    """case {'kind':'ienum','tbl':name,'k':k,'data':hex}"""

    @staticmethod
    def lines(case):
        return ['EI {} {} {}'.format(case['tbl'], case['k'], case['data'])]

    @staticmethod
    def impl(case):
        from cryptoparser.common.parse import ParserBinary
        cls = int_enums()[case['tbl']]

        def fn():
            p = ParserBinary(core.unhx(case['data']))
            p.parse_numeric('x', case['k'], cls)
            return p.parsed_length, p['x']
        return [outcome(fn, lambda r: 'OK {} E{}'.format(r[0], int(r[1])))]

    @classmethod
    def prop(cls, case):
        e = int_enums()[case['tbl']]
        data = core.unhx(case['data'])
        if len(data) < case['k']:
            return []
        c = int.from_bytes(data[:case['k']], 'big')
        line = cls.impl(case)[0]
        values = {int(m) for m in e.__members__.values()}
        if c in values:
            ok = line == 'OK {} E{}'.format(case['k'], c)
        else:
            ok = line == 'ERR InvalidValue'
        if not ok:
            return [('intenum', '{} code {} -> {}'.format(case['tbl'], c, line))]
        return []


class StrEnumOracle(object):
    """case {'kind':'senum','tbl':name,'data':hex}"""

    @staticmethod
    def lines(case):
        return ['ES {} {}'.format(case['tbl'], case['data'])]

    @staticmethod
    def impl(case):
        cls = str_enums()[case['tbl']]

        def fn():
            item, n = cls.parse_immutable(core.unhx(case['data']))
            return n, list(cls).index(item)
        return [outcome(fn, lambda r: 'OK {} {}'.format(r[0], r[1]))]

    @classmethod
    def prop(cls, case):
        e = str_enums()[case['tbl']]
        if not case.get('member'):
            return []
        line = cls.impl(case)[0]
        m = e[case['member']]
        want = 'OK {} {}'.format(len(m.value.code), list(e).index(m))
        if line != want:
            return [('strenum', '{}: own code of {} parsed as {} expected {}'.format(case['tbl'], case['member'], line, want))]
        composed = m.compose() if hasattr(m, 'compose') else None
        if composed is not None and bytes(composed) != m.value.code.encode('ascii'):
            return [('strenum-compose', '{}: {} composes to {!r}'.format(case['tbl'], case['member'], composed))]
        return []


ORACLES = {'arr': ArrayOracle, 'ienum': IntEnumOracle, 'senum': StrEnumOracle}


class Dispatch(object):
    @staticmethod
    def lines(case):
        return ORACLES[case['kind']].lines(case)

    @staticmethod
    def impl(case):
        return ORACLES[case['kind']].impl(case)

    @staticmethod
    def prop(case):
        return ORACLES[case['kind']].prop(case)


def grease_values(k):
    from cryptodatahub.tls.algorithm import TlsGreaseOneByte, TlsGreaseTwoByte
    return [m.value.code for m in {1: TlsGreaseOneByte, 2: TlsGreaseTwoByte}.get(k, [])]


def code_sample(e, k, rng, tier):
    space = 256 ** k
    codes = set()
    if k == 1 or (k == 2 and tier == 'thorough'):
        return list(range(space))
    members = [m.value.code for m in e]
    for c in members:
        codes.update([c - 1, c, c + 1])
    codes.update(grease_values(k))
    for g in grease_values(k):
        codes.update([g - 1, g + 1])
    codes.update([0, 1, space - 1, space - 2, space // 2, 255, 256, 0x00ff, 0x5600])
    for e2 in range(8 * k):
        codes.add(1 << e2)
    n = 1500 if tier == 'quick' else 60000
    for _ in range(n):
        codes.add(rng.randrange(space))
    return sorted(c for c in codes if 0 <= c < space)


def gen_cases(rng, tier):
    cases = []
    for name, (f, e, k) in sorted(factories().items()):
        codes = code_sample(e, k, rng, tier)
        for c in codes:
            cases.append({'kind': 'arr', 'tbl': name, 'k': k, 'fb': 0, 'data': hx(c.to_bytes(k, 'big'))})
        if fallback_for(k) is not None:
            # arrays of several codes, as inside the list containers
            for i in range(0, len(codes), 7):
                chunk = codes[i:i + 7]
                rng.shuffle(chunk)
                cases.append({'kind': 'arr', 'tbl': name, 'k': k, 'fb': 1,
                              'data': hx(b''.join(c.to_bytes(k, 'big') for c in chunk))})
        # malformed: trailing fragment
        cases.append({'kind': 'arr', 'tbl': name, 'k': k, 'fb': 1 if fallback_for(k) else 0,
                      'data': hx(codes[0].to_bytes(k, 'big') + (b'\x00' * (k - 1) if k > 1 else b''))})
    for name, e in sorted(int_enums().items()):
        top = max(int(m) for m in e.__members__.values())
        k = 1 if top < 256 else (2 if top < 65536 else 4)
        if k == 1:
            codes = range(256)
        else:
            s = set()
            for m in e.__members__.values():
                s.update([int(m) - 1, int(m), int(m) + 1])
            s.update([0, 256 ** k - 1])
            codes = sorted(c for c in s if 0 <= c < 256 ** k)
        for c in codes:
            cases.append({'kind': 'ienum', 'tbl': name, 'k': k, 'data': hx(c.to_bytes(k, 'big') + b'\x00')})
    for name, e in sorted(str_enums().items()):
        for m in e:
            code = m.value.code
            variants = [(code, m.name), (code.upper(), None), (code.lower(), None), (code + 'x', None), (code[:-1], None),
                        (code + code, None), ('x' + code, None)]
            for text, member in variants:
                try:
                    data = text.encode('ascii')
                except UnicodeError:
                    continue
                cases.append({'kind': 'senum', 'tbl': name, 'data': hx(data), 'member': member})
        cases.append({'kind': 'senum', 'tbl': name, 'data': hx(b'\xff\xfe'), 'member': None})
        cases.append({'kind': 'senum', 'tbl': name, 'data': '-', 'member': None})
    return cases


# ------------------------------------------------------------------------------------------------
# code points inside the REAL list containers and at single-field positions of messages
# ------------------------------------------------------------------------------------------------

def coded_vector_classes():
    """concrete ArrayBase subclasses whose items are code points of an enum factory: (class, factory, enum, k)"""
    from cryptoparser.common import base
    _mods()
    out = []
    for cls in _all_sub(base.ArrayBase):
        if inspect.isabstract(cls):
            continue
        try:
            param = cls.get_param()
        except Exception:  # pylint: disable=broad-except
            continue
        f = getattr(param, 'item_class', None)
        if not (inspect.isclass(f) and issubclass(f, base.NByteEnumParsable)):
            continue
        try:
            out.append((cls, f, f.get_enum_class(), f.get_byte_num()))
        except NotImplementedError:
            continue
    return sorted(out, key=lambda t: t[0].__name__)


def vector_case_props(case):
    """case {'kind':'vec','cls':name,'codes':[...]}: the list container of the class decodes every code on the wire
    to the member carrying it or preserves it verbatim, in order, dropping and merging nothing"""
    by_name = {c.__name__: (c, f, e, k) for c, f, e, k in coded_vector_classes()}
    cls, f, e, k = by_name[case['cls']]
    param = cls.get_param()
    codes = case['codes']
    body = b''.join(c.to_bytes(k, 'big') for c in codes)
    wire = len(body).to_bytes(param.item_num_size, 'big') + body
    known = {}
    for m in e:
        known.setdefault(m.value.code, m)
    name = cls.__name__
    try:
        items = list(cls.parse_exact_size(wire))
    except Exception as exc:  # pylint: disable=broad-except
        line = core.err_line(exc)
        unknown = any(c not in known for c in codes)
        too_small = len(body) < param.min_byte_num or len(body) > param.max_byte_num
        if too_small or (unknown and getattr(param, 'fallback_class', None) is None and line == 'ERR InvalidValue'):
            return []
        return [('container-error:' + name, '{}: codes {} in the container -> {}'.format(name, codes, line))]
    if len(items) != len(codes):
        return [('container-dropped:' + name, '{}: {} codes on the wire, {} items decoded ({})'.format(
            name, len(codes), len(items), [getattr(getattr(i, 'value', None), 'code', None) for i in items]))]
    bad = []
    for c, item in zip(codes, items):
        got = getattr(getattr(item, 'value', None), 'code', None)
        if got != c:
            bad.append(('container-redirected:' + name, '{}: code {} decoded as code {}'.format(name, c, got)))
        elif c in known and item is not known[c]:
            bad.append(('container-not-member:' + name, '{}: known code {} decoded as {!r}'.format(name, c, item)))
    try:
        again = bytes(cls(items).compose())
        if again != wire:
            bad.append(('container-recompose:' + name, '{}: codes {} re-encode to {}'.format(name, codes, hx(again))))
    except Exception as exc:  # pylint: disable=broad-except
        bad.append(('container-recompose:' + name, '{}: codes {} cannot be composed again: {}'.format(
            name, codes, core.err_line(exc))))
    return bad


def vector_cases(rng, tier):
    cases = []
    for cls, f, e, k in coded_vector_classes():
        members = [m.value.code for m in e]
        space = 256 ** k
        unknown = [c for c in grease_values(k) + [space - 1, space - 2, 0x0b % space, 0x2a % space, 0x5a5a % space]
                   if c not in set(members)]
        n = 40 if tier == 'quick' else 600
        picks = []
        for _ in range(n):
            m1, m2 = rng.choice(members), rng.choice(members)
            u = rng.choice(unknown) if unknown else m1
            picks += [[m1], [u], [u, m1], [m1, u], [u, m1, u, m2], [m1, m2, u]]
        seen = set()
        for codes in picks:
            t = tuple(codes)
            if t in seen:
                continue
            seen.add(t)
            cases.append({'kind': 'vec', 'cls': cls.__name__, 'codes': codes})
    return cases


def opaque_enum_classes():
    from cryptoparser.common import base
    _mods()
    return sorted([c for c in _all_sub(base.OpaqueEnumParsable) if not inspect.isabstract(c)], key=lambda c: c.__name__)


def opaque_case_props(case):
    """case {'kind':'openum','cls':name,'data':hex of the length-prefixed name}: a length-prefixed string code is
    decoded to the member carrying exactly these bytes or rejected - never to a member with other bytes"""
    by_name = {c.__name__: c for c in opaque_enum_classes()}
    cls = by_name[case['cls']]
    wire = core.unhx(case['data'])
    try:
        item, n = cls.parse_immutable(wire)
    except Exception as exc:  # pylint: disable=broad-except
        line = core.err_line(exc)
        if line.startswith('ERR '):
            return []
        return [('openum-crash:' + cls.__name__, '{}: {} raised {}'.format(cls.__name__, case['data'], line))]
    code = item.value.code.encode(cls.get_encoding())
    again = len(code).to_bytes(cls.get_param().item_num_size, 'big') + code
    if again != wire[:n]:
        return [('openum-redirected:' + cls.__name__, '{}: {} decoded as {!r}, whose code is {}'.format(
            cls.__name__, hx(wire[:n]), item, hx(again)))]
    return []


def opaque_cases():
    cases = []
    for cls in opaque_enum_classes():
        try:
            num = cls.get_param().item_num_size
            members = list(cls.get_enum_class())
        except Exception:  # pylint: disable=broad-except
            continue
        for m in members:
            try:
                code = m.value.code.encode(cls.get_encoding())
            except Exception:  # pylint: disable=broad-except
                continue
            variants = [code, code + b'\xff', b'\xc0' + code, code[:1] + b'\x80' + code[1:], code + b'\xfe\xff',
                        code.upper(), code + b'x', code[:-1], code + b'\x00', b'\xef\xbb\xbf' + code,
                        code + b'\xc3', code.replace(b'/', b'\xc0\xaf')]
            for v in variants:
                if len(v) < 256 ** num:
                    cases.append({'kind': 'openum', 'cls': cls.__name__, 'data': hx(len(v).to_bytes(num, 'big') + v)})
    return cases


def ssh_name_list_cases():
    """every member of every SSH algorithm-name table inside its own name-list class, alone and next to another name:
    (class name, [names])"""
    from cryptoparser.ssh import subprotocol as sp
    out = []
    for cls_name in ('SshKexAlgorithmVector', 'SshHostKeyAlgorithmVector', 'SshEncryptionAlgorithmVector', 'SshMacAlgorithmVector',
                     'SshCompressionAlgorithmVector'):
        cls = getattr(sp, cls_name, None)
        if cls is None:
            continue
        members = list(cls.get_param().item_class)
        for i, m in enumerate(members):
            other = members[(i + 1) % len(members)]
            out.append({'kind': 'sshnames', 'cls': cls_name, 'names': [m.value.code]})
            out.append({'kind': 'sshnames', 'cls': cls_name, 'names': [other.value.code, m.value.code, 'unknown-name@example.com']})
    return out


def ssh_name_list_props(case):
    import struct
    from cryptoparser.ssh import subprotocol as sp
    cls = getattr(sp, case['cls'])
    enum_cls = cls.get_param().item_class
    body = ','.join(case['names']).encode('ascii')
    wire = struct.pack('>I', len(body)) + body
    try:
        items = list(cls.parse_exact_size(wire))
    except Exception as exc:  # pylint: disable=broad-except
        return [('names-rejected:' + case['cls'], '{}: the name-list {!r} of known names is rejected: {}'.format(
            case['cls'], case['names'], core.err_line(exc)))]
    got = [i.value.code if isinstance(i, enum.Enum) else str(i) for i in items]
    if got != case['names']:
        return [('names-redirected:' + case['cls'], '{}: {!r} decodes as {!r}'.format(case['cls'], case['names'], got))]
    known = {m.value.code: m for m in enum_cls}
    for name, item in zip(case['names'], items):
        if name in known and item is not known[name]:
            return [('names-not-member:' + case['cls'], '{}: known name {!r} decodes as {!r}'.format(case['cls'], name, item))]
    try:
        again = bytes(cls(items).compose())
    except Exception as exc:  # pylint: disable=broad-except
        return [('names-recompose:' + case['cls'], '{}: {!r} cannot be composed again: {}'.format(case['cls'], case['names'], core.err_line(exc)))]
    if again != wire:
        return [('names-recompose:' + case['cls'], '{}: {!r} re-encodes to {}'.format(case['cls'], case['names'], hx(again)))]
    return []

def position_cases(run, tier):
    """every member of an enumeration at every single-field position of the generated message classes: the object
    is re-built with that member (attr.evolve), composed and parsed; the field must come back as the same member"""
    import attr
    from harness import clsrun, clsops
    modelled = clsops.modelled()
    done = set()
    for name, gen in clsrun.all_generators():
        if name not in modelled:
            continue
        try:
            obj = gen(run.rng)
        except Exception:  # pylint: disable=broad-except
            continue
        if not attr.has(type(obj)):
            continue
        cls = type(obj)
        for fld in attr.fields(cls):
            if not fld.init or (cls, fld.name) in done:
                continue
            value = getattr(obj, fld.name, None)
            if not isinstance(value, enum.Enum) or not hasattr(getattr(value, 'value', None), 'code'):
                continue
            done.add((cls, fld.name))
            members = list(type(value))
            if tier == 'quick' and len(members) > 60:
                members = members[:20] + run.rng.sample(members[20:], 40)
            for m in members:
                case = {'kind': 'pos', 'cls': name, 'field': fld.name, 'member': m.name}
                run.evaluations += 1
                run.count('positions', '{}.{}'.format(cls.__name__, fld.name))
                try:
                    changed = attr.evolve(obj, **{fld.name.lstrip('_'): m})
                    wire = bytes(changed.compose())
                except Exception:  # pylint: disable=broad-except
                    run.count('positions', 'not-constructible')
                    continue
                case['data'] = hx(wire)
                run.note_nontrivial(('pos', cls.__name__, fld.name, m.name))
                for key, msg in position_props(cls, fld.name, m, wire):
                    run.finding(key, msg, case)


def position_replay(case):
    """re-evaluate a recorded position case: the class is looked up by name among all library classes"""
    import attr
    _mods()
    from cryptoparser.common.parse import ParsableBase
    wire = core.unhx(case['data'])
    for c in _all_sub(ParsableBase):
        if not attr.has(c) or case['field'] not in {f.name for f in attr.fields(c)}:
            continue
        try:
            back = c.parse_exact_size(wire)
        except Exception:  # pylint: disable=broad-except
            continue
        if type(back) is not c:  # pylint: disable=unidiomatic-typecheck
            continue
        value = getattr(back, case['field'], None)
        member = getattr(type(value), case['member'], None) if isinstance(value, enum.Enum) else None
        if member is not None:
            return position_props(c, case['field'], member, wire)
    return []

def position_props(cls, field, member, wire):
    try:
        back = cls.parse_exact_size(wire)
    except Exception as exc:  # pylint: disable=broad-except
        line = core.err_line(exc)
        if line.startswith('ERR '):
            return []       # the class does not take this member at this position (documented rejection): not a decoding
        return [('position-error:{}.{}'.format(cls.__name__, field),
                 '{}.{} = {}: parsing the composed message raised {}'.format(cls.__name__, field, member.name, line))]
    got = getattr(back, field, None)
    if got is not member:
        return [('position-redirected:{}.{}'.format(cls.__name__, field),
                 '{}.{}: code {} ({}) on the wire decodes as {!r}'.format(
                     cls.__name__, field, member.value.code, member.name, getattr(got, 'name', got)))]
    return []


def run(run, driver_ok=True, deep=False):
    tier = 'thorough' if deep else run.tier
    cases = gen_cases(run.rng, tier)
    for c in cases:
        run.count('ops', c['kind'])
        run.count('tables', c['tbl'])
        if c['data'].strip('0-'):
            run.note_nontrivial((c['kind'], c['tbl'], c.get('fb'), c['data']))
    for c in cases[:2] + cases[len(cases) // 2:len(cases) // 2 + 2] + cases[-3:-1]:
        run.sample(c)
    run.exhaustive = False
    run.notes.append('1-byte code spaces are enumerated completely in both tiers; 2-byte spaces completely in thorough tier')
    if driver_ok:
        core.correspond(run, Dispatch, cases)
    else:
        for case in cases:
            run.evaluations += 1
            for key, message in Dispatch.prop(case):
                run.finding(key, message, case)
    alias_props(run)
    for case in vector_cases(run.rng, tier):
        run.evaluations += 1
        run.count('containers', case['cls'])
        run.note_nontrivial(('vec', case['cls'], tuple(case['codes'])))
        for key, message in vector_case_props(case):
            run.finding(key, message, case)
    position_cases(run, tier)
    for case in ssh_name_list_cases():
        run.evaluations += 1
        run.count('ssh_name_lists', case['cls'])
        run.note_nontrivial(('sshnames', case['cls'], tuple(case['names'])))
        for key, message in ssh_name_list_props(case):
            run.finding(key, message, case)
    for case in opaque_cases():
        run.evaluations += 1
        run.count('opaque_enums', case['cls'])
        run.note_nontrivial(('openum', case['cls'], case['data']))
        for key, message in opaque_case_props(case):
            run.finding(key, message, case)


def alias_props(run):
    """Distinct symbolic names never share a code unless the protocol assigns one number to both."""
    sanctioned = {('SshMessageCode', 31)}
    for name, e in sorted(int_enums().items()):
        seen = {}
        for n, m in e.__members__.items():
            if int(m) in seen and (name, int(m)) not in sanctioned:
                run.finding('alias', '{}.{} and {}.{} share code {}'.format(name, seen[int(m)], name, n, int(m)),
                            {'kind': 'alias', 'tbl': name, 'code': int(m)})
            seen.setdefault(int(m), n)
    for name, (f, e, k) in sorted(factories().items()):
        seen = {}
        for m in e:
            if m.value.code in seen:
                run.finding('alias', '{}: {} and {} share code {}'.format(name, seen[m.value.code], m.name, m.value.code),
                            {'kind': 'alias', 'tbl': name, 'code': m.value.code})
            seen.setdefault(m.value.code, m.name)


def search(run, proof):
    if run.tier != 'thorough':
        sub = core.Run(run.prop, 'thorough', run.seed + 1)
        sub.kf = run.kf
        globals()['run'](sub, driver_ok=False, deep=True)
        run.violations.extend(sub.violations)
        run.evaluations += sub.evaluations
        run.notes.append('failing-input search: all 1- and 2-byte code spaces of every factory on the implementation, '
                         '{} cases'.format(sub.evaluations))


def replay(case):
    if case.get('kind') == 'alias':
        r = core.Run('C10', 'quick', 0)
        alias_props(r)
        return [(k, m) for k, m, _ in r.violations]
    if case.get('kind') == 'vec':
        return vector_case_props(case)
    if case.get('kind') == 'openum':
        return opaque_case_props(case)
    if case.get('kind') == 'sshnames':
        return ssh_name_list_props(case)
    if case.get('kind') == 'pos':
        return position_replay(case)
    return Dispatch.prop(case)
