# -*- coding: utf-8 -*-
"""C16 — HASSH / HASSH-server and host-key fingerprints equal their definitions over the wire bytes."""
import base64
import hashlib
import struct

from harness import core, clsops
from harness.core import hx, unhx
from harness.props import c07  # noqa: F401  (regenerates Gen/Ssh.lean at import; reference encoders)

LEAN_MODULES = ['CpProps.C16']
RULE = ('KEXINIT: N generated objects (quick 150, thorough 1500; known and unknown names, empty lists, language tags), '
        'their composed payloads, 4 mutations each and a hand-written corpus (trailing comma, empty names, truncation); '
        'for every accepted payload the implementation\'s hassh / hassh_server must equal hashlib.md5 of the MODEL\'s '
        'preimages, of the SPECIFICATION\'s preimages (Lean, sliced from the wire) and of an independent Python '
        'slicing of the wire bytes.  Host keys: N generated RSA/DSS/ECDSA/EdDSA keys (quick 80, thorough 600): the '
        'model\'s key blob must equal key_bytes; SHA256/SHA1/MD5 fingerprints and known_hosts of the implementation '
        'must equal the model\'s and the specification\'s renderings (Lean) of hashlib digests of that blob, and an '
        'independent Python computation from the wire blob.  Non-trivial: payload/blob not all zero; distinct: bytes.')
ASSUMPTIONS = ['hashlib.md5 / sha1 / sha256 and base64 of CPython are the hash and transfer-encoding functions the '
               'definitions name (the theorems hold for every digest function H)']
TRUSTED_EXTRA = c07.TRUSTED_EXTRA


def md5hex(b):
    return hashlib.md5(bytes(b)).hexdigest()


def wire_hassh(payload):
    """independent slicing of a KEXINIT payload: (client preimage, server preimage) or None when the ten
    name-list strings are not all there"""
    b = bytes(payload)
    if len(b) < 17 or b[0] != 20:
        return None
    pos = 17
    strs = []
    for _ in range(10):
        if pos + 4 > len(b):
            return None
        n = struct.unpack('>I', b[pos:pos + 4])[0]
        if pos + 4 + n > len(b):
            return None
        strs.append(b[pos + 4:pos + 4 + n])
        pos += 4 + n
    return b';'.join([strs[0], strs[2], strs[4], strs[6]]), b';'.join([strs[0], strs[3], strs[5], strs[7]])


class HasshOracle(object):
    """case {'kind':'hassh','data':hex payload}"""

    @staticmethod
    def lines(case):
        return ['HS ' + case['data']]

    @staticmethod
    def _impl(case):
        from cryptoparser.ssh.subprotocol import SshKeyExchangeInit
        return SshKeyExchangeInit.parse_immutable(unhx(case['data']))

    @classmethod
    def impl(cls, case):
        def fmt(res):
            obj, n = res
            try:
                clsops.canon_text(clsops.modelled()['SshKeyExchangeInit'][1], obj)
            except Exception:  # pylint: disable=broad-except
                return 'UNMODELLED'
            return 'OK {} {} {}'.format(n, obj.hassh, obj.hassh_server)
        return [core.outcome(lambda: cls._impl(case), fmt)]

    @classmethod
    def prop(cls, case):
        """implementation vs an independent computation from the wire bytes"""
        try:
            obj, _ = cls._impl(case)
        except Exception:  # pylint: disable=broad-except
            return []
        wire = wire_hassh(unhx(case['data']))
        if wire is None:
            return [('hassh-accepted-without-strings', 'KEXINIT {} accepted but its ten name-list strings are not on the wire'.format(
                case['data'][:200]))]
        bad = []
        for label, got, pre in (('hassh', obj.hassh, wire[0]), ('hassh_server', obj.hassh_server, wire[1])):
            if got != md5hex(pre):
                trailing = any(s.endswith(b',') for s in pre.split(b';'))
                key = 'hassh-trailing-comma' if trailing else 'hassh-differs-from-wire:' + label
                bad.append((key, '{} of KEXINIT {} is {} but md5 of the wire strings {!r} is {}'.format(
                    label, case['data'][:160], got, pre[:120], md5hex(pre))))
                break
        return bad


def hassh_same(model_line, impl_line):
    """model: OK n <client preimage> <server preimage> <spec client> <spec server>; impl: OK n <hassh> <hassh_server>"""
    if model_line.startswith('UNMODELLED') or impl_line.startswith('UNMODELLED'):
        return True
    m = model_line.split(' ')
    r = impl_line.split(' ')
    if m[0] != 'OK' or r[0] != 'OK':
        return model_line == impl_line
    if len(m) != 6 or len(r) != 4 or m[1] != r[1]:
        return False
    if md5hex(unhx(m[2])) != r[2] or md5hex(unhx(m[3])) != r[3]:
        return False
    # the specification's preimage (Lean, sliced from the wire) must agree as well
    for spec, got in ((m[4], r[2]), (m[5], r[3])):
        if spec == 'NONE' or md5hex(unhx(spec)) != got:
            return False
    return True


FP = (('SHA256', hashlib.sha256), ('SHA1', hashlib.sha1), ('MD5', hashlib.md5))


class KeyOracle(object):
    """case {'kind':'key','data':hex blob}"""

    @staticmethod
    def _impl(case):
        from cryptoparser.ssh.key import SshHostPublicKeyVariant
        return SshHostPublicKeyVariant.parse_immutable(unhx(case['data']))

    @staticmethod
    def _known_hosts(key):
        """`known_hosts` of host_key_asdict(); None when cryptodatahub refuses to describe the key (its
        PublicKeySize validator rejects e.g. a zero modulus) — that observer is outside this property"""
        try:
            return key.host_key_asdict()['known_hosts']
        except Exception:  # pylint: disable=broad-except
            return None

    @classmethod
    def lines(cls, case):
        out = ['SK ' + case['data']]
        try:
            key, _ = cls._impl(case)
            blob = bytes(key.key_bytes)
        except Exception:  # pylint: disable=broad-except
            return out
        for label, fn in FP:
            out.append('FE {} {}'.format(label, hx(fn(blob).digest())))
        if cls._known_hosts(key) is not None:
            out.append('KH ' + hx(blob))
        return out

    @classmethod
    def impl(cls, case):
        from cryptodatahub.common.algorithm import Hash
        try:
            key, n = cls._impl(case)
            text = clsops.canon_text(clsops.modelled()['SshHostPublicKeyVariant'][1], key)
            blob = bytes(key.key_bytes)
        except Exception as exc:  # pylint: disable=broad-except
            return [core.err_line(exc)]
        first = 'UNMODELLED' if text == 'UNMODELLED' else 'OK {} {} {}'.format(n, text, hx(blob))
        out = [first]
        fps = key.fingerprints
        for label, hash_type in (('SHA256', Hash.SHA2_256), ('SHA1', Hash.SHA1), ('MD5', Hash.MD5)):
            t = hx(fps[hash_type].encode('ascii'))
            out.append('OK {} {}'.format(t, t))
        kh = cls._known_hosts(key)
        if kh is not None:
            kh = hx(kh.encode('ascii'))
            out.append('OK {} {}'.format(kh, kh))
        return out

    @classmethod
    def prop(cls, case):
        from cryptodatahub.common.algorithm import Hash
        try:
            key, n = cls._impl(case)
        except Exception:  # pylint: disable=broad-except
            return []
        if not case.get('canonical'):
            return []
        wire = unhx(case['data'])[:n]
        bad = []
        fps = key.fingerprints
        want = {
            Hash.SHA2_256: 'SHA256:' + base64.b64encode(hashlib.sha256(wire).digest()).decode('ascii'),
            Hash.SHA1: 'SHA1:' + base64.b64encode(hashlib.sha1(wire).digest()).decode('ascii'),
            Hash.MD5: 'MD5:' + ':'.join('{:02x}'.format(x) for x in hashlib.md5(wire).digest()),
        }
        for hash_type, text in want.items():
            if fps.get(hash_type) != text:
                bad.append(('fingerprint:' + hash_type.name, 'key {}: fingerprint {} but the definition over the wire blob gives {}'.format(
                    case['data'][:120], fps.get(hash_type), text)))
        if list(fps.keys()) != [Hash.SHA2_256, Hash.SHA1, Hash.MD5]:
            bad.append(('fingerprint-set', 'fingerprints has keys {}'.format(list(fps.keys()))))
        kh = cls._known_hosts(key)
        if kh is not None and kh != base64.b64encode(wire).decode('ascii'):
            bad.append(('known-hosts', 'key {}: known_hosts {} is not the base64 of the wire blob'.format(case['data'][:120], kh[:80])))
        return bad


def key_same(model_line, impl_line):
    if model_line.startswith('UNMODELLED') or impl_line.startswith('UNMODELLED'):
        return True
    return model_line == impl_line


class Dispatch(object):
    @staticmethod
    def lines(case):
        return (HasshOracle if case['kind'] == 'hassh' else KeyOracle).lines(case)

    @staticmethod
    def impl(case):
        return (HasshOracle if case['kind'] == 'hassh' else KeyOracle).impl(case)

    @staticmethod
    def prop(case):
        return (HasshOracle if case['kind'] == 'hassh' else KeyOracle).prop(case)


def same(model_line, impl_line):
    if model_line.startswith('OK') and len(model_line.split(' ')) == 6:
        return hassh_same(model_line, impl_line)
    return key_same(model_line, impl_line)


def hassh_corpus():
    u32, nl = c07.r_u32, c07.r_namelist

    def kex(lists, tail=b'\x00' + b'\x00' * 4):
        return bytes([20]) + bytes(range(16)) + b''.join(lists) + tail

    empty = nl([])
    base = [nl([b'curve25519-sha256', b'x@y']), nl([b'ssh-rsa']), nl([b'aes128-ctr']), nl([b'aes256-ctr', b'zz']),
            nl([b'hmac-sha2-256']), nl([b'hmac-sha1']), nl([b'none']), nl([b'none', b'zlib']), empty, empty]
    out = [kex(base), kex([empty] * 10), kex(base, b'\x01\x00\x00\x00\x00'), kex(base)[:-1], kex(base) + b'\x99']
    trailing = list(base)
    trailing[0] = c07.r_string(b'curve25519-sha256,')
    out.append(kex(trailing))
    trailing = list(base)
    trailing[6] = c07.r_string(b'none,')
    out.append(kex(trailing))
    for bad in (c07.r_string(b'a,,b'), c07.r_string(b',a'), c07.r_string(b'a\xffb'), u32(100) + b'abc', c07.r_string(b','), c07.r_string(b'a b')):
        broken = list(base)
        broken[2] = bad
        out.append(kex(broken))
    langs = list(base)
    langs[8] = nl([b'en-US', b'de'])
    out.append(kex(langs))
    return out


def run(run, driver_ok=True, deep=False):  # pylint: disable=redefined-outer-name
    from harness import gen_ssh, clsrun
    tier = 'thorough' if deep else run.tier
    cases = []
    n_kex = 1500 if tier == 'thorough' else 150
    for _ in range(n_kex):
        data = bytes(gen_ssh.kexinit(run.rng).compose())
        cases.append({'kind': 'hassh', 'data': hx(data)})
        for m in clsrun.mutations(run.rng, data, 4, length_offsets=(17, 18, 19, 20)):
            cases.append({'kind': 'hassh', 'data': hx(m)})
    for data in hassh_corpus():
        cases.append({'kind': 'hassh', 'data': hx(data)})
    n_key = 600 if tier == 'thorough' else 80
    for _ in range(n_key):
        data = bytes(gen_ssh.host_key(run.rng).compose())
        cases.append({'kind': 'key', 'data': hx(data), 'canonical': True})
        cases.append({'kind': 'key', 'data': hx(data + b'\x00\x01'), 'canonical': True})
        for m in clsrun.mutations(run.rng, data, 2):
            cases.append({'kind': 'key', 'data': hx(m)})
    # key parameters at the mpint sign boundary: a first octet of exactly 0x80 (0x81, 0xff) without a zero pad is the
    # canonical encoding of a NEGATIVE number; the blob must come back octet for octet
    for data in sign_boundary_keys(run.rng, 60 if tier == 'thorough' else 12):
        cases.append({'kind': 'key', 'data': hx(data), 'canonical': True})
    # certificates (rare among host_key()): every v01 class, with critical options and extensions
    n_cert = 150 if tier == 'thorough' else 25
    for kind in ('RSA', 'DSS', 'ECDSA', 'EDDSA'):
        gen = gen_ssh.certificate(kind)
        for _ in range(n_cert):
            try:
                data = bytes(gen(run.rng).compose())
            except Exception as exc:  # pylint: disable=broad-except
                run.count('generator_errors', '{}:{}'.format(kind, type(exc).__name__))
                continue
            run.count('certificates', kind)
            cases.append({'kind': 'key', 'data': hx(data), 'canonical': True})
    # certificates with out-of-the-ordinary validity instants (beyond 2^32, at and beyond 9999-12-31, the sentinel):
    # whatever is accepted must keep the fingerprint of the blob on the wire
    for name, gen in getattr(gen_ssh, 'RAW_INPUTS', []):
        for _ in range(n_cert):
            try:
                data = bytes(gen(run.rng))
            except Exception as exc:  # pylint: disable=broad-except
                run.count('generator_errors', '{}:{}'.format(name, type(exc).__name__))
                continue
            run.count('raw_certificates', name)
            cases.append({'kind': 'key', 'data': hx(data), 'canonical': True})
    for c in cases:
        run.count('ops', c['kind'])
        if c['data'].strip('0-'):
            run.note_nontrivial((c['kind'], c['data']))
    run.sample(cases[0])
    run.sample(cases[-1])
    run.sample(cases[len(cases) // 2])
    if driver_ok:
        core.correspond(run, Dispatch, cases, compare=same)
    else:
        for case in cases:
            run.evaluations += 1
            for key, message in Dispatch.prop(case):
                run.finding(key, message, case)
    run.notes.append('OpenSSH prints SHA256/SHA1 fingerprints without the trailing "=" padding; the implementation (and '
                     'its pinned tests) keep the padding — the definition checked here is RFC 4648 base 64 with padding')


def sign_boundary_keys(rng, n):
    import struct

    def string(b):
        return struct.pack('>I', len(b)) + b

    def mpint_octets(first, length):
        rest = bytearray(rng.getrandbits(8) | 1 for _ in range(length - 1))
        if rest and first == 0xff:
            rest[0] &= 0x7f         # ff followed by an octet >= 0x80 would be an unnecessary leading 255 (RFC 4251)
        if rest and first == 0x00:
            rest[0] |= 0x80
        return bytes([first]) + bytes(rest)

    out = []
    for _ in range(n):
        first = rng.choice([0x80, 0x80, 0x81, 0xff, 0x7f])
        which = rng.randrange(4)
        params = [mpint_octets(first if i == which else 0x5a, rng.choice([20, 64, 128])) for i in range(4)]
        out.append(string(b'ssh-dss') + b''.join(string(p) for p in params))
        e = mpint_octets(first if which % 2 == 0 else 0x01, rng.choice([1, 3, 5]))
        nn = mpint_octets(first if which % 2 == 1 else 0x5a, rng.choice([64, 129, 256]))
        out.append(string(b'ssh-rsa') + string(e) + string(nn))
    return out


def search(run, proof):  # pylint: disable=redefined-outer-name,unused-argument
    if run.tier != 'thorough':
        sub = core.Run(run.prop, 'thorough', run.seed + 1)
        sub.kf = run.kf
        globals()['run'](sub, driver_ok=False, deep=True)
        run.violations.extend(sub.violations)
        run.evaluations += sub.evaluations
        run.notes.append('failing-input search: thorough generation on the implementation, {} evaluations'.format(sub.evaluations))


def replay(case):
    return Dispatch.prop(case)
