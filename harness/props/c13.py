# -*- coding: utf-8 -*-
"""C13 — observers are pure and objects never share state with inputs or each other."""
import enum
import importlib
import inspect
import pkgutil

from harness import core, clsrun, clsops, canon, gen_tls
from harness.core import hx

LEAN_MODULES = ['CpProps.C13']
RULE = ('(a) every observer the object offers (compose, ja3, hassh, hassh_server, fingerprints, key_tag, as_json, '
        'as_markdown, host_key_asdict) is called twice and in shuffled order on generated objects of every modelled class '
        'and on client hellos whose cipher-suite vector is full (compose fails at the size bound); a canonical deep '
        'rendering taken before must equal the one after and results must repeat. (b) every attrs field with a default '
        'of every class is probed for a mutable class-level object stored without copy (the same table is the input of '
        'the Lean theorem). (c) every generated encoding is parsed from a bytearray which is then overwritten and '
        'truncated; the parsed object must not change; parse_mutable must return what parse_immutable returns; every container '
        'of a second object parsed from the same bytes, and every default-valued container of a default-constructed instance, '
        'is edited in place and the first object / a second and a later default-constructed instance must not move. '
        'Non-trivial: object with a mutable part; distinct: (class, bytes).')
ASSUMPTIONS = ['(c) buffer aliasing is Python object identity: monitored on the real code, not a proof obligation']

OBSERVERS = ['compose', 'ja3', 'as_json', 'as_markdown', 'host_key_asdict']
PROPERTIES = ['hassh', 'hassh_server', 'fingerprints', 'key_tag', 'key_bytes', 'known_hosts']


def observe(obj, name):
    try:
        attr_ = getattr(obj, name)
    except AttributeError:
        return None
    except Exception as exc:  # pylint: disable=broad-except
        return 'EXC ' + type(exc).__name__
    try:
        res = attr_() if callable(attr_) else attr_
    except Exception as exc:  # pylint: disable=broad-except
        return 'EXC ' + type(exc).__name__
    if isinstance(res, (bytes, bytearray)):
        return 'b' + hx(res)
    return canon.generic(res) if not isinstance(res, str) else res


def observer_purity(run, name, obj, case):
    before = canon.generic(obj)
    names = [n for n in OBSERVERS + PROPERTIES if hasattr(type(obj), n)]
    first = {}
    for n in names:
        first[n] = observe(obj, n)
        if canon.generic(obj) != before:
            run.finding('observer-mutates:{}:{}'.format(name, n),
                        '{}.{} changed the object: {} -> {}'.format(name, n, before[:200], canon.generic(obj)[:200]), case)
            return
    order = list(names)
    run.rng.shuffle(order)
    for n in order:
        again = observe(obj, n)
        if again != first[n]:
            run.finding('observer-unstable:{}:{}'.format(name, n),
                        '{}.{} returned a different result the second time'.format(name, n), case)
        if canon.generic(obj) != before:
            run.finding('observer-mutates:{}:{}'.format(name, n),
                        '{}.{} changed the object on the second call'.format(name, n), case)
            return
    run.count('observers', name, len(names))


def full_vector_hello(run):
    """compose fails at the size bound: the object must still be unchanged"""
    from cryptoparser.tls.subprotocol import TlsHandshakeClientHello
    from cryptodatahub.tls.algorithm import TlsCipherSuite
    members = list(TlsCipherSuite)
    for n, fb, rn in ((32767, True, False), (32766, True, True), (32767, False, True), (32766, False, True), (32767, True, True)):
        suites = [members[i % len(members)] for i in range(n)]
        h = TlsHandshakeClientHello(suites, fallback_scsv=fb, empty_renegotiation_info_scsv=rn)
        case = {'kind': 'full-hello', 'n': n, 'fb': fb, 'rn': rn}
        run.evaluations += 1
        before = (len(h.cipher_suites), h.cipher_suites._items_size, [c.value.code for c in h.cipher_suites[-3:]])  # pylint: disable=protected-access
        r1 = observe(h, 'compose')
        r2 = observe(h, 'compose')
        after = (len(h.cipher_suites), h.cipher_suites._items_size, [c.value.code for c in h.cipher_suites[-3:]])  # pylint: disable=protected-access
        if before != after:
            run.finding('observer-mutates:TlsHandshakeClientHello:compose',
                        'compose() on a hello with {} suites fallback={} reneg={} ({}) changed cipher_suites: {} -> {}'.format(
                            n, fb, rn, r1[:40], before, after), case)
        if r1 != r2:
            run.finding('observer-unstable:TlsHandshakeClientHello:compose', 'compose() result differs between calls', case)
        run.note_nontrivial(('full-hello', n, fb, rn))


def full_hello_replay(case):
    r = core.Run('C13', 'quick', 0)
    full_vector_hello(r)
    return [(k, m) for k, m, _ in r.violations]


def failing_observer_probe(run):
    """objects whose compose() has to fail (a field combination without encoding): the failure must leave the object
    as it was, and must repeat - an observer that 'repairs' the object on the way is not pure"""
    import copy
    from cryptoparser.tls import mysql, openvpn
    builders = {
        'mysql-plugin-auth-without-name': lambda: mysql.MySQLHandshakeV10(
            mysql.MySQLVersion.MYSQL_10, '8.0.1', 7, b'12345678', {mysql.MySQLCapability.CLIENT_PLUGIN_AUTH}),
        'mysql-plugin-auth-data2-without-name': lambda: mysql.MySQLHandshakeV10(
            mysql.MySQLVersion.MYSQL_10, '8.0.1', 7, b'12345678',
            {mysql.MySQLCapability.CLIENT_PLUGIN_AUTH, mysql.MySQLCapability.CLIENT_SSL}, auth_plugin_data_2=b'0123456789abc'),
        'openvpn-acks-without-remote-session': lambda: openvpn.OpenVpnPacketAckV1(1, None, [5, 6]),
        'openvpn-remote-session-without-acks': lambda: openvpn.OpenVpnPacketControlV1(1, [], 9, 3, b'payload'),
    }
    for label, build in builders.items():
        case = {'kind': 'failing-observer', 'name': label}
        run.evaluations += 1
        for key, msg in failing_observer_case(case, build):
            run.finding(key, msg, case)


def failing_observer_case(case, build=None):
    from cryptoparser.tls import mysql, openvpn
    if build is None:
        build = {
            'mysql-plugin-auth-without-name': lambda: mysql.MySQLHandshakeV10(
                mysql.MySQLVersion.MYSQL_10, '8.0.1', 7, b'12345678', {mysql.MySQLCapability.CLIENT_PLUGIN_AUTH}),
            'mysql-plugin-auth-data2-without-name': lambda: mysql.MySQLHandshakeV10(
                mysql.MySQLVersion.MYSQL_10, '8.0.1', 7, b'12345678',
                {mysql.MySQLCapability.CLIENT_PLUGIN_AUTH, mysql.MySQLCapability.CLIENT_SSL}, auth_plugin_data_2=b'0123456789abc'),
            'openvpn-acks-without-remote-session': lambda: openvpn.OpenVpnPacketAckV1(1, None, [5, 6]),
            'openvpn-remote-session-without-acks': lambda: openvpn.OpenVpnPacketControlV1(1, [], 9, 3, b'payload'),
        }[case['name']]
    try:
        obj = build()
    except Exception:  # pylint: disable=broad-except
        return []       # refused at construction
    name = type(obj).__name__
    before = canon.generic(obj)
    results = []
    for _ in range(3):
        results.append(observe(obj, 'compose'))
        if canon.generic(obj) != before:
            return [('observer-mutates:{}:compose'.format(name),
                     '{} ({}): compose() changed the object: {} -> {}'.format(name, case['name'], before[:200], canon.generic(obj)[:200]))]
    if len(set(results)) != 1:
        return [('observer-unstable:{}:compose'.format(name), '{} ({}): compose() gave {} on repeated calls'.format(
            name, case['name'], results))]
    return []


def shared_defaults(run):
    """(b) the probe that also feeds lean/CpModel/Gen/Defaults.lean, evaluated on the live classes"""
    import attr
    import cryptoparser
    from cryptoparser.common.base import ArrayBase
    mods = [importlib.import_module(m.name) for m in pkgutil.walk_packages(cryptoparser.__path__, 'cryptoparser.')]
    seen = set()
    n = 0
    for mod in mods:
        for _, cls in sorted(vars(mod).items()):
            if not (inspect.isclass(cls) and cls.__module__.startswith('cryptoparser') and attr.has(cls)) or cls in seen:
                continue
            seen.add(cls)
            for field in attr.fields(cls):
                default = field.default
                if default is attr.NOTHING or isinstance(default, attr.Factory):
                    continue
                mutable = (isinstance(default, (list, dict, set, bytearray, ArrayBase)) or
                           (attr.has(type(default)) and not isinstance(default, enum.Enum) and
                            not type(default).__module__.startswith('attr')))
                if not mutable:
                    continue
                n += 1
                run.evaluations += 1
                stored = default
                if field.converter is not None:
                    try:
                        stored = field.converter(default)
                    except Exception:  # pylint: disable=broad-except
                        stored = default
                if stored is default:
                    run.finding('shared-default:{}.{}'.format(cls.__name__, field.name),
                                '{}.{}: every default-constructed instance stores the same {} object'.format(
                                    cls.__name__, field.name, type(default).__name__),
                                {'kind': 'shared-default', 'cls': cls.__name__, 'field': field.name})
    run.count('defaults', 'mutable_defaults_probed', n)
    # dynamic confirmation on classes that can be built without arguments
    from cryptoparser.tls.extension import TlsExtensionRenegotiationInfo, TlsExtensionSessionTicket
    a, b = TlsExtensionRenegotiationInfo(), TlsExtensionRenegotiationInfo()
    a.renegotiated_connection.append(7)
    if list(b.renegotiated_connection) or list(TlsExtensionRenegotiationInfo().renegotiated_connection):
        run.finding('shared-default:TlsExtensionRenegotiationInfo.renegotiated_connection',
                    'appending to one instance changed another / the default', {'kind': 'shared-default-dyn', 'cls': 'reneg'})
    a, b = TlsExtensionSessionTicket(), TlsExtensionSessionTicket()
    a.session_ticket += b'x'
    if bytes(b.session_ticket) or bytes(TlsExtensionSessionTicket().session_ticket):
        run.finding('shared-default:TlsExtensionSessionTicket.session_ticket',
                    'extending one instance changed another / the default', {'kind': 'shared-default-dyn', 'cls': 'ticket'})
    run.evaluations += 2


def _containers(obj, depth=0, seen=None):
    """mutable containers reachable through the attrs fields of obj (the object's own state)"""
    import attr
    from cryptoparser.common.base import ArrayBase
    if seen is None:
        seen = set()
    if id(obj) in seen or depth > 4:
        return
    seen.add(id(obj))
    if isinstance(obj, (ArrayBase, list, set, bytearray, dict)):
        yield obj
    if isinstance(obj, (ArrayBase, list, tuple)):
        for item in list(obj)[:8]:
            for c in _containers(item, depth + 1, seen):
                yield c
    if attr.has(type(obj)) and not isinstance(obj, enum.Enum):
        for f in attr.fields(type(obj)):
            try:
                v = getattr(obj, f.name)
            except Exception:  # pylint: disable=broad-except
                continue
            for c in _containers(v, depth + 1, seen):
                yield c


def _mutate(container):
    """one in-place edit; True when something changed"""
    from cryptoparser.common.base import ArrayBase
    try:
        if isinstance(container, ArrayBase):
            n = len(container)
            for cand in ([container[0]] if n else []) + [0, 1, b'\x00']:
                try:
                    container.append(cand)
                    return True
                except Exception:  # pylint: disable=broad-except
                    continue
            if n:
                del container[0]
                return True
            return False
        if isinstance(container, list):
            container.append(container[0] if container else 0)
            return True
        if isinstance(container, set):
            if container:
                container.pop()
            else:
                container.add(0)
            return True
        if isinstance(container, bytearray):
            container.extend(b'\xa5')
            return True
        if isinstance(container, dict):
            if container:
                container.pop(next(iter(container)))
                return True
            return False
    except Exception:  # pylint: disable=broad-except
        return False
    return False


def state_independence(run, name, cls, obj, data, case):
    """(b) on the real code: two objects parsed from the same bytes, and two objects constructed with default
    arguments, share no state - an in-place edit of every container of one (for the constructed pair: of every
    container reached through a field that took its default) is invisible through the other and through a later
    default-constructed instance"""
    import attr
    try:
        twin = cls.parse_immutable(bytes(data))[0]
    except Exception:  # pylint: disable=broad-except
        twin = None
    if twin is not None and twin is not obj:
        before = canon.generic(obj)
        changed = sum(1 for c in list(_containers(twin)) if _mutate(c))
        if changed and canon.generic(obj) != before:
            run.finding('shared-state:{}:parsed-twin'.format(name),
                        '{}: an in-place edit of an object parsed from the same bytes is visible through another '
                        'parsed object'.format(name), case)
    if not attr.has(type(obj)):
        return
    required = {}
    defaulted = []
    try:
        for f in attr.fields(type(obj)):
            if not f.init:
                continue
            if f.default is attr.NOTHING:
                required[f.name.lstrip('_')] = getattr(obj, f.name)
            else:
                defaulted.append(f.name)
        if not defaulted:
            return
        d1, d2 = type(obj)(**required), type(obj)(**required)
    except Exception:  # pylint: disable=broad-except
        return
    snap = canon.generic(d2)
    # defaults that are the same for two instances (random/time-dependent default factories are not comparable)
    stable = {}
    for fname in defaulted:
        try:
            a, b = canon.generic(getattr(d1, fname)), canon.generic(getattr(d2, fname))
        except Exception:  # pylint: disable=broad-except
            continue
        if a == b:
            stable[fname] = b
    changed = 0
    for fname in defaulted:
        try:
            value = getattr(d1, fname)
        except Exception:  # pylint: disable=broad-except
            continue
        changed += sum(1 for c in list(_containers(value)) if _mutate(c))
    if not changed:
        return
    run.count('state_independence', 'default_constructed_pairs_edited')
    if canon.generic(d2) != snap:
        run.finding('shared-state:{}:defaults'.format(name),
                    '{}: editing the default-valued containers of one default-constructed instance changed another '
                    'instance'.format(name), case)
        return
    try:
        fresh = type(obj)(**required)
    except Exception:  # pylint: disable=broad-except
        return
    for fname, want in stable.items():
        if canon.generic(getattr(fresh, fname)) != want:
            run.finding('shared-state:{}:defaults'.format(name),
                        '{}.{}: editing one default-constructed instance changed the default a later instance gets'.format(
                            name, fname), case)
            return


def aliasing(run, name, cls, data, case):
    buf = bytearray(data)
    try:
        obj, n = cls.parse_immutable(buf)
    except Exception:  # pylint: disable=broad-except
        return
    snap = canon.generic(obj)
    for i in range(len(buf)):
        buf[i] ^= 0xff
    del buf[len(buf) // 2:]
    if canon.generic(obj) != snap:
        run.finding('alias-input:{}'.format(name), '{}: the parsed object changed when the input buffer was overwritten'.format(name), case)
        return
    buf2 = bytearray(data)
    try:
        obj2 = cls.parse_mutable(buf2)
    except Exception:  # pylint: disable=broad-except
        return
    if canon.generic(obj2) != snap:
        run.finding('alias-input:{}'.format(name),
                    '{}: parse_mutable returned {} but parse_immutable {} (object aliases the buffer that is being consumed)'.format(
                        name, canon.generic(obj2)[:120], snap[:120]), case)
    buf2[:] = b'\x00' * len(buf2)
    if canon.generic(obj2) != snap:
        run.finding('alias-input:{}'.format(name), '{}: object changed after the caller reused its buffer'.format(name), case)


def run(run, driver_ok=True, deep=False):
    tier = 'thorough' if deep else run.tier
    per_class = 25 if tier == 'quick' else 500
    from cryptoparser.tls.subprotocol import TlsApplicationDataMessage
    gens = clsrun.all_generators() + [('TlsApplicationDataMessage',
                                       lambda r: TlsApplicationDataMessage(bytearray(gen_tls.rbytes(r, gen_tls.rlen(r, 60)))))]
    modelled = clsops.modelled()
    for name, gen in gens:
        for _ in range(per_class):
            try:
                obj = gen(run.rng)
                data = bytes(obj.compose())
            except Exception as exc:  # pylint: disable=broad-except
                run.count('generator_errors', '{}:{}'.format(name, type(exc).__name__))
                continue
            case = {'kind': 'obj', 'cls': name, 'data': hx(data)}
            run.evaluations += 1
            run.count('classes', name)
            run.note_nontrivial((name, case['data']))
            if len(run.samples) < 4:
                run.sample(case)
            observer_purity(run, name, obj, case)
            cls = modelled[name][0] if name in modelled else type(obj)
            aliasing(run, name, cls, data, case)
            state_independence(run, name, cls, obj, data, case)
    full_vector_hello(run)
    failing_observer_probe(run)
    shared_defaults(run)
    run.notes.append('(c) aliasing and (a) mutation monitors run on the real code; (b) is the proof obligation')


def search(run, proof):
    run.notes.append('failing-input search: the monitors above already evaluate the property on the implementation')


def replay(case):
    r = core.Run('C13', 'quick', 0)
    if case.get('kind') == 'full-hello':
        return full_hello_replay(case)
    if case.get('kind') == 'failing-observer':
        return failing_observer_case(case)
    if case.get('kind', '').startswith('shared-default'):
        shared_defaults(r)
        return [(k, m) for k, m, _ in r.violations + [(k, v[2], v[1]) for k, v in r.known_hits.items()]]
    if case.get('kind') == 'obj':
        modelled = clsops.modelled()
        cls = modelled[case['cls']][0]
        data = core.unhx(case['data'])
        obj = cls.parse_exact_size(data)
        observer_purity(r, case['cls'], obj, case)
        aliasing(r, case['cls'], cls, data, case)
        return [(k, m) for k, m, _ in r.violations]
    return []
