# -*- coding: utf-8 -*-
"""C12 — length-prefixed vectors stay within bounds through any edit sequence.

One case is one edit history on one vector class of the live code:

    {'kind': 'hist', 'cls': '<module>:<ClassName>', 'bounds': null | [min, max],
     'init': [pool index, ...], 'ops': [[opcode, arg, ...], ...]}

Items are referred to by their index in the class's deterministic item pool (`pool_for`).  'bounds'
narrows min_byte_num/max_byte_num on a throw-away subclass (the edit code under test is `ArrayBase`'s
and is shared by all classes), so that histories of a dozen operations touch both bounds of every
class; with 'bounds' null the class runs with the parameters the protocol gives it.

opcodes:  A x | I i x | E [xs] | P [xs] (+=) | EV (extend(self)) | PV (v += v) | O i|None (pop) | R x (remove)
          D i (del v[i]) | DS a b st (del v[a:b:st]) | S i x (v[i] = x) | SS a b st [xs] (v[a:b:st] = xs)
          V (reverse) | C (clear)
"""
from __future__ import print_function

import importlib
import itertools
import multiprocessing
import pkgutil
import random

from harness import core

LEAN_MODULES = ['CpProps.C12']
RULE = ('every concrete ArrayBase subclass of the live code for which items can be built generically is driven, with its '
        'own parameters and with narrowed bounds (throw-away subclass), through seeded edit histories: random mixes of '
        'append/insert/extend/+=/pop/remove/del (int, slice)/item assignment (int, slice)/reverse/clear with int and slice '
        'positions in and out of range, negative, None, steps 0, +-1, +-2, +-3 and huge, extended slices of matching and '
        'mismatching length, self-aliasing extend; bound-seeking histories fill to the maximum (drain to the minimum) and '
        'then push. After EVERY operation the real vector is compared with a plain Python list (reference) and with the '
        'Lean model (outcome class and argument, item list, _items_size); the implementation-side oracle checks the '
        'property itself (items == reference, refusal changes nothing, _items_size == sum(get_item_size), bounds, '
        'compose() prefix == body length, body length within bounds). quick: ~3000 histories of <= 12 ops; thorough: '
        '~100000 histories of <= 40 ops plus all histories of length <= 3 over a fixed operation alphabet on one class '
        'per kind. A history is non-trivial when at least one operation is accepted and at least one is refused.')
ASSUMPTIONS = [
    'the size get_item_size reports for an item does not change while the item is in a vector (items are not mutated)',
    'prefix_fits is proved for bodies that are the plain concatenation of item encodings whose length is get_item_size; '
    'for VectorEnumCodeString (per-item length byte) and VectorString (separators) the body is longer than _items_size, '
    'the Lean file proves that the full statement fails there (prefix_fits_full_fails) and the harness checks the exact '
    'body length formula on the real code',
]

QUICK_HISTORIES = 3000
QUICK_OPS = 12
THOROUGH_HISTORIES = 100000
THOROUGH_OPS = 40

# --------------------------------------------------------------------------------------------------------------------
# discovery of the vector classes and generic item construction


def _import_all():
    import cryptoparser
    for m in pkgutil.walk_packages(cryptoparser.__path__, 'cryptoparser.'):
        importlib.import_module(m.name)


def _all_sub(cls):
    out = []
    for s in cls.__subclasses__():
        if s not in out:
            out.append(s)
        for x in _all_sub(s):
            if x not in out:
                out.append(x)
    return out


_CLASSES = None
_SKIPPED = None
_POOLS = {}
_NARROW = {}
_UNCOMPARABLE = []


def class_kind(cls):
    for b in cls.__mro__[1:]:
        if b.__module__ == 'cryptoparser.common.base' and b.__name__ in (
                'Vector', 'Opaque', 'VectorString', 'VectorEnumCodeNumeric', 'VectorEnumCodeString', 'VectorParsable',
                'VectorParsableDerived', 'ListParsable'):
            return b.__name__
    return 'ArrayBase'


def class_id(cls):
    return '{}:{}'.format(cls.__module__, cls.__name__)


def _dedupe(items):
    """Pairwise distinct under ==.  An item whose comparison with an earlier one raises is left out (the histories
    use remove/index, which compare items; a plain list would raise the same exception there)."""
    out = []
    for it in items:
        try:
            if not any((it is o) or (it == o) or (o == it) for o in out):
                out.append(it)
        except Exception:  # pylint: disable=broad-except
            _UNCOMPARABLE.append(repr(it)[:60])
    return out


def _parsable_items(item_class, fallback_class):
    """Items for VectorParsable-like vectors, by item class.  None: no generic construction known."""
    name = getattr(item_class, '__name__', str(item_class))
    if name == 'TlsCertificate':
        return [item_class(b''), item_class(b'a'), item_class(b'abc'), item_class(b'x' * 7), item_class(b'y' * 20)]
    if name == 'SshString':
        return [item_class(''), item_class('a'), item_class('root'), item_class('u' * 9)]
    if name in ('TlsDistinguishedName', 'TlsCertificateStatusRequestResponderId'):
        return [item_class([1]), item_class([1, 2]), item_class([3, 4, 5]), item_class(list(range(11)))]
    if name == 'TlsKeyShareEntry':
        from cryptodatahub.tls.algorithm import TlsNamedCurve
        g = list(TlsNamedCurve)
        return [item_class(g[0], b'k'), item_class(g[0], b'ke'), item_class(g[1], b'key'), item_class(g[2], b'z' * 10)]
    if name in ('TlsExtensionVariantClient', 'TlsExtensionVariantServer'):
        from cryptoparser.tls.grease import TlsInvalidTypeTwoByte
        return [fallback_class(TlsInvalidTypeTwoByte(0x0a0a), b''), fallback_class(TlsInvalidTypeTwoByte(0x0a0a), b'd'),
                fallback_class(TlsInvalidTypeTwoByte(0xfe00), b'data'), fallback_class(TlsInvalidTypeTwoByte(0xfe01), b'q' * 9)]
    if name in ('SshCertExtensionParsed', 'SshCertExtensionVariant', 'SshCertCriticalOptionVariant'):
        return [fallback_class('a', b''), fallback_class('ab', b'c'), fallback_class('name', b'value'),
                fallback_class('n' * 6, b'v' * 7)]
    if name == 'TlsProtocolVersion':
        from cryptodatahub.tls.version import TlsVersion
        from cryptoparser.tls.grease import TlsInvalidTypeTwoByte
        return [item_class(TlsVersion.TLS1_2), item_class(TlsVersion.TLS1_3), item_class(TlsVersion.TLS1),
                TlsInvalidTypeTwoByte(0x0a0a), TlsInvalidTypeTwoByte(0x7a7a)]
    if name == 'SignedCertificateTimestamp':
        import datetime
        from cryptodatahub.common.stores import CertificateTransparencyLog
        from cryptodatahub.tls.algorithm import TlsSignatureAndHashAlgorithm
        from cryptoparser.common.x509 import CtExtensions, CtVersion
        logs = list(CertificateTransparencyLog)
        alg = list(TlsSignatureAndHashAlgorithm)[0]
        when = datetime.datetime(2020, 1, 2, 3, 4, 5)
        return [item_class(list(CtVersion)[0], logs[i].value.log_id, when, CtExtensions([]), alg, sig)
                for i, sig in enumerate([[], [1], [1, 2, 3], list(range(10))])]
    if name == 'HttpHeaderFieldParsedVariant':
        return [fallback_class('X-A', ''), fallback_class('X-A', 'b'), fallback_class('X-Long', 'value'),
                fallback_class('Y', 'z' * 10)]
    return None


def build_pool(cls):
    """Deterministic list of items of the class, pairwise distinct under ==, or None."""
    import enum
    import ipaddress
    from cryptoparser.common import base
    p = cls.get_param()
    if isinstance(p, base.VectorParamNumeric):
        top = 256 ** p.item_size - 1
        items = [0, 1, 2, 7, top - 1, top]
        if p.numeric_class is not int and isinstance(p.numeric_class, type) and issubclass(p.numeric_class, enum.Enum):
            items = list(p.numeric_class)[:3] + items
        return _dedupe(items)
    if isinstance(p, base.VectorParamEnumCodeNumeric):
        members = list(p.item_class.get_enum_class())
        items = members[:4]
        if p.fallback_class is not None:
            k = p.fallback_class.get_byte_num()
            grease = 0x0a if k == 1 else 0x0a0a
            known = {m.value.code for m in members}
            unknown = next(c for c in range(256 ** k - 1, 0, -1) if c not in known and c != grease)
            items = items + [p.fallback_class(grease), p.fallback_class(unknown)]
        return _dedupe(items)
    if isinstance(p, base.VectorParamEnumCodeString):
        members = sorted(p.item_class.get_enum_class(), key=lambda m: (len(m.value.code), m.value.code))
        picks = [members[0], members[1], members[len(members) // 2], members[-2], members[-1]]
        return _dedupe(picks)
    if isinstance(p, base.VectorParamString):
        if p.item_class is ipaddress.ip_network:
            return [ipaddress.ip_network(u'10.0.0.0/8'), ipaddress.ip_network(u'192.168.1.0/24'),
                    ipaddress.ip_network(u'::1/128'), ipaddress.ip_network(u'0.0.0.0/0')]
        if getattr(p.item_class, '__name__', '') == 'LanguageTag':
            return [p.item_class('en'), p.item_class('en', ['US']), p.item_class('de', ['CH', '1996']), p.item_class('x')]
        if isinstance(p.item_class, type) and issubclass(p.item_class, enum.Enum):
            items = list(p.item_class)[:3]
            if p.fallback_class is str:
                items = items + [u'', u'a', u'bcd@example.com']
            return _dedupe(items)
        return None
    if isinstance(p, (base.VectorParamParsable, base.ListParamParsable)):
        items = _parsable_items(p.item_class, p.fallback_class)
        return None if items is None else _dedupe(items)
    return None


def vector_classes():
    """(usable classes, {class id: reason} for the skipped ones)"""
    global _CLASSES, _SKIPPED  # pylint: disable=global-statement
    if _CLASSES is not None:
        return _CLASSES, _SKIPPED
    from cryptoparser.common import base
    _import_all()
    usable, skipped = [], {}
    for cls in _all_sub(base.ArrayBase):
        if not cls.__module__.startswith('cryptoparser.'):
            continue
        try:
            param = cls.get_param()
        except NotImplementedError:
            continue        # abstract
        try:
            pool = build_pool(cls)
            if pool is None:
                skipped[class_id(cls)] = 'no generic item construction for {}'.format(
                    getattr(getattr(param, 'item_class', None), '__name__', type(param).__name__))
                continue
            for it in pool:
                if not isinstance(param.get_item_size(it), int):
                    raise TypeError('item size is not an int')
            _POOLS[class_id(cls)] = pool
            usable.append(cls)
        except Exception as e:  # pylint: disable=broad-except
            skipped[class_id(cls)] = 'item construction failed: {}: {}'.format(type(e).__name__, e)
    usable.sort(key=class_id)
    _CLASSES, _SKIPPED = usable, skipped
    return usable, skipped


def class_by_id(cid):
    for cls in vector_classes()[0]:
        if class_id(cls) == cid:
            return cls
    raise KeyError(cid)


def pool_for(cid):
    vector_classes()
    return _POOLS[cid]


def narrowed(cls, bounds):
    """Throw-away subclass whose parameter has other bounds (everything else, item_num_size included, as the original)."""
    key = (class_id(cls), tuple(bounds))
    if key not in _NARROW:
        import copy
        param = copy.copy(cls.get_param())
        param.min_byte_num, param.max_byte_num = int(bounds[0]), int(bounds[1])
        sub = type(cls.__name__ + 'Narrowed', (cls,), {'get_param': classmethod(lambda c, _p=param: _p)})
        sub.__module__ = 'harness.props.c12'
        _NARROW[key] = sub
    return _NARROW[key]


def framing(cls):
    """(per-item prefix width, separator length): how the body is longer than the sum of the item sizes."""
    kind = class_kind(cls)
    if kind == 'VectorEnumCodeString':
        # the per-item length byte is part of get_item_size (repaired in /repo: it used not to be counted,
        # so a body could exceed the ceiling although _items_size was within bounds)
        return 0, 0
    if kind == 'VectorString':
        return 0, len(cls.get_param().separator)
    return 0, 0


# --------------------------------------------------------------------------------------------------------------------
# execution of one history on the real vector, the reference list and (textually) the model


def _sl(v):
    return '~' if v is None else str(v)


def _outcome_of(exc):
    from cryptoparser.common.exception import NotEnoughData, TooMuchData
    if isinstance(exc, NotEnoughData):
        return 'NotEnoughData {}'.format(exc.bytes_needed)
    if isinstance(exc, TooMuchData):
        return 'TooMuchData {}'.format(exc.bytes_needed)
    if isinstance(exc, IndexError):
        return 'IndexError'
    if isinstance(exc, ValueError):
        return 'ValueError'
    return 'CRASH {}'.format(type(exc).__name__)


class Exec(object):
    """Runs a case once and keeps: model input line, implementation result line, findings, statistics."""

    def __init__(self, case, check_compose=True):
        self.case = case
        self.findings = []
        self.accepted = 0
        self.refused = 0
        self.errors = 0
        base_cls = class_by_id(case['cls'])
        self.base_cls = base_cls
        self.cls = narrowed(base_cls, case['bounds']) if case.get('bounds') else base_cls
        self.pool = pool_for(case['cls'])
        self.param = self.cls.get_param()
        self.tag_of = {id(it): i for i, it in enumerate(self.pool)}
        self.sizes = [self.param.get_item_size(it) for it in self.pool]
        self.check_compose = check_compose
        self.prefixless = False
        self.model_line = None
        self.impl_line = None
        self._run()

    # -- textual forms -------------------------------------------------------------------------------------------
    def _item(self, i):
        return '{}:{}'.format(i, self.sizes[i])

    def _items(self, idxs):
        return ','.join(self._item(i) for i in idxs) if idxs else '-'

    def _tags(self, seq):
        out = []
        for it in seq:
            t = self.tag_of.get(id(it))
            if t is None:      # an object that is not from the pool: find an equal one
                t = next((i for i, p in enumerate(self.pool) if p == it), -1)
            out.append(t)
        return out

    def _state(self, vec):
        return '[{}] {}'.format(','.join(str(t) for t in self._tags(list(vec))), vec._items_size)  # pylint: disable=protected-access

    def _bad(self, key, msg):
        if any(k == key for k, _ in self.findings):
            return      # one report per kind of failure and history
        self.findings.append((key, '{}{}: {}'.format(self.base_cls.__name__,
                                                     ' bounds {}'.format(self.case['bounds']) if self.case.get('bounds') else '', msg)))

    # -- the property on the real object -------------------------------------------------------------------------
    def _check_state(self, vec, ref, where):
        p = self.param
        items = list(vec)
        if len(items) != len(ref) or any(a is not b and a != b for a, b in zip(items, ref)):
            self._bad('items', '{}: vector holds {} but a plain list holds {}'.format(where, self._tags(items), self._tags(ref)))
        isz = vec._items_size  # pylint: disable=protected-access
        true_size = sum(p.get_item_size(it) for it in items)
        if isz != true_size:
            self._bad('drift', '{}: _items_size {} but the items sum to {}'.format(where, isz, true_size))
        if not p.min_byte_num <= isz <= p.max_byte_num:
            self._bad('bounds', '{}: _items_size {} outside [{}, {}]'.format(where, isz, p.min_byte_num, p.max_byte_num))
        if not self.check_compose:
            return
        try:
            composed = bytes(vec.compose())
        except Exception as e:  # pylint: disable=broad-except
            per_item, sep = framing(self.base_cls)
            body_len = true_size + per_item * len(items) + sep * max(len(items) - 1, 0)
            if body_len >= 256 ** max(p.item_num_size, 1) or body_len > p.max_byte_num:
                self._bad('body-exceeds-max', '{}: accepted items encode to a body of {} bytes (> max {}), compose() raises {}'.format(
                    where, body_len, p.max_byte_num, type(e).__name__))
            else:
                self._bad('compose-crash', '{}: compose() raises {}: {}'.format(where, type(e).__name__, str(e)[:80]))
            return
        k = p.item_num_size
        if k == 0:
            return      # ListParsable: no numeric length prefix
        per_item, sep = framing(self.base_cls)
        want = isz + per_item * len(items) + sep * max(len(items) - 1, 0)
        if 'compose' in self.base_cls.__dict__ and len(composed) == want:
            # the class composes its body without the prefix (fixed-size field, TlsHandshakeHelloRandomBytes)
            self.prefixless = True
            body = composed
        else:
            prefix, body = composed[:k], composed[k:]
            if int.from_bytes(prefix, 'big') != len(body):
                self._bad('prefix', '{}: length prefix {} but the body has {} bytes'.format(where, int.from_bytes(prefix, 'big'), len(body)))
        if len(body) != want:
            self._bad('body-size', '{}: body of {} bytes, expected {} (= _items_size {} + framing)'.format(where, len(body), want, isz))
        if self.case.get('bounds') is None and not p.min_byte_num <= len(body) <= p.max_byte_num:
            # with the protocol's own bounds: reachable only where get_item_size does not count the framing
            self._bad('body-exceeds-max' if len(body) > p.max_byte_num else 'body-below-min',
                      '{}: encoded body of {} bytes outside [{}, {}]'.format(where, len(body), p.min_byte_num, p.max_byte_num))

    # -- one operation ---------------------------------------------------------------------------------------------
    def _apply(self, vec, ref, op, n):
        """Applies op to the real vector and to the reference list.
        Returns (model op text, real outcome, reference outcome: new list or exception)."""
        pool = self.pool
        code = op[0]

        def both(f_vec, f_ref, text, popped=False):
            new_ref = list(ref)
            try:
                r = f_ref(new_ref)
                ref_out = ('ok', new_ref, r)
            except (IndexError, ValueError) as e:
                ref_out = (_outcome_of(e), None, None)
            try:
                r = f_vec(vec)
                out = 'popped {}'.format(self._tags([r])[0]) if popped else 'ok'
            except Exception as e:  # pylint: disable=broad-except
                out = _outcome_of(e)
            return text, out, ref_out

        def wrap(xs):       # extend/+=/slice assignment take any iterable
            vals = [pool[i] for i in xs]
            return (vals, tuple(vals), iter(vals))[n % 3]

        if code == 'A':
            return both(lambda v: v.append(pool[op[1]]), lambda l: l.append(pool[op[1]]), 'A/' + self._item(op[1]))
        if code == 'I':
            return both(lambda v: v.insert(op[1], pool[op[2]]), lambda l: l.insert(op[1], pool[op[2]]),
                        'I/{}/{}'.format(op[1], self._item(op[2])))
        if code == 'E':
            return both(lambda v: v.extend(wrap(op[1])), lambda l: l.extend([pool[i] for i in op[1]]), 'E/' + self._items(op[1]))
        if code == 'P':
            def iadd(v):
                v += wrap(op[1])
            return both(iadd, lambda l: l.extend([pool[i] for i in op[1]]), 'P/' + self._items(op[1]))
        if code == 'EV':
            cur = self._tags(ref)
            return both(lambda v: v.extend(v), lambda l: l.extend(list(l)), 'E/' + self._items(cur))
        if code == 'PV':
            cur = self._tags(ref)

            def iadd_self(v):
                v += v
            return both(iadd_self, lambda l: l.extend(list(l)), 'P/' + self._items(cur))
        if code == 'O':
            if op[1] is None:
                return both(lambda v: v.pop(), lambda l: l.pop(), 'O/~', popped=True)
            return both(lambda v: v.pop(op[1]), lambda l: l.pop(op[1]), 'O/{}'.format(op[1]), popped=True)
        if code == 'R':
            return both(lambda v: v.remove(pool[op[1]]), lambda l: l.remove(pool[op[1]]), 'R/' + self._item(op[1]))
        if code == 'D':
            def d(x):
                del x[op[1]]
            return both(d, d, 'D/{}'.format(op[1]))
        if code == 'DS':
            s = slice(op[1], op[2], op[3])

            def ds(x):
                del x[s]
            return both(ds, ds, 'DS/{}/{}/{}'.format(_sl(op[1]), _sl(op[2]), _sl(op[3])))
        if code == 'S':
            def st(x):
                x[op[1]] = pool[op[2]]
            return both(st, st, 'S/{}/{}'.format(op[1], self._item(op[2])))
        if code == 'SS':
            s = slice(op[1], op[2], op[3])

            def ss_vec(v):
                v[s] = wrap(op[4])

            def ss_ref(l):
                l[s] = [pool[i] for i in op[4]]
            return both(ss_vec, ss_ref, 'SS/{}/{}/{}/{}'.format(_sl(op[1]), _sl(op[2]), _sl(op[3]), self._items(op[4])))
        if code == 'V':
            return both(lambda v: v.reverse(), lambda l: l.reverse(), 'V')
        if code == 'C':
            def clr(l):
                del l[:]
            return both(lambda v: v.clear(), clr, 'C')
        raise ValueError('unknown opcode {!r}'.format(code))

    def _run(self):
        case = self.case
        p = self.param
        head = 'V {} {} {} '.format(p.min_byte_num, p.max_byte_num, self._items(case['init']))
        init_items = [self.pool[i] for i in case['init']]
        try:
            vec = self.cls(list(init_items))
        except Exception as e:  # pylint: disable=broad-except
            out = _outcome_of(e)
            self.impl_line = 'ERR ' + out
            self.model_line = head + '-'
            total = sum(self.sizes[i] for i in case['init'])
            want = 'NotEnoughData {}'.format(p.min_byte_num) if total < p.min_byte_num else (
                'TooMuchData {}'.format(p.max_byte_num) if total > p.max_byte_num else None)
            if out != want:
                self._bad('constructor', 'items of total size {} with bounds [{}, {}]: constructor gives {}'.format(
                    total, p.min_byte_num, p.max_byte_num, out))
            self.errors += 1
            return
        ref = list(init_items)
        total = sum(self.sizes[i] for i in case['init'])
        if not p.min_byte_num <= total <= p.max_byte_num:
            self._bad('constructor', 'items of total size {} accepted with bounds [{}, {}]'.format(
                total, p.min_byte_num, p.max_byte_num))
        self._check_state(vec, ref, 'after construction')
        entries = ['init ' + self._state(vec)]
        texts = []
        for n, op in enumerate(case['ops']):
            before_items = list(vec)
            before_size = vec._items_size  # pylint: disable=protected-access
            text, out, ref_out = self._apply(vec, ref, op, n)
            texts.append(text)
            where = 'op {} {}'.format(n, text)
            word = out.split(' ')[0]
            if word in ('ok', 'popped'):
                self.accepted += 1
                if ref_out[0] != 'ok':
                    self._bad('accepted-but-list-raises', '{}: accepted, a plain list raises {}'.format(where, ref_out[0]))
                else:
                    ref = ref_out[1]
                    if word == 'popped' and self._tags([ref_out[2]])[0] != int(out.split(' ')[1]):
                        self._bad('pop-value', '{}: pop returned item {} but a plain list returns {}'.format(
                            where, out.split(' ')[1], self._tags([ref_out[2]])[0]))
            else:
                # refused (or raised): nothing may have changed
                after = list(vec)
                if len(after) != len(before_items) or any(a is not b for a, b in zip(after, before_items)) or \
                        vec._items_size != before_size:  # pylint: disable=protected-access
                    self._bad('refused-but-changed', '{}: raised {} but the vector changed from {} (size {}) to {} (size {})'.format(
                        where, out, self._tags(before_items), before_size, self._tags(after), vec._items_size))  # pylint: disable=protected-access
                if word in ('IndexError', 'ValueError'):
                    self.errors += 1
                    if ref_out[0] != out:
                        self._bad('error-kind', '{}: raised {} but a plain list gives {}'.format(where, out, ref_out[0]))
                elif word in ('NotEnoughData', 'TooMuchData'):
                    self.refused += 1
                    if ref_out[0] != 'ok':
                        self._bad('error-kind', '{}: refused with {} but a plain list raises {}'.format(where, out, ref_out[0]))
                    else:
                        new_total = sum(p.get_item_size(it) for it in ref_out[1])
                        want = 'NotEnoughData {}'.format(p.min_byte_num) if new_total < p.min_byte_num else (
                            'TooMuchData {}'.format(p.max_byte_num) if new_total > p.max_byte_num else None)
                        if want != out:
                            self._bad('refusal', '{}: refused with {} although the edited list would have size {} in [{}, {}]'.format(
                                where, out, new_total, p.min_byte_num, p.max_byte_num) if want is None else
                                '{}: refused with {} where {} is due (edited size {})'.format(where, out, want, new_total))
                else:
                    self._bad('crash', '{}: unexpected exception {}'.format(where, out))
                # a refused edit must have been refusable: the plain list result would leave the bounds
            if word in ('ok', 'popped') and ref_out[0] == 'ok':
                new_total = sum(p.get_item_size(it) for it in ref)
                if not p.min_byte_num <= new_total <= p.max_byte_num:
                    self._bad('bounds', '{}: accepted although the edited list has size {} outside [{}, {}]'.format(
                        where, new_total, p.min_byte_num, p.max_byte_num))
            self._check_state(vec, ref, 'after ' + where)
            entries.append('{} {}'.format(out, self._state(vec)))
        self.model_line = head + (';'.join(texts) if texts else '-')
        self.impl_line = ' | '.join(entries)


def execute(case, check_compose=True):
    ex = Exec(case, check_compose)
    return ex


class HistOracle(object):
    """The oracle protocol of harness.core (used by replay and by external callers)."""

    @staticmethod
    def lines(case):
        return [execute(case, False).model_line]

    @staticmethod
    def impl(case):
        return [execute(case, False).impl_line]

    @staticmethod
    def prop(case):
        return execute(case).findings


# --------------------------------------------------------------------------------------------------------------------
# generation

STEPS = [None, None, None, 1, -1, 2, -2, 3, -3, 0, 10 ** 12, -10 ** 12]


def _pos(rng, n):
    r = rng.random()
    if r < 0.70:
        return rng.randint(-n - 2, n + 2)
    if r < 0.85:
        return rng.choice([0, -1, n - 1, n, -n, -n - 1, n + 1])
    return rng.choice([10 ** 9, -10 ** 9, 2 ** 62, -2 ** 62])      # within ssize_t: beyond it CPython raises OverflowError


def _bound(rng, n):
    return None if rng.random() < 0.3 else _pos(rng, n)


def _vals(rng, npool, lo=0, hi=3):
    return [rng.randrange(npool) for _ in range(rng.randint(lo, hi))]


def random_op(rng, n, npool, ref_tags):
    """One random operation for a vector that currently has n items."""
    r = rng.random()
    if r < 0.12:
        return ['A', rng.randrange(npool)]
    if r < 0.22:
        return ['I', _pos(rng, n), rng.randrange(npool)]
    if r < 0.29:
        return ['E', _vals(rng, npool)]
    if r < 0.34:
        return ['P', _vals(rng, npool)]
    if r < 0.36:
        return [rng.choice(['EV', 'PV'])]
    if r < 0.44:
        return ['O', None if rng.random() < 0.4 else _pos(rng, n)]
    if r < 0.51:
        # remove: mostly something present
        if ref_tags and rng.random() < 0.7:
            return ['R', rng.choice(ref_tags)]
        return ['R', rng.randrange(npool)]
    if r < 0.59:
        return ['D', _pos(rng, n)]
    if r < 0.70:
        return ['DS', _bound(rng, n), _bound(rng, n), rng.choice(STEPS)]
    if r < 0.78:
        return ['S', _pos(rng, n), rng.randrange(npool)]
    if r < 0.93:
        a, b, st = _bound(rng, n), _bound(rng, n), rng.choice(STEPS)
        if st not in (None, 1, 0) and rng.random() < 0.7:
            k = len(range(*slice(a, b, st).indices(n)))          # extended slice: matching length most of the time
            return ['SS', a, b, st, [rng.randrange(npool) for _ in range(k)]]
        return ['SS', a, b, st, _vals(rng, npool, 0, 4)]
    if r < 0.97:
        return ['V']
    return ['C']


def _sim(ref, op, pool_n):
    """Effect of op on a plain list of pool indices (generation only; errors leave it unchanged)."""
    l = list(ref)
    try:
        c = op[0]
        if c == 'A':
            l.append(op[1])
        elif c == 'I':
            l.insert(op[1], op[2])
        elif c in ('E', 'P'):
            l.extend(op[1])
        elif c in ('EV', 'PV'):
            l.extend(list(l))
        elif c == 'O':
            l.pop() if op[1] is None else l.pop(op[1])
        elif c == 'R':
            l.remove(op[1])
        elif c == 'D':
            del l[op[1]]
        elif c == 'DS':
            del l[slice(op[1], op[2], op[3])]
        elif c == 'S':
            l[op[1]] = op[2]
        elif c == 'SS':
            l[slice(op[1], op[2], op[3])] = op[4]
        elif c == 'V':
            l.reverse()
        elif c == 'C':
            del l[:]
    except (IndexError, ValueError, OverflowError):
        return ref
    return l


def gen_history(rng, cls, max_ops, narrow):
    """A case for cls.  Generation tracks a plain-list simulation that honours the bounds, so that positions and
    bound-seeking moves relate to the state the vector will really be in."""
    cid = class_id(cls)
    pool = pool_for(cid)
    npool = len(pool)
    param = cls.get_param()
    sizes = [param.get_item_size(it) for it in pool]
    pos_sizes = sorted(s for s in set(sizes) if s > 0) or [1]
    bounds = None
    mn, mx = param.min_byte_num, param.max_byte_num
    if narrow:
        unit = rng.choice(pos_sizes)
        mn = rng.choice([0, 0, unit, 2 * unit, rng.randint(0, 3 * unit)])
        mx = mn + rng.choice([0, unit, 3 * unit, 5 * unit, rng.randint(0, 8 * unit)])
        bounds = [mn, mx]

    def total(l):
        return sum(sizes[i] for i in l)

    # initial content: within the bounds most of the time
    init = []
    r = rng.random()
    if r < 0.85:
        target = rng.randint(mn, min(mx, mn + 8 * max(pos_sizes)))
        guard = 0
        while total(init) < target and guard < 300:
            guard += 1
            cand = rng.randrange(npool)
            if total(init) + sizes[cand] <= mx:
                init.append(cand)
            elif all(total(init) + s > mx for s in sizes if s > 0):
                break
        if total(init) < mn or total(init) > mx:
            init = _fill(rng, sizes, mn, mx) or init
    elif r < 0.93:
        init = _fill(rng, sizes, mx, mx) or _fill(rng, sizes, mn, mx) or []          # exactly at the maximum
    else:
        init = _vals(rng, npool, 0, 6)       # whatever: the constructor may refuse
    ref = list(init)
    if not mn <= total(ref) <= mx:
        return {'kind': 'hist', 'cls': cid, 'bounds': bounds, 'init': init, 'ops': []}
    ops = []
    n_ops = rng.randint(1, max_ops)
    mode = rng.random()
    seek = 'max' if mode < 0.25 else ('min' if mode < 0.45 else None)
    while len(ops) < n_ops:
        op = None
        if seek == 'max':
            room = mx - total(ref)
            fitting = [i for i in range(npool) if 0 < sizes[i] <= room]
            if fitting and room // max(sizes[i] for i in fitting) <= 600:
                # jump to (or next to) the bound with one bulk edit, or creep
                if rng.random() < 0.5:
                    chunk = []
                    while True:
                        fit = [i for i in range(npool) if 0 < sizes[i] <= room - total(chunk)]
                        if not fit:
                            break
                        chunk.append(rng.choice(fit))
                    op = [rng.choice(['E', 'P']), chunk]
                else:
                    op = ['A', rng.choice(fitting)] if rng.random() < 0.5 else ['I', _pos(rng, len(ref)), rng.choice(fitting)]
            else:
                seek = 'push-max'
        elif seek == 'min':
            if ref and total(ref) - min(sizes[i] for i in ref) >= mn and rng.random() < 0.9:
                op = rng.choice([['O', None], ['O', 0], ['D', rng.randint(-len(ref), len(ref) - 1)],
                                 ['DS', 0, 1, None], ['R', rng.choice(ref)]])
            else:
                seek = 'push-min'
        if op is None and seek == 'push-max':
            big = [i for i in range(npool) if sizes[i] > 0]
            op = rng.choice([['A', rng.choice(big)], ['I', _pos(rng, len(ref)), rng.choice(big)],
                             ['E', [rng.choice(big) for _ in range(rng.randint(1, 3))]],
                             ['P', [rng.choice(big)]], ['SS', len(ref), None, None, [rng.choice(big)]],
                             ['SS', 0, 0, None, [rng.choice(big), rng.choice(big)]],
                             ['S', rng.randint(-len(ref) - 1, len(ref)), rng.choice(big)], ['EV'],
                             random_op(rng, len(ref), npool, ref)])
            if rng.random() < 0.3:
                seek = None
        elif op is None and seek == 'push-min':
            op = rng.choice([['O', None], ['O', 0], ['D', -1], ['D', 0], ['C'], ['DS', None, None, None],
                             ['DS', None, None, -1], ['DS', None, None, 2], ['R', ref[0] if ref else 0],
                             ['SS', None, None, None, []], ['SS', 0, 1, None, []],
                             random_op(rng, len(ref), npool, ref)])
            if rng.random() < 0.3:
                seek = None
        if op is None:
            op = random_op(rng, len(ref), npool, ref)
        ops.append(op)
        new = _sim(ref, op, npool)
        if mn <= total(new) <= mx:
            ref = new
    return {'kind': 'hist', 'cls': cid, 'bounds': bounds, 'init': init, 'ops': ops}


def _fill(rng, sizes, lo, hi):
    """indices whose sizes sum to something in [lo, hi] (close to lo), or None"""
    pos = [i for i, s in enumerate(sizes) if s > 0]
    if not pos:
        return [] if lo <= 0 <= hi else None
    if lo // max(sizes[i] for i in pos) > 3000:
        return None
    out, t = [], 0
    guard = 0
    while t < lo and guard < 5000:
        guard += 1
        fit = [i for i in pos if t + sizes[i] <= hi]
        if not fit:
            return None
        exact = [i for i in fit if t + sizes[i] >= lo]
        c = rng.choice(exact) if exact and rng.random() < 0.7 else rng.choice(fit)
        out.append(c)
        t += sizes[c]
    return out if lo <= t <= hi else None


def fill_cases():
    """Deterministic: every class whose real maximum is reachable is filled to that maximum by get_item_size's count,
    then pushed; the encoded body must still fit (this is where framing that get_item_size ignores shows)."""
    classes, _ = vector_classes()
    cases = []
    for cls in classes:
        cid = class_id(cls)
        p = cls.get_param()
        pool = pool_for(cid)
        sizes = [p.get_item_size(it) for it in pool]
        if p.max_byte_num > 70000:
            continue
        best = max(range(len(pool)), key=lambda i: sizes[i])
        if sizes[best] == 0:
            continue
        n = p.max_byte_num // sizes[best]
        init = [best] * n
        rest = p.max_byte_num - n * sizes[best]
        for i in sorted(range(len(pool)), key=lambda i: -sizes[i]):
            while sizes[i] and sizes[i] <= rest:
                init.append(i)
                rest -= sizes[i]
        small = min((i for i in range(len(pool)) if sizes[i] > 0), key=lambda i: sizes[i])
        cases.append({'kind': 'hist', 'cls': cid, 'bounds': None, 'init': init,
                      'ops': [['A', small], ['O', None], ['A', small], ['E', [small, small]]]})
    return cases


EXH_OPS = [
    ['A', 0], ['A', 1], ['I', 0, 1], ['I', -1, 0], ['I', 5, 1], ['E', [0, 1]], ['E', []], ['P', [1]], ['EV'],
    ['O', None], ['O', 0], ['O', 5], ['O', -3], ['R', 0], ['R', 1], ['D', 0], ['D', -1], ['D', 7],
    ['DS', None, None, 2], ['DS', 1, None, None], ['DS', None, None, -1], ['DS', None, None, 0], ['DS', -1, 0, -1],
    ['S', 0, 1], ['S', -1, 0], ['S', 9, 0], ['SS', 0, 1, None, [0, 1]], ['SS', None, None, 2, [1]],
    ['SS', None, None, -1, [0, 1]], ['SS', 2, 0, None, [1]], ['SS', None, None, 0, []], ['SS', None, None, None, []],
    ['V'], ['C'],
]


def exhaustive_cases():
    """All histories of length <= 3 over EXH_OPS on one class per kind, bounds narrowed to [one item, four items]."""
    classes, _ = vector_classes()
    per_kind = {}
    for cls in classes:
        per_kind.setdefault(class_kind(cls), cls)
    cases = []
    for kind in sorted(per_kind):
        cls = per_kind[kind]
        cid = class_id(cls)
        p = cls.get_param()
        pool = pool_for(cid)
        sizes = [p.get_item_size(it) for it in pool]
        # alphabet items 0 and 1 are mapped onto two pool items of positive size
        pos = [i for i in range(len(pool)) if sizes[i] > 0][:2]
        if len(pos) < 2:
            continue
        a, b = pos
        bounds = [min(sizes[a], sizes[b]), 2 * (sizes[a] + sizes[b])]

        def ren(op):
            c = op[0]
            if c in ('A', 'R'):
                return [c, pos[op[1]]]
            if c in ('I', 'S'):
                return [c, op[1], pos[op[2]]]
            if c in ('E', 'P'):
                return [c, [pos[i] for i in op[1]]]
            if c == 'SS':
                return op[:4] + [[pos[i] for i in op[4]]]
            return list(op)
        ops = [ren(o) for o in EXH_OPS]
        for length in (1, 2, 3):
            for hist in itertools.product(ops, repeat=length):
                cases.append({'kind': 'hist', 'cls': cid, 'bounds': bounds, 'init': [a, b], 'ops': [list(o) for o in hist]})
    return cases


# --------------------------------------------------------------------------------------------------------------------
# running


def _work(args):
    case, check_compose = args
    try:
        ex = Exec(case, check_compose)
        return ex.model_line, ex.impl_line, ex.findings, ex.accepted, ex.refused, ex.errors
    except Exception as e:  # pylint: disable=broad-except
        return None, None, [('harness', 'harness failure on case: {}: {}'.format(type(e).__name__, e))], 0, 0, 0


def _process(run, cases, driver_ok, pool=None, check_compose=True, label='random'):
    """Executes the cases on the real code, pipes the model lines through the driver, compares."""
    if not cases:
        return
    args = [(c, check_compose) for c in cases]
    if pool is not None:
        results = pool.map(_work, args, chunksize=200)
    else:
        results = [_work(a) for a in args]
    lines, idx = [], []
    for i, (case, res) in enumerate(zip(cases, results)):
        model_line, impl_line, findings, acc, refu, err = res
        run.evaluations += 1
        run.count('histories', label)
        run.count('classes', case['cls'].split(':')[1] + ('/narrowed' if case.get('bounds') else ''))
        run.count('operations', 'accepted', acc)
        run.count('operations', 'refused (NotEnoughData/TooMuchData)', refu)
        run.count('operations', 'IndexError/ValueError', err)
        for op in case['ops']:
            run.count('opcodes', op[0])
        if acc and refu:
            run.note_nontrivial((case['cls'], str(case['bounds']), str(case['init']), str(case['ops'])))
        for key, message in findings:
            run.count('findings', '{} {}'.format(key, case['cls'].split(':')[1]))
            seen = run.__dict__.setdefault('_c12_seen', set())
            if (key, case['cls']) not in seen:      # one report per kind of failure and class
                seen.add((key, case['cls']))
                run.finding(key, message, case)
        if model_line is not None:
            lines.append(model_line)
            idx.append(i)
    if not driver_ok:
        return
    try:
        out = core.run_driver(lines)
    except RuntimeError as e:
        run.notes.append('driver unavailable: {}'.format(e))
        run.disagreements.append((cases[0], -1, 'driver failure', str(e)[:300]))
        return
    for i, m in zip(idx, out):
        r = results[i][1]
        if m != r:
            ms, rs = m.split(' | '), r.split(' | ')
            k = next((j for j, (x, y) in enumerate(zip(ms, rs)) if x != y), min(len(ms), len(rs)))
            run.disagreements.append((cases[i], k, ' | '.join(ms[max(k - 1, 0):k + 1]), ' | '.join(rs[max(k - 1, 0):k + 1])))


def run(run, driver_ok=True, deep=False):  # pylint: disable=redefined-outer-name
    tier = 'thorough' if deep else run.tier
    classes, skipped = vector_classes()
    run.count('vector classes', 'driven', len(classes))
    run.count('vector classes', 'skipped (no generic item construction)', len(skipped))
    for cid, why in sorted(skipped.items()):
        run.notes.append('skipped {}: {}'.format(cid, why))
    for cls in classes:
        run.count('kinds', class_kind(cls))
    if _UNCOMPARABLE:
        run.notes.append('items left out of a pool because == with another item of the pool raises: {}'.format(
            sorted(set(_UNCOMPARABLE))))
    run.exhaustive = False
    pool = None
    try:
        if tier == 'thorough':
            ctx = multiprocessing.get_context('fork')
            pool = ctx.Pool(min(8, multiprocessing.cpu_count() or 1))
        n_hist, max_ops = (THOROUGH_HISTORIES, THOROUGH_OPS) if tier == 'thorough' else (QUICK_HISTORIES, QUICK_OPS)
        batch = 5000
        first = True
        done = 0
        while done < n_hist:
            cases = gen_cases_at(run.rng, done, min(batch, n_hist - done), max_ops)
            if first:
                for c in cases[:3] + cases[len(cases) // 2:len(cases) // 2 + 2]:
                    run.sample(c)
                first = False
            _process(run, cases, driver_ok, pool, label='random')
            done += len(cases)
        fills = fill_cases()
        for c in fills[:2]:
            run.sample({'kind': 'hist', 'cls': c['cls'], 'bounds': None, 'init': '{} items up to the real maximum'.format(len(c['init'])),
                        'ops': c['ops']})
        _process(run, fills, driver_ok, None, label='filled to the real maximum')
        if tier == 'thorough':
            ex = exhaustive_cases()
            for i in range(0, len(ex), 20000):
                _process(run, ex[i:i + 20000], driver_ok, pool, label='exhaustive (length <= 3)')
            run.notes.append('exhaustive: all histories of length <= 3 over {} operations on one class per kind ({} histories)'.format(
                len(EXH_OPS), len(ex)))
    finally:
        if pool is not None:
            pool.close()
            pool.join()


def gen_cases_at(rng, offset, n, max_ops):
    classes, _ = vector_classes()
    cases = []
    for i in range(offset, offset + n):
        cls = classes[i % len(classes)]
        cases.append(gen_history(rng, cls, max_ops, narrow=(i // len(classes)) % 2 == 0))
    return cases


def search(run, proof):  # pylint: disable=redefined-outer-name,unused-argument
    """Failing-input search on the implementation alone: longer histories, more of them."""
    sub = core.Run(run.prop, 'thorough', run.seed + 1)
    sub.kf = run.kf
    rng = random.Random(run.seed + 1)
    n = 20000 if run.tier == 'quick' else 100000
    cases = gen_cases_at(rng, 0, n, THOROUGH_OPS)
    _process(sub, cases, False, None)
    _process(sub, exhaustive_cases()[:40000], False, None, label='exhaustive')
    run.violations.extend(sub.violations)
    run.evaluations += sub.evaluations
    run.notes.append('failing-input search: {} further histories of <= {} ops on the implementation alone'.format(
        sub.evaluations, THOROUGH_OPS))


def replay(case):
    return HistOracle.prop(case)
