# -*- coding: utf-8 -*-
"""C18 — insignificant spelling of text fields never changes what is parsed.

Two layers.
  * SCANNER layer (`harness.props.c18a`, Lean `CpProps.C18a`): `ParserText._parse_string_array` & co. against the
    exact model; run from here so that C18 includes it.
  * HEADER / RECORD layer (this file, Lean `CpProps.C18`): for every header value class, header field class and
    TXT policy record class found in the LIVE code, semantic values are built, composed to the canonical spelling,
    and re-spelled according to the governing RFC grammar.  On the REAL code every spelling must parse to an
    object equal (`canon.generic`) to the one parsed from the canonical spelling, and composing it must give the
    canonical spelling again.

The variant generators are written from the RFC text only (the clause is cited next to each rule); they share
nothing with the library but the canonical spelling they start from, which is tokenised by an independent
splitter (separator outside double quotes, first `=`).  A variation the RFC does not declare insignificant is
not generated.

REQUIRED since the repair `quote_aware` (`NameValuePairList._parse` splits with `quote_aware=True`: a separator inside an
RFC 7230 3.2.6 quoted-string, backslash quoted-pairs included, does not split the list).  These were known findings
and are now violations when they reappear:
  * `unknown-directive:<Class>:quoted-separator` for HttpHeaderFieldValue{CacheControlResponse, ExpectCT, ExpectStaple,
    PublicKeyPinning, STS}: an unknown directive whose quoted-string value contains the list separator (and the name of a
    known flag, escaped quotes `\\"`, escaped backslashes `\\\\`) is ignored as ONE directive, at every position, under
    several unknown names, for the ";" and the "," lists;
  * `canonical:<Class>:separator-in-quoted-string` for HttpHeaderFieldValue{ExpectCT, ExpectStaple, PublicKeyPinning}: a
    report-uri containing "," / ";" / both survives compose -> parse -> compose.
The probes are generated for these classes unconditionally (`gen_quoted_separator`); a class that is missing, cannot be
constructed / composed, or whose canonical spelling cannot be tokenised is reported under the same key, never skipped.
The DNS TXT policy records (DMARC RFC 7489 6.4, MTA-STS RFC 8461 3.1, TLSRPT RFC 8460 3) have no quoted-string in
their grammars (`Rules.quoted_sep` is False): no such probes; their splitting is tied to the model through the TX ops,
which are fed with quoted, escaped and unbalanced material for every class.

Finding keys name the variation kind, the class and the place:  `case:HttpHeaderFieldValueContentType:charset`,
`ows:HttpHeaderFieldValueSTS:after-semicolon`, `empty-element:…`, `order:…`, `quoting:…`, `unknown-directive:…`,
`canonical:<Class>:roundtrip`, `compose:<Class>:<kind>`, `combined:<Class>:<kinds>`, `block:HttpHeaderFields:<what>`,
`table:Gen/Fields.lean:stale`, `tx:<Class>` (model/code disagreement on a component assignment)."""
from __future__ import print_function

import datetime
import importlib
import inspect
import json
import os
import random
import subprocess
import sys

from harness import core, canon
from harness.core import hx, unhx
from harness.props import c18a

LEAN_MODULES = ['CpProps.C18a', 'CpProps.C18']
RULE = ('header/record layer: every FieldValueMultiple subclass, FieldsJson subclass, FieldValueSingle* subclass, '
        'HttpHeaderFieldValueSetCookie, HttpHeaderFieldValueContentSecurityPolicy, the TXT record classes (DMARC, MTA-STS, '
        'TLSRPT, SPF), every leaf of HttpHeaderFieldParsedBase, HttpHeaderFieldUnparsed and HttpHeaderFields, enumerated '
        'from the live modules.  Per class: semantic values (minimal, full, every optional directive alone, seeded random '
        'subsets; boundary numbers 0/1/2^31-1/max timedelta, all enum members, booleans, URLs, base64 pins, dates; plus the '
        '(class, bytes) pairs the repository\'s own tests parse) are composed; each canonical spelling is re-spelled per RFC '
        'grammar: case patterns (lower/UPPER/Title/rAnDoM) of every case-insensitive name, SP / HTAB / mixed runs before and '
        'after every separator and around "=" where the RFC has OWS/BWS/LWS/WSP, empty elements (doubled, leading, trailing '
        'separator) where the list rule admits them, reversal / rotation / shuffles of the order-free elements, token vs '
        'quoted-string, unknown directives (flag, pair, quoted, quoted string containing the separator and a known flag '
        'name), and seeded combinations of the variations that passed singly; REQUIRED since the repair quote_aware '
        '(reappearance of unknown-directive:<Class>:quoted-separator or canonical:<Class>:separator-in-quoted-string is a '
        'violation): for STS, Expect-CT, Expect-Staple, HPKP and Cache-Control (response) a minimal and a full value x 4 '
        'unknown directive names x 9 quoted-string values containing the list separator, the other separator, a known flag '
        'name, a known pair, escaped quotes and escaped backslashes x every position, plus two such directives at once; for '
        'Expect-CT, Expect-Staple and HPKP report-uri values containing "," / ";" / both, round trip and every respelling; '
        'TX ops also on quoted / escaped / unbalanced off-grammar lists of every class; header lines: case of the field name, OWS '
        'after the colon and before CRLF; blocks of 1..6 lines (understood / unknown names, valid / invalid values, canonical '
        'and variant spelling) compared field by field with an RFC 7230 reference splitter.  Each variant is one '
        'evaluation; non-trivial = the variant differs from the canonical spelling; distinct by (class, variant bytes). '
        'Scanner layer: see CpProps.C18a / harness.props.c18a (run from here).')
ASSUMPTIONS = c18a.ASSUMPTIONS + [
    'values are compared with canon.generic (field by field, enum members by name, datetimes as instants)',
    'URLs, dates and base64 values inside directives are opaque tokens for the variant generators',
    'Expect-Staple and X-XSS-Protection have no RFC: Expect-Staple is varied like the RFC 7469 grammar it copies '
    '(without empty elements), X-XSS-Protection only at the header-line level',
    'the component table Gen/Fields.lean is compared with a fresh in-process extraction on every run',
]
TRUSTED_EXTRA = ['tools/extract_fields.py: Gen/Fields.lean equals the live component tables and their name-match modes '
                 '(probed by calling _check_name; re-extracted and compared by this check on every run)']


def _ensure_tables():
    """tie 1 for the field layer: regenerate lean/CpModel/Gen/Fields.lean from the live classes (rewritten only when it
    changes).  tools/extract.py may also call the script; running it twice is harmless."""
    tool = os.path.join(core.VERIF, 'tools', 'extract_fields.py')
    if os.path.exists(tool):
        env = dict(os.environ)
        env['CP_REPO'] = core.REPO
        env['CP_LEAN'] = core.LEAN
        subprocess.run(['/venv/bin/python', tool], env=env, stdout=subprocess.PIPE, stderr=subprocess.PIPE, check=False)


_ensure_tables()

SP, HT = b' ', b'\t'


# ------------------------------------------------------------------------------------------------
# the live classes
# ------------------------------------------------------------------------------------------------

def _mods():
    from cryptoparser.common import field as F
    from cryptoparser.httpx import header as H
    from cryptoparser.httpx import parse as HP
    from cryptoparser.dnsrec import txt as T
    return F, H, HP, T


def all_subclasses(cls):
    out = []
    for sub in cls.__subclasses__():
        if sub not in out:
            out.append(sub)
        for s in all_subclasses(sub):
            if s not in out:
                out.append(s)
    return out


def concrete(cls):
    import attr                         # (the repository's tests define subclasses of their own: library classes only)
    return not inspect.isabstract(cls) and attr.has(cls) and cls.__module__.startswith('cryptoparser.')


def class_path(cls):
    return cls.__module__ + ':' + cls.__qualname__


def resolve(path):
    module, qual = path.split(':')
    obj = importlib.import_module(module)
    for part in qual.split('.'):
        obj = getattr(obj, part)
    return obj


def multiple_classes():
    F, _, _, _ = _mods()
    return [c for c in all_subclasses(F.FieldValueMultiple) if concrete(c)]


def line_classes():
    _, H, _, _ = _mods()
    from cryptoparser.common.utils import get_leaf_classes
    return list(get_leaf_classes(H.HttpHeaderFieldParsedBase))


# ------------------------------------------------------------------------------------------------
# what the RFCs say (hand-written; one entry per class; a class without an entry gets the canonical checks only)
# ------------------------------------------------------------------------------------------------

class Rules(object):
    """Grammar facts about a `name[=value]` list.

    sep         the list separator
    ows_sep     whitespace bytes allowed before and after the separator
    ows_eq      whitespace bytes allowed before and after `=`
    empties     'all' (doubled, leading and trailing separators), 'trailing' (one trailing separator) or 'none'
    fixed       number of leading elements whose position is fixed by the grammar
    ci          'all': every directive/parameter name is case-insensitive; a set: only these (lower case); None: none
    quotable    names (lower case) whose value is `token / quoted-string`
    unknown     'ignored': unknown directives MUST be ignored; 'extension': they are kept as extensions (the known
                fields must not change); None: the RFC does not say
    quoted_sep  a quoted-string value may contain the separator
    first_case  case-insensitive parts of a nameless first element: ('type', 'subtype') for a media type
    """

    def __init__(self, sep, cite, ows_sep=b'', ows_eq=b'', empties='none', fixed=0, ci=None, quotable=(), unknown=None,
                 quoted_sep=False, first_case=()):
        self.sep, self.cite, self.ows_sep, self.ows_eq, self.empties = sep, cite, ows_sep, ows_eq, empties
        self.fixed, self.ci, self.quotable, self.unknown = fixed, ci, set(quotable), unknown
        self.quoted_sep, self.first_case = quoted_sep, first_case


RULES = {
    # RFC 6797 §6.1: `[ directive ] *( ";" [ directive ] )` (empty elements are grammatical); the grammar is RFC 2616's
    # with implied *LWS between any two tokens/separators (so also around "="); §6.1 items 1 (order not significant),
    # 3 (directive names case-insensitive), 5 (unrecognised directives MUST be ignored); directive-value =
    # token | quoted-string, §6.1.1 max-age "after quoted-string unescaping".
    'HttpHeaderFieldValueSTS': Rules(b';', 'RFC 6797 6.1', ows_sep=b' \t', ows_eq=b' \t', empties='all', ci='all',
                                     quotable=['max-age'], unknown='ignored', quoted_sep=True),
    # RFC 9163 §2.1: `Expect-CT = 1#expect-ct-directive`; RFC 7230 §7: OWS around the commas, recipients MUST accept
    # empty list elements; §2.1 items 1 (order), 3 (names case-insensitive), 5 (unknown directives ignored);
    # directive-value = token / quoted-string, §2.1.3 max-age "after quoted-string unescaping".  No BWS around "=".
    'HttpHeaderFieldValueExpectCT': Rules(b',', 'RFC 9163 2.1', ows_sep=b' \t', empties='all', ci='all',
                                          quotable=['max-age'], unknown='ignored', quoted_sep=True),
    # RFC 7469 §2.1: `directive *( OWS ";" OWS directive )` (no empty elements); items 1 (order), 3 (names
    # case-insensitive), 5 (unknown ignored); §2.1.2 max-age "after quoted-string unescaping".
    'HttpHeaderFieldValuePublicKeyPinning': Rules(b';', 'RFC 7469 2.1', ows_sep=b' \t', ci='all', quotable=['max-age'],
                                                  unknown='ignored', quoted_sep=True),
    # Expect-Staple (no RFC; the draft copies the RFC 7469 grammar): varied like HPKP.
    'HttpHeaderFieldValueExpectStaple': Rules(b';', 'Expect-Staple draft (grammar of RFC 7469 2.1)', ows_sep=b' \t', ci='all',
                                              quotable=['max-age'], unknown='ignored', quoted_sep=True),
    # RFC 7234 §5.2: `Cache-Control = 1#cache-directive` (RFC 7230 §7 list rule: OWS, empty elements), "cache
    # directives are identified by a token, to be compared case-insensitively", "recipients ought to accept both
    # forms [token and quoted-string]"; §5.2.3 "a cache MUST ignore unrecognized cache directives".
    'HttpHeaderFieldValueCacheControlResponse': Rules(b',', 'RFC 7234 5.2', ows_sep=b' \t', empties='all', ci='all',
                                                      quotable=['max-age', 's-maxage'], unknown='ignored', quoted_sep=True),
    # RFC 7231 §3.1.1.1: `type "/" subtype *( OWS ";" OWS parameter )`; "the type, subtype, and parameter name tokens
    # are case-insensitive"; "a parameter value that matches the token production can be transmitted either as a
    # token or within a quoted-string; the quoted and unquoted values are equivalent"; no whitespace around "=".
    'HttpHeaderFieldValueContentType': Rules(b';', 'RFC 7231 3.1.1.1', ows_sep=b' \t', fixed=1, ci='all',
                                             quotable=['charset', 'boundary'], first_case=('type', 'subtype')),
    # RFC 6265 §5.2 (the user agent's algorithm): split at ";", "remove any leading or trailing WSP characters from
    # the name string and the value string" (cookie-pair, step 4) and "from the attribute-name string and the
    # attribute-value string" (§5.2 step 5 of the attribute loop); attribute names match case-insensitively
    # (§5.2.1-§5.2.6); unrecognised attributes are ignored (§5.2, last note); an empty cookie-av has an empty,
    # unrecognised name.  SameSite: draft-ietf-httpbis-rfc6265bis §5.6.7, also case-insensitive.
    'HttpHeaderFieldValueSetCookie': Rules(b';', 'RFC 6265 5.2', ows_sep=b' \t', ows_eq=b' \t', empties='all', fixed=1, ci='all',
                                           unknown='ignored'),
    'HttpHeaderFieldValueSetCookieParams': Rules(b';', 'RFC 6265 5.2', ows_sep=b' \t', ows_eq=b' \t', empties='all', ci='all',
                                                 unknown='ignored'),
    # no RFC: only the canonical checks
    'HttpHeaderFieldValueXXSSProtection': Rules(b';', 'no RFC', fixed=1),
    # RFC 7489 §6.4: `dmarc-sep = *WSP %x3b *WSP`; `dmarc-version = "v" *WSP "=" *WSP …` and the same for every tag;
    # the record ends with `[dmarc-sep]`; §6.3 "the v and p tags MUST be present and MUST appear in that order",
    # "unknown tags MUST be ignored".  Tag names: RFC 6376 §3.2 "tags MUST be interpreted in a case-sensitive manner".
    'DnsRecordTxtValueDmarc': Rules(b';', 'RFC 7489 6.3/6.4', ows_sep=b' \t', ows_eq=b' \t', empties='trailing', fixed=2,
                                    unknown='ignored'),
    # RFC 8461 §3.1: `sts-text-record = sts-version 1*(sts-field-delim sts-field) [sts-field-delim]`,
    # `sts-field-delim = *WSP ";" *WSP`, `%s"v=STSv1"`, `%s"id="` (case-sensitive, nothing around "=").
    'DnsRecordTxtValueMtaSts': Rules(b';', 'RFC 8461 3.1', ows_sep=b' \t', empties='trailing', fixed=1, unknown='extension'),
    # RFC 8460 §3: `tlsrpt-record = tlsrpt-version 1*(field-delim tlsrpt-field) [field-delim]`, `field-delim = *WSP ";" *WSP`
    'DnsRecordTxtValueTlsRpt': Rules(b';', 'RFC 8460 3', ows_sep=b' \t', empties='trailing', fixed=1, unknown='extension'),
}
NO_RULES = Rules(b';', 'no rules written for this class')

SEP_NAME = {b';': 'semicolon', b',': 'comma', b' ': 'space', b':': 'colon'}


# ------------------------------------------------------------------------------------------------
# evaluating one (class, canonical spelling, variant spelling) on the real code
# ------------------------------------------------------------------------------------------------

class Outcome(object):
    def __init__(self, obj=None, err=None):
        self.obj, self.err = obj, err

    @property
    def ok(self):
        return self.err is None


def parse_as(cls, data, layer):
    """`parse_exact_size`; header field classes stop in front of CRLF, so for a line: `parse_immutable` and the
    consumed length must be everything but the CRLF."""
    try:
        if layer == 'line':
            obj, n = cls.parse_immutable(data)
            if n != len(data) - 2:
                return Outcome(err='consumed {} of {}'.format(n, len(data) - 2))
            return Outcome(obj)
        return Outcome(cls.parse_exact_size(data))
    except Exception as e:  # pylint: disable=broad-except
        return Outcome(err=core.err_line(e))


def _without(obj, names):
    import attr
    return type(obj).__name__ + '(' + ','.join(
        '{}={}'.format(f.name, canon.generic(getattr(obj, f.name))) for f in attr.fields(type(obj)) if f.name not in names) + ')'


def _extension_attrs(cls):
    import attr
    return {f.name for f in attr.fields(cls) if f.metadata.get('extension', False)}


def _is_subsequence(small, big):
    it = iter(big)
    return all(any(x == y for y in it) for x in small)


def same_value(a, b, cmp_mode):
    """a: parsed from the canonical spelling, b: from the variant"""
    if cmp_mode == 'full':
        return canon.generic(a) == canon.generic(b)
    if cmp_mode == 'noext':
        ext = _extension_attrs(type(a))
        return type(a) is type(b) and _without(a, ext) == _without(b, ext)
    kind, attr_name = cmp_mode.split(':')
    if type(a) is not type(b) or _without(a, {attr_name}) != _without(b, {attr_name}):
        return False
    la = [canon.generic(x) for x in getattr(a, attr_name)]
    lb = [canon.generic(x) for x in getattr(b, attr_name)]
    if kind == 'multiset':
        return sorted(la) == sorted(lb)
    if kind == 'subseq':                # the variant may have additional (unknown) items; the known ones are the same
        return _is_subsequence(la, lb)
    raise ValueError(cmp_mode)


def finding_key(case):
    return '{}:{}:{}'.format(case['vkind'], case['key_cls'], case['detail'])


def check_case(case):
    """The property on the real code for one spelling variant.  Returns [(key, message)]."""
    if case.get('layer') == 'block':
        return check_block(case)
    if case.get('layer') == 'seed':
        return check_seed(case)
    if case.get('layer') == 'broken-probe':
        return [(case['key'], case['message'])]     # a REQUIRED probe that could not be built: reported, never skipped
    cls = resolve(case['cls'])
    layer = case.get('layer', 'value')
    canonical, variant = unhx(case['canonical']), unhx(case['variant'])
    want = parse_as(cls, canonical, layer)
    if not want.ok:
        return []                       # reported once per seed by check_seed
    got = parse_as(cls, variant, layer)
    key = finding_key(case)
    what = '{} [{}] {}'.format(case['vkind'], case.get('cite', ''), case.get('note', case['detail']))
    if not got.ok:
        return [(key, '{}: {!r} is rejected ({}) although it is an insignificant respelling of {!r} ({})'.format(
            cls.__name__, variant, got.err, canonical, what))]
    if not same_value(want.obj, got.obj, case.get('cmp', 'full')):
        return [(key, '{}: {!r} parses to {} but the canonical spelling {!r} parses to {} ({})'.format(
            cls.__name__, variant, canon.generic(got.obj)[:400], canonical, canon.generic(want.obj)[:400], what))]
    if case.get('recompose', True):
        try:
            again = bytes(got.obj.compose())
        except Exception as e:  # pylint: disable=broad-except
            again = core.err_line(e).encode()
        if again != canonical[:len(canonical) - (2 if layer == 'line' else 0)]:
            return [('compose:{}:{}'.format(case['key_cls'], case['vkind']),
                     '{}: compose() of the object parsed from {!r} gives {!r}, not the canonical {!r}'.format(
                         cls.__name__, variant, again, canonical))]
    return []


def check_seed(case):
    """canonical spelling: parse(compose(v)) == v and compose is stable"""
    cls = resolve(case['cls'])
    layer = case.get('sub', 'value')
    canonical = unhx(case['canonical'])
    got = parse_as(cls, canonical, layer)
    if not got.ok:
        return [('canonical:{}:{}'.format(case['key_cls'], case.get('detail', 'roundtrip')),
                 '{}: the canonical spelling {!r} produced by compose() is rejected ({}); value {}'.format(
                     cls.__name__, canonical, got.err, case.get('value', '?')[:300]))]
    if case.get('value') is not None and canon.generic(got.obj) != case['value']:
        return [('canonical:{}:{}'.format(case['key_cls'], case.get('detail', 'roundtrip')),
                 '{}: {} composes to {!r}, which parses back to {}'.format(
                     cls.__name__, case['value'][:300], canonical, canon.generic(got.obj)[:300]))]
    try:
        again = bytes(got.obj.compose())
    except Exception as e:  # pylint: disable=broad-except
        again = core.err_line(e).encode()
    if again != canonical[:len(canonical) - (2 if layer == 'line' else 0)]:
        return [('compose:{}:canonical'.format(case['key_cls']),
                 '{}: compose(parse({!r})) = {!r}'.format(cls.__name__, canonical, again))]
    return []


# ------------------------------------------------------------------------------------------------
# RFC-level tokeniser / renderer of `name[=value]` lists
# ------------------------------------------------------------------------------------------------

def split_outside_quotes(data, sep):
    out, cur, quoted = [], bytearray(), False
    for x in bytearray(data):
        ch = bytes(bytearray([x]))
        if ch == b'"':
            quoted = not quoted
        if ch == sep and not quoted:
            out.append(bytes(cur))
            cur = bytearray()
        else:
            cur.append(x)
    out.append(bytes(cur))
    return out


def tokenise(canonical, sep):
    """[(name, value-or-None)] of a canonical spelling `a=b<sep> c<sep> d="e"`; None if it is not of that shape"""
    elems = []
    for part in split_outside_quotes(canonical, sep):
        part = part.strip(b' ')
        if not part:
            return None
        if b'=' in part:
            name, value = part.split(b'=', 1)
            elems.append((name, value))
        else:
            elems.append((part, None))
    if render([spell(e) for e in elems], sep) != canonical:
        return None
    return elems


def spell(elem, name=None, eq_before=b'', eq_after=b'', value=None):
    n, v = elem
    if name is not None:
        n = name
    if v is None:
        return n
    if value is not None:
        v = value
    return n + eq_before + b'=' + eq_after + v


def render(spelled, sep, gaps=None, lead=b'', trail=b''):
    """join spelled elements; gaps[i] = (whitespace before, whitespace after) the separator behind element i"""
    out = bytearray(lead)
    for i, s in enumerate(spelled):
        out += s
        if i + 1 < len(spelled):
            before, after = (gaps[i] if gaps and i < len(gaps) and gaps[i] is not None else (b'', b' '))
            out += before + sep + after
    out += trail
    return bytes(out)


def case_patterns(name, rng):
    """lower, UPPER, Title, rAnDoM spellings of an ASCII name that differ from it"""
    text = name.decode('ascii')
    rand = ''.join(ch.upper() if rng.random() < 0.5 else ch.lower() for ch in text)
    seen, out = {text}, []
    for label, s in (('lower', text.lower()), ('UPPER', text.upper()), ('Title', text.title()), ('rAnDoM', rand),
                     ('sWAPPED', text.swapcase())):
        if s not in seen:
            seen.add(s)
            out.append((label, s.encode('ascii')))
    return out


def ws_runs(allowed):
    """(label prefix, run) — SP runs and, where HTAB is allowed, runs containing HTAB (named apart: `htab-…`)"""
    out = []
    if b' ' in allowed:
        out += [('', b' '), ('', b'   ')]
    if b'\t' in allowed:
        out += [('htab-', b'\t'), ('htab-', b' \t ')]
    return out


def is_token(value):
    """RFC 7230 §3.2.6 token"""
    return bool(value) and all(x in b"!#$%&'*+-.^_`|~0123456789abcdefghijklmnopqrstuvwxyzABCDEFGHIJKLMNOPQRSTUVWXYZ" for x in bytearray(value))


class Variant(object):
    def __init__(self, vkind, detail, data, note='', cmp_mode='full', recompose=True):
        self.vkind, self.detail, self.data, self.note, self.cmp, self.recompose = vkind, detail, data, note, cmp_mode, recompose


def list_variants(cls_name, rules, elems, rng, flag_names=()):
    """single variations of a tokenised canonical spelling, by RFC rule.  Yields (Variant, mutation) where
    `mutation` is a function usable to combine variations (or None)."""
    sep = rules.sep
    sepn = SEP_NAME[sep]
    n = len(elems)
    base = [spell(e) for e in elems]
    out = []

    def ci(i):
        name = elems[i][0].lower().decode('ascii')
        if i < rules.fixed and elems[i][1] is None:
            return False
        if cls_name.startswith('HttpHeaderFieldValueSetCookie') and rules.fixed and i == 0:
            return False                # cookie-pair: the cookie name is case-sensitive
        if cls_name == 'DnsRecordTxtValueDmarc':
            return False
        return rules.ci == 'all' or (rules.ci is not None and name in rules.ci)

    # --- case of directive / parameter names
    for i in range(n):
        if not ci(i):
            continue
        for label, name in case_patterns(elems[i][0], rng):
            sp = list(base)
            sp[i] = spell(elems[i], name=name)
            out.append((Variant('case', elems[i][0].decode('ascii'), render(sp, sep), '{} spelled {}'.format(
                elems[i][0].decode('ascii'), name.decode('ascii'))), ('name', i, name)))
    # --- case of type / subtype of a media type (nameless first element `type/subtype`)
    if rules.first_case and n and elems[0][1] is None and b'/' in elems[0][0]:
        typ, sub = elems[0][0].split(b'/', 1)
        for label, part in (('type', 0), ('subtype', 1)):
            if label not in rules.first_case:
                continue
            for _, respelled in case_patterns((typ, sub)[part], rng):
                first = (respelled + b'/' + sub) if part == 0 else (typ + b'/' + respelled)
                sp = list(base)
                sp[0] = first
                out.append((Variant('case', label, render(sp, sep), '{} spelled {}'.format(label, respelled.decode('ascii'))),
                            ('first', 0, first)))
    # --- whitespace around the separator
    if rules.ows_sep and n > 1:
        for prefix, run in ws_runs(rules.ows_sep):
            for where in ('before', 'after'):
                for which in ('every', 'one'):
                    idx = list(range(n - 1)) if which == 'every' else [rng.randrange(n - 1)]
                    gaps = [None] * (n - 1)
                    for j in idx:
                        gaps[j] = (run, b' ') if where == 'before' else (b'', run)
                    out.append((Variant('ows', '{}{}-{}'.format(prefix, where, sepn), render(base, sep, gaps),
                                        '{!r} {} {} separator(s)'.format(run, where, which)), ('gaps', tuple(idx), (where, run))))
        # no whitespace at all after the separator (the canonical spelling has one SP)
        out.append((Variant('ows', 'none-after-' + sepn, render(base, sep, [(b'', b'')] * (n - 1)), 'no whitespace after the separator'),
                    ('gaps', tuple(range(n - 1)), ('after', b''))))
    # --- whitespace around "="
    if rules.ows_eq:
        for i in range(n):
            if elems[i][1] is None:
                continue
            for prefix, run in ws_runs(rules.ows_eq):
                for where in ('before', 'after'):
                    sp = list(base)
                    sp[i] = spell(elems[i], eq_before=run if where == 'before' else b'', eq_after=run if where == 'after' else b'')
                    detail = '{}{}-equals'.format(prefix, where)
                    if rules.fixed and i == 0 and cls_name == 'HttpHeaderFieldValueSetCookie':
                        detail += '-cookie-pair'
                    out.append((Variant('ows', detail, render(sp, sep), '{!r} {} "=" of {}'.format(
                        run, where, elems[i][0].decode('ascii'))), ('eq', i, (where, run))))
    # --- empty elements
    if rules.empties in ('all', 'trailing'):
        out.append((Variant('empty-element', 'trailing', render(base, sep) + sep, 'one trailing separator'), ('trail', None, sep)))
        if rules.ows_sep:
            out.append((Variant('empty-element', 'trailing', render(base, sep) + b' ' + sep + b' ', 'trailing separator inside whitespace'),
                        ('trail', None, b' ' + sep + b' ')))
    if rules.empties == 'all':
        if not rules.fixed:             # a separator in front of a positional first element (cookie-pair) is not an empty element
            out.append((Variant('empty-element', 'leading', sep + b' ' + render(base, sep), 'leading separator'), ('lead', None, sep + b' ')))
        out.append((Variant('empty-element', 'trailing', render(base, sep) + sep + b' ' + sep, 'two trailing separators'),
                    ('trail', None, sep + b' ' + sep)))
        if n > 1:
            j = rng.randrange(n - 1)
            gaps = [None] * (n - 1)
            gaps[j] = (b'', sep + b' ')
            out.append((Variant('empty-element', 'doubled', render(base, sep, gaps), 'separator doubled'), ('gaps', (j,), ('after', sep + b' '))))
            gaps = [(b'', b' ' + sep + b' ')] * (n - 1)
            out.append((Variant('empty-element', 'doubled', render(base, sep, gaps), 'every separator doubled, whitespace between'),
                        ('gaps', tuple(range(n - 1)), ('after', b' ' + sep + b' '))))
    # --- order of the independent elements
    free = list(range(rules.fixed, n))
    if rules.ci is not None or rules.unknown is not None or rules.fixed:     # a class with rules
        orders = []
        if len(free) > 1:
            orders.append(('reversed', list(reversed(free))))
            orders.append(('rotated', free[1:] + free[:1]))
            for _ in range(2):
                perm = list(free)
                rng.shuffle(perm)
                orders.append(('shuffled', perm))
        for label, perm in orders:
            if perm == free:
                continue
            order = list(range(rules.fixed)) + perm
            out.append((Variant('order', 'permutation', render([base[i] for i in order], sep), label), ('order', None, tuple(order))))
    # --- token vs quoted-string
    for i in range(n):
        name, value = elems[i]
        if value is None or name.lower().decode('ascii') not in rules.quotable:
            continue
        if is_token(value):
            sp = list(base)
            sp[i] = spell(elems[i], value=b'"' + value + b'"')
            out.append((Variant('quoting', name.decode('ascii'), render(sp, sep), 'token {} as quoted-string'.format(value.decode('ascii'))),
                        ('value', i, b'"' + value + b'"')))
        elif value[:1] == b'"' and value[-1:] == b'"' and is_token(value[1:-1]):
            sp = list(base)
            sp[i] = spell(elems[i], value=value[1:-1])
            out.append((Variant('quoting', name.decode('ascii'), render(sp, sep), 'quoted-string as token'), ('value', i, value[1:-1])))
    # --- unknown directives
    if rules.unknown:
        cmp_mode = 'full' if rules.unknown == 'ignored' else 'noext'
        forms = [('flag', b'x-c18-unknown'), ('pair', b'x-c18-unknown=value1')]
        if rules.unknown == 'extension':
            forms = [('pair', b'x-c18-unknown=value1')]        # RFC 8461/8460: ext-name "=" ext-value only
        if rules.quoted_sep:
            forms.append(('quoted', b'x-c18-unknown="quoted value"'))
            inner = flag_names[0] if flag_names else b'b'
            forms.append(('quoted-separator', b'x-c18-unknown="a' + sep + b' ' + inner + sep + b' c"'))
        positions = sorted({rules.fixed, (rules.fixed + n + 1) // 2, n})
        for label, text in forms:
            for pos in positions:
                sp = base[:pos] + [text] + base[pos:]
                out.append((Variant('unknown-directive', label, render(sp, sep), '{!r} inserted at position {}'.format(text, pos),
                                    cmp_mode=cmp_mode, recompose=rules.unknown == 'ignored'),
                            ('insert', pos, text) if label != 'quoted-separator' else None))
        if rules.quoted_sep:
            # REQUIRED since the repair `quote_aware`: at EVERY position two more unknown directives whose quoted-string
            # value contains the separator, escaped quotes, escaped backslashes (the full cross product is generated by
            # gen_quoted_separator on fixed values)
            texts = quoted_separator_values(sep, inner)
            for pos in range(rules.fixed, n + 1):
                for _ in range(2):
                    text = rng.choice(UNKNOWN_NAMES) + b'=' + rng.choice(texts)
                    sp = base[:pos] + [text] + base[pos:]
                    out.append((Variant('unknown-directive', 'quoted-separator', render(sp, sep),
                                        '{!r} inserted at position {}'.format(text, pos),
                                        cmp_mode=cmp_mode, recompose=rules.unknown == 'ignored'), None))
    return out


UNKNOWN_NAMES = [b'x-c18-unknown', b'x-c18-other', b'X-C18-UPPER', b'zz']


def quoted_separator_values(sep, inner):
    """quoted-string values (RFC 7230 3.2.6: DQUOTE *( qdtext / quoted-pair ) DQUOTE) that contain the list separator;
    `inner` is the name of a known flag directive of the class.  All of them are WELL-FORMED (a DQUOTE inside only as the
    second byte of a quoted-pair, no lone backslash at the end): a list with a stray DQUOTE is rejected as a whole by the
    repaired `NameValuePairList._parse`, which is not a spelling variation and not probed here (the TX ops compare that
    rule with the model on stray-quote inputs)"""
    other = b',' if sep == b';' else b';'
    return [
        b'"a' + sep + b' ' + inner + sep + b' c"',                        # (the probe of the former known finding)
        b'"a\\"' + sep + b' ' + inner + sep + b' \\\\"',                    # "a\"; flag; \\"   escaped quote, escaped backslash at the end
        b'"' + sep + b'"',                                                # only the separator
        b'"' + sep + sep + b' "',                                         # an "empty element" inside the string
        b'"\\\\' + sep + b'\\"' + sep + b'"',                               # "\\;\";"     escaped backslash, then escaped quote
        b'"a' + other + b' b' + sep + b'c' + other + b'"',                # both separators
        b'"' + inner + b'=1' + sep + b' max-age=0"',                      # looks like known directives
        b'"\\' + sep + b' ' + inner + b'"',                               # "\; flag"     a quoted-pair of the separator itself
        b'"\'a\'' + sep + b' \\"' + inner + b'\\""',                        # "'a'; \"flag\""
    ]


def combine(rules, elems, mutations, rng):
    """one spelling with several (individually passing) variations applied at once"""
    n = len(elems)
    names, eqs, values, first = {}, {}, {}, None
    gaps = [None] * max(n - 1, 0)
    lead, trail, order, inserts = b'', b'', list(range(n)), []
    kinds = set()
    for vkind, (op, idx, arg) in mutations:
        kinds.add(vkind)
        if op == 'name':
            names[idx] = arg
        elif op == 'first':
            first = arg
        elif op == 'eq':
            eqs[idx] = arg
        elif op == 'value':
            values[idx] = arg
        elif op == 'gaps':
            where, run = arg
            for j in idx:
                before, after = gaps[j] if gaps[j] is not None else (b'', b' ')
                gaps[j] = (run, after) if where == 'before' else (before, run if run.strip() == b'' else run)
        elif op == 'lead':
            lead = arg
        elif op == 'trail':
            trail = arg
        elif op == 'order':
            order = list(arg)
        elif op == 'insert':
            inserts.append((idx, arg))
    spelled = []
    for i in range(n):
        where, run = eqs.get(i, (None, b''))
        s = spell(elems[i], name=names.get(i), eq_before=run if where == 'before' else b'', eq_after=run if where == 'after' else b'',
                  value=values.get(i))
        if i == 0 and first is not None:
            s = first
        spelled.append(s)
    seq = [spelled[i] for i in order]
    gap_seq = [gaps[i] if i < len(gaps) else None for i in range(len(seq) - 1)]
    for pos, text in sorted(inserts, reverse=True):
        seq.insert(pos, text)
        gap_seq.insert(min(pos, len(gap_seq)), None)
    return render(seq, rules.sep, gap_seq, lead, trail), '+'.join(sorted(kinds))


# ------------------------------------------------------------------------------------------------
# semantic values
# ------------------------------------------------------------------------------------------------

UTC = datetime.timezone.utc
B64 = ['AAAAAAAAAAAAAAAAAAAAAAAAAAAAAAAAAAAAAAAAAAA=', 'AAECAwQFBgcICQoLDA0ODxAREhMUFRYXGBkaGxwdHh8=',
       '//////////////////////////////////////////8=', 'cGluLXNoYTI1Ng==']
MAX_TD = 86399999999999          # datetime.timedelta.max in seconds


def pool(component, rng):
    """values for one component class, by the kind of its base class in common/field.py"""
    F, H, HP, T = _mods()
    name = ''
    try:
        name = component.get_canonical_name()
    except Exception:  # pylint: disable=broad-except
        pass
    lname = name.lower()
    if issubclass(component, F.FieldValueMimeType):
        R = F.MimeTypeRegistry
        return [F.FieldValueMimeType('html', R.TEXT), F.FieldValueMimeType('json', R.APPLICATION), F.FieldValueMimeType('png', R.IMAGE),
                F.FieldValueMimeType('form-data', R.MULTIPART), F.FieldValueMimeType('bhttp', R.MESSAGE),
                F.FieldValueMimeType('vnd.api+json', R.APPLICATION)]
    if issubclass(component, F.FieldValueComponentOption):
        return [True, False]
    if issubclass(component, F.FieldValueComponentTimeDelta):
        return [0, 1, 300, 31536000, 2 ** 31 - 1, 2 ** 31, MAX_TD, rng.randrange(2, 10 ** 9)]
    if issubclass(component, F.FieldValueComponentDateTime):
        return [datetime.datetime(2030, 1, 2, 3, 4, 5, tzinfo=UTC), datetime.datetime(1970, 1, 1, tzinfo=UTC),
                datetime.datetime(2038, 1, 19, 3, 14, 8, tzinfo=UTC), datetime.datetime(2001, 9, 9, 1, 46, 40, tzinfo=UTC)]
    if issubclass(component, F.FieldValueComponentStringBase64):
        return list(B64)
    if issubclass(component, F.FieldValueComponentQuotedString):
        return ['https://example.com/report', 'http://a.example/r?x=1&y=2', 'https://report.example.org:8443/hpkp']
    if issubclass(component, F.FieldValueComponentBool):
        return [True, False]
    if issubclass(component, F.FieldValueComponentFloat):
        return [0.0, 0.5, 1.0, 0.25]
    if issubclass(component, F.FieldValueComponentPercent):
        return [0, 1, 50, 99, 100]
    if issubclass(component, F.FieldValueComponentNumber):
        return [0, 1, 3600, 86400, 2 ** 32 - 1]
    if issubclass(component, F.FieldValueComponentStringEnum):
        return list(component._get_value_type())  # pylint: disable=protected-access
    if issubclass(component, F.FieldValueComponentParsableBase):
        vc = component._get_value_class()  # pylint: disable=protected-access
        if inspect.isclass(vc) and issubclass(vc, __import__('enum').Enum):
            return list(vc)
        if vc.__name__ == 'SpfDomainSpec':
            return [vc('example.com'), vc('_spf.%{d}')]
        return []
    if issubclass(component, F.FieldValueComponentUrl):
        return ['mailto:dmarc-report@example.com', 'https://example.com/dmarc/report', 'mailto:a@b.example']
    if issubclass(component, F.FieldValueComponentString):
        return {'charset': ['utf-8', 'ISO-8859-1', 'US-ASCII'], 'boundary': ['boundary_pattern', 'gc0p4Jq0M2Yt08jU534c0p'],
                'domain': ['example.com', '.example.org'], 'path': ['/', '/a/b'],
                'report': ['https://report.example.com/x', 'http://example.com'], 'id': ['20160831085700Z', '1', 'a' * 32],
                'report_to': ['group1', 'default']}.get(lname, ['token1', 'v2'])
    return []


def seeds_multiple(cls, rng, count):
    """[(object, kwargs)] for a FieldValueMultiple subclass: minimal, full, each optional alone, random subsets"""
    import attr
    fields = attr.fields_dict(cls)
    types = cls._get_attr_to_validator_type_dict(fields)  # pylint: disable=protected-access
    basic = [n for n, a in fields.items() if not a.metadata.get('extension', False)]
    pools = {n: pool(types[n], rng) for n in basic}
    required = [n for n in basic if fields[n].default is attr.NOTHING]
    optional = [n for n in basic if n not in required and pools[n]]
    if any(not pools[n] for n in required):
        return []
    combos = [set(), set(optional)] + [{n} for n in optional]
    for _ in range(count):
        combos.append({n for n in optional if rng.random() < 0.5})
    out, seen = [], set()
    for which in combos:
        for attempt in range(4):
            kwargs = {n: (pools[n][0] if not out and attempt == 0 else rng.choice(pools[n])) for n in required}
            for n in sorted(which):       # (a set: sorted, so that the rng is consumed in one order)
                kwargs[n] = rng.choice(pools[n])
            try:
                obj = cls(**kwargs)
                data = bytes(obj.compose())
            except Exception:  # pylint: disable=broad-except
                continue                # e.g. Content-Type: boundary iff multipart/message
            if data not in seen:
                seen.add(data)
                out.append(obj)
            break
    return out


def flag_names_of(cls):
    import attr
    F = _mods()[0]
    out = []
    for t in cls._get_attr_to_validator_type_dict(attr.fields_dict(cls)).values():  # pylint: disable=protected-access
        if inspect.isclass(t) and issubclass(t, F.FieldValueComponentOption):
            out.append(t.get_canonical_name().encode('ascii'))
    return out


# ------------------------------------------------------------------------------------------------
# case generators
# ------------------------------------------------------------------------------------------------

def seed_case(cls, obj, canonical, sub='value', key_cls=None, detail='roundtrip'):
    return {'kind': 'c18', 'layer': 'seed', 'sub': sub, 'cls': class_path(cls), 'key_cls': key_cls or cls.__name__,
            'canonical': hx(canonical), 'value': canon.generic(obj) if obj is not None else None, 'detail': detail}


def variant_case(cls, canonical, v, cite, layer='value', key_cls=None):
    return {'kind': 'c18', 'layer': layer, 'cls': class_path(cls), 'key_cls': key_cls or cls.__name__, 'canonical': hx(canonical),
            'variant': hx(v.data), 'vkind': v.vkind, 'detail': v.detail, 'note': v.note, 'cmp': v.cmp, 'recompose': v.recompose,
            'cite': cite}


def cases_for_list(cls, canonical, rules, rng, combos, flag_names=()):
    """variants of one canonical spelling of a separator-delimited name[=value] list; singles first, then
    combinations of the singles that hold (evaluated here, on the real code, to choose them)"""
    elems = tokenise(canonical, rules.sep)
    if elems is None:
        return [], 'untokenisable'
    singles = list_variants(cls.__name__, rules, elems, rng, flag_names)
    cases, passing = [], []
    first = parse_as(cls, canonical, 'value')
    stable = False
    if first.ok:
        try:
            stable = bytes(first.obj.compose()) == canonical
        except Exception:  # pylint: disable=broad-except
            stable = False
    for v, mutation in singles:
        if v.data == canonical:
            continue
        if not stable:
            v.recompose = False         # the canonical spelling itself does not survive (reported once, by the seed case)
        case = variant_case(cls, canonical, v, rules.cite)
        cases.append(case)
        if mutation is not None and not check_case(case):
            passing.append((v.vkind, mutation))
    for _ in range(combos):
        if len(passing) < 2:
            break
        chosen, used = [], set()
        for vkind, mutation in rng.sample(passing, min(len(passing), rng.randrange(2, 6))):
            slot = (mutation[0], mutation[1]) if mutation[0] in ('name', 'eq', 'value', 'first') else mutation[0]
            if slot in used or (mutation[0] == 'insert' and 'order' in used) or (mutation[0] == 'order' and 'insert' in used):
                continue
            used.add(slot)
            chosen.append((vkind, mutation))
        if len(chosen) < 2:
            continue
        data, kinds = combine(rules, elems, chosen, rng)
        has_insert = any(m[0] == 'insert' for _, m in chosen)
        v = Variant('combined', kinds, data, 'several variations at once',
                    cmp_mode='noext' if has_insert and rules.unknown == 'extension' else 'full',
                    recompose=stable and not (has_insert and rules.unknown == 'extension'))
        if data != canonical:
            cases.append(variant_case(cls, canonical, v, rules.cite))
    return cases, None


def gen_multiple(rng, tier, notes):
    cases = []
    count = 4 if tier == 'quick' else 40
    combos = 3 if tier == 'quick' else 12
    for cls in multiple_classes():
        rules = RULES.get(cls.__name__)
        if rules is None:
            notes.append('no RFC rules written for {}: canonical checks only'.format(cls.__name__))
            rules = NO_RULES
        flags = flag_names_of(cls)
        for obj in seeds_multiple(cls, rng, count):
            canonical = bytes(obj.compose())
            cases.append(seed_case(cls, obj, canonical))
            if cls.__name__ == 'HttpHeaderFieldValueSetCookieParams':
                continue                # the attribute list of Set-Cookie: its spellings are exercised through HttpHeaderFieldValueSetCookie
            more, why = cases_for_list(cls, canonical, rules, rng, combos, flags)
            cases.extend(more)
    return cases


# REQUIRED since the repair `quote_aware` (formerly known findings): the classes whose RFC grammar has quoted-string
# directive values (`Rules.quoted_sep`), each with a minimal and a full value,
REQUIRED_QUOTED_SEPARATOR = [
    ('HttpHeaderFieldValueSTS', [{'max_age': 5}, {'max_age': 31536000, 'include_subdomains': True, 'preload': True}]),
    ('HttpHeaderFieldValueExpectCT', [{'max_age': 5}, {'max_age': 86400, 'enforce': True, 'report_uri': 'https://a.example/r'}]),
    ('HttpHeaderFieldValueExpectStaple', [{'max_age': 5}, {'max_age': 86400, 'include_subdomains': True, 'preload': True,
                                                          'report_uri': 'https://a.example/r'}]),
    ('HttpHeaderFieldValuePublicKeyPinning', [{'pin_sha256': B64[0], 'max_age': 5},
                                              {'pin_sha256': B64[1], 'max_age': 5184000, 'include_subdomains': True,
                                               'report_uri': 'https://a.example/r'}]),
    ('HttpHeaderFieldValueCacheControlResponse', [{'max_age': 5}, {'max_age': 300, 's_maxage': 600, 'must_revalidate': True,
                                                                   'no_store': True, 'public': True}]),
]
# and the classes with a quoted-string value of a KNOWN directive that may contain the separators (the URI of report-uri)
REQUIRED_SEPARATOR_IN_QUOTED_STRING = [
    ('HttpHeaderFieldValueExpectCT', {'max_age': 5}, {'max_age': 5, 'enforce': True}),
    ('HttpHeaderFieldValueExpectStaple', {'max_age': 5}, {'max_age': 5, 'include_subdomains': True, 'preload': True}),
    ('HttpHeaderFieldValuePublicKeyPinning', {'pin_sha256': B64[0], 'max_age': 5}, {'pin_sha256': B64[0], 'max_age': 5, 'include_subdomains': True}),
]
# (the first URI per class is the seed of the former known finding: "," for the "," list, ";" for the ";" lists)
REPORT_URIS = ['https://a.example/r?a=1,2', 'https://a.example/r;a=1', 'https://a.example/r;a=1,2;b=3,4', 'https://a.example/,;,/;']


def broken_probe(cls_name, key, message):
    """a REQUIRED probe that could not be generated: evaluated like any case, it reports `key`"""
    return {'kind': 'c18', 'layer': 'broken-probe', 'cls': 'cryptoparser.httpx.header:' + cls_name, 'key_cls': cls_name, 'key': key,
            'vkind': 'required-probe', 'detail': 'not-generated', 'canonical': '-', 'variant': hx(key.encode('ascii')), 'required': 1,
            'message': '{}: the REQUIRED probe {} (a separator inside a quoted-string does not split; repair `quote_aware`) could '
                       'not be generated: {}'.format(cls_name, key, message)}


def gen_quoted_separator(rng, tier):
    """The former known findings `unknown-directive:<Class>:quoted-separator` and
    `canonical:<Class>:separator-in-quoted-string`, REQUIRED behaviour since the repair `quote_aware`.  Nothing here is
    skipped silently: whatever prevents a probe from being generated is a case that reports the key of the probe."""
    _, H, _, _ = _mods()
    cases = []
    for cls_name, seeds in REQUIRED_QUOTED_SEPARATOR:
        key = 'unknown-directive:{}:quoted-separator'.format(cls_name)
        rules = RULES[cls_name]
        cls = getattr(H, cls_name, None)
        if cls is None:
            cases.append(broken_probe(cls_name, key, 'no such class in cryptoparser.httpx.header'))
            continue
        for kwargs in seeds:
            try:
                flags = flag_names_of(cls)
                obj = cls(**kwargs)
                canonical = bytes(obj.compose())
                elems = tokenise(canonical, rules.sep)
                if not elems:
                    raise ValueError('the canonical spelling {!r} is not a {!r}-separated name[=value] list'.format(canonical, rules.sep))
            except Exception as e:  # pylint: disable=broad-except
                cases.append(broken_probe(cls_name, key, '{}(**{}): {}: {}'.format(cls_name, kwargs, type(e).__name__, e)))
                continue
            cases.append(dict(seed_case(cls, obj, canonical), required=1))
            base = [spell(e) for e in elems]
            inner = flags[0] if flags else b'b'
            texts = quoted_separator_values(rules.sep, inner)

            def probe(spelled, note, gaps=None, lead=b'', trail=b''):
                v = Variant('unknown-directive', 'quoted-separator', render(spelled, rules.sep, gaps, lead, trail), note)
                cases.append(dict(variant_case(cls, canonical, v, rules.cite), required=1))
            for name in UNKNOWN_NAMES:
                for text in texts:
                    for pos in range(rules.fixed, len(base) + 1):
                        directive = name + b'=' + text
                        probe(base[:pos] + [directive] + base[pos:], '{!r} inserted at position {}'.format(directive, pos))
            # two of them at once, whitespace in front of the separators (OWS of the list rule), a trailing separator where
            # the list rule has empty elements
            for _ in range(6 if tier == 'quick' else 40):
                first, second = (rng.choice(UNKNOWN_NAMES[:2]) + b'=' + rng.choice(texts), rng.choice(UNKNOWN_NAMES[2:]) + b'=' + rng.choice(texts))
                pos = rng.randrange(rules.fixed, len(base) + 1)
                spelled = base[:pos] + [first] + base[pos:] + [second]
                gaps = [(rng.choice([b'', b' ', b'\t']), rng.choice([b'', b' ', b'  ', b'\t']) if rules.ows_sep else b' ')
                        for _ in range(len(spelled) - 1)]
                trail = rules.sep if rules.empties == 'all' and rng.random() < 0.5 else b''
                probe(spelled, '{!r} at position {} and {!r} at the end'.format(first, pos, second), gaps if rules.ows_sep else None, b'', trail)
    for cls_name, minimal, full in REQUIRED_SEPARATOR_IN_QUOTED_STRING:
        key = 'canonical:{}:separator-in-quoted-string'.format(cls_name)
        rules = RULES[cls_name]
        cls = getattr(H, cls_name, None)
        if cls is None:
            cases.append(broken_probe(cls_name, key, 'no such class in cryptoparser.httpx.header'))
            continue
        for kwargs in (minimal, full):
            for uri in REPORT_URIS:
                try:
                    obj = cls(report_uri=uri, **kwargs)
                    canonical = bytes(obj.compose())
                    if uri.encode('ascii') not in canonical:
                        raise ValueError('compose() gives {!r}, which does not contain the report-uri'.format(canonical))
                    flags = flag_names_of(cls)
                except Exception as e:  # pylint: disable=broad-except
                    cases.append(broken_probe(cls_name, key, '{}(report_uri={!r}, **{}): {}: {}'.format(
                        cls_name, uri, kwargs, type(e).__name__, e)))
                    continue
                cases.append(dict(seed_case(cls, obj, canonical, detail='separator-in-quoted-string'), required=1))
                # every respelling of it (the quoted-string with the separators in it also in front of other directives)
                more, why = cases_for_list(cls, canonical, rules, rng, 3 if tier == 'quick' else 12, flags)
                if why is not None:
                    cases.append(broken_probe(cls_name, key, 'the canonical spelling {!r} is {}'.format(canonical, why)))
                cases.extend(dict(c, required=1) for c in more)
    return cases


def gen_set_cookie(rng, tier):
    """RFC 6265: `cookie-pair *( ";" SP cookie-av )`"""
    _, H, _, _ = _mods()
    cls = H.HttpHeaderFieldValueSetCookie
    rules = RULES[cls.__name__]
    cases = []
    params = seeds_multiple(H.HttpHeaderFieldValueSetCookieParams, rng, 4 if tier == 'quick' else 40)
    import attr
    pairs = [('name', 'value'), ('SID', '31d4d96e407aad42'), ('a', ''), ('__Host-id', 'a.b-c_d')]
    for i, p in enumerate(params):
        name, value = pairs[i % len(pairs)]
        kwargs = {n: getattr(p, n) for n in attr.fields_dict(type(p))}
        try:
            obj = cls(name, value, **kwargs)
            canonical = bytes(obj.compose())
        except Exception:  # pylint: disable=broad-except
            continue
        cases.append(seed_case(cls, obj, canonical))
        more, _ = cases_for_list(cls, canonical, rules, rng, 3 if tier == 'quick' else 12, flag_names_of(H.HttpHeaderFieldValueSetCookieParams))
        cases.extend(more)
    return cases


def gen_single(rng, tier):
    """FieldValueSingle* classes: enumerated values are ABNF literals, hence case-insensitive (RFC 5234 §2.3):
    Pragma `"no-cache"` (RFC 7234 §5.4), X-Frame-Options `"DENY" / "SAMEORIGIN"` (RFC 7034 §2.1),
    X-Content-Type-Options `"nosniff"` (Fetch §3.5, "case-insensitive"), Referrer-Policy tokens (W3C Referrer Policy §4.1);
    HTTP-date: RFC 7231 §7.1.1.1 "recipients MUST accept all three formats" (IMF-fixdate, rfc850-date, asctime-date)."""
    F, H, _, _ = _mods()
    cases = []
    for cls in all_subclasses(F.FieldValueSingleBase):
        if not concrete(cls) or cls.__module__ == F.__name__:
            continue
        if issubclass(cls, F.FieldValueStringEnum):
            for member in cls._get_value_type():  # pylint: disable=protected-access
                obj = cls(member)
                canonical = bytes(obj.compose())
                cases.append(seed_case(cls, obj, canonical))
                if cls.__module__ == H.__name__:
                    for label, text in case_patterns(canonical, rng):
                        cases.append(variant_case(cls, canonical, Variant('case', 'value', text, '{} spelled {}'.format(
                            canonical.decode(), text.decode())), 'RFC 5234 2.3 (ABNF literal)'))
        elif issubclass(cls, F.FieldValueDateTime):
            for dt in (datetime.datetime(1994, 11, 6, 8, 49, 37, tzinfo=UTC), datetime.datetime(2030, 1, 2, 3, 4, 5, tzinfo=UTC),
                       datetime.datetime(2001, 9, 9, 1, 46, 40, tzinfo=UTC), datetime.datetime(2024, 2, 29, 23, 59, 59, tzinfo=UTC)):
                obj = cls(dt)
                canonical = bytes(obj.compose())
                cases.append(seed_case(cls, obj, canonical))
                rfc850 = dt.strftime('%A, %d-%b-%y %H:%M:%S GMT').encode('ascii')
                asctime = (dt.strftime('%a %b ') + '{:2d}'.format(dt.day) + dt.strftime(' %H:%M:%S %Y')).encode('ascii')
                cases.append(variant_case(cls, canonical, Variant('date-format', 'rfc850', rfc850, 'obsolete RFC 850 format'), 'RFC 7231 7.1.1.1'))
                cases.append(variant_case(cls, canonical, Variant('date-format', 'asctime', asctime, 'ANSI C asctime() format'), 'RFC 7231 7.1.1.1'))
        elif issubclass(cls, F.FieldValueTimeDelta):
            for secs in (0, 1, 5, 2 ** 31 - 1, MAX_TD):
                obj = cls(datetime.timedelta(seconds=secs))
                cases.append(seed_case(cls, obj, bytes(obj.compose())))
        elif issubclass(cls, F.FieldValueString):
            for text in ('"33a64df551425fcc55e4d42a148795d9f25f89d4"', 'W/"0815"', 'Apache/2.4.41 (Ubuntu)', 'x'):
                obj = cls(text)
                cases.append(seed_case(cls, obj, bytes(obj.compose())))
    return cases


def gen_nel(rng, tier):
    """NEL (W3C Network Error Logging §3.3: the field value is JSON).  RFC 8259 §2: insignificant whitespace is
    allowed before or after any of the six structural characters; §4: an object is an UNORDERED collection;
    NEL §3.3: unknown members are ignored (the algorithm reads the named members only)."""
    F, H, _, _ = _mods()
    cases = []
    for cls in all_subclasses(F.FieldsJson):
        if not concrete(cls):
            continue
        for obj in seeds_multiple_json(cls, rng, 4 if tier == 'quick' else 30):
            canonical = bytes(obj.compose())
            cases.append(seed_case(cls, obj, canonical))
            members = list(json.loads(canonical.decode('ascii'), object_pairs_hook=lambda p: p))
            cite = 'RFC 8259 2/4, NEL 3.3'

            def dump(ms, item_sep=', ', key_sep=': ', lead='', trail=''):
                return (lead + '{' + item_sep.join(json.dumps(k) + key_sep + json.dumps(v) for k, v in ms) + '}' + trail).encode('ascii')
            if dump(members) != canonical:
                continue
            cases.append(variant_case(cls, canonical, Variant('ows', 'none', dump(members, ',', ':'), 'no whitespace'), cite))
            cases.append(variant_case(cls, canonical, Variant('ows', 'around-structural', dump(members, ' , ', ' : ', ' ', ' '),
                                                              'SP around every structural character'), cite))
            cases.append(variant_case(cls, canonical, Variant('ows', 'htab-around-structural', dump(members, '\t,\t', '\t:\t'),
                                                              'HTAB around structural characters'), cite))
            perm = list(members)
            rng.shuffle(perm)
            for label, order in (('reversed', list(reversed(members))), ('shuffled', perm)):
                if order != members:
                    cases.append(variant_case(cls, canonical, Variant('order', 'permutation', dump(order), label), cite))
            for pos in (0, len(members)):
                extra = members[:pos] + [('x_c18_unknown', {'a': [1, 'b']})] + members[pos:]
                cases.append(variant_case(cls, canonical, Variant('unknown-directive', 'member', dump(extra), 'unknown member at {}'.format(pos)), cite))
    return cases


def seeds_multiple_json(cls, rng, count):
    import attr
    fields = attr.fields_dict(cls)
    types = cls._get_attr_to_validator_type_dict(fields)  # pylint: disable=protected-access
    pools = {n: pool(types[n], rng) for n in fields}
    required = [n for n in fields if fields[n].default is attr.NOTHING]
    optional = [n for n in fields if n not in required and pools[n]]
    out, seen = [], set()
    combos = [set(), set(optional)] + [{n} for n in optional] + [{n for n in optional if rng.random() < 0.5} for _ in range(count)]
    for which in combos:
        kwargs = {n: rng.choice(pools[n]) for n in required}
        kwargs.update({n: rng.choice(pools[n]) for n in sorted(which)})
        try:
            obj = cls(**kwargs)
            data = bytes(obj.compose())
        except Exception:  # pylint: disable=broad-except
            continue
        if data not in seen:
            seen.add(data)
            out.append(obj)
    return out


def gen_csp(rng, tier):
    """CSP3 §2.2.1 "parse a serialized CSP": strictly split on ";"; "strip leading and trailing ASCII whitespace"
    (TAB, LF, FF, CR, SP) from each token; an empty token is skipped; the directive name is the run of non-whitespace
    characters, "set directive name to be the result of running ASCII lowercase on directive name"; the value is split
    on ASCII whitespace; no step rejects a name the user agent does not know."""
    _, H, _, _ = _mods()
    cls = H.HttpHeaderFieldValueContentSecurityPolicy
    cite = 'CSP3 2.2.1'
    texts = [
        b"default-src 'self'",
        b"default-src 'self'; script-src 'self' https://cdn.example.com 'nonce-abcd'; img-src *",
        b"default-src 'none'; style-src 'self' 'unsafe-inline'; upgrade-insecure-requests; block-all-mixed-content",
        b"frame-ancestors 'none'; sandbox allow-forms allow-scripts; report-uri /csp /csp2; report-to grp",
        b"script-src 'sha256-AAECAwQFBgcICQoLDA0ODxAREhMUFRYXGBkaGxwdHh8=' https:; object-src 'none'; base-uri 'self'",
        b"upgrade-insecure-requests",
    ]
    cases = []
    for text in texts:
        try:
            obj = cls.parse_exact_size(text)
            canonical = bytes(obj.compose())
        except Exception:  # pylint: disable=broad-except
            continue
        cases.append(seed_case(cls, obj, canonical))
        directives = [d.strip(b' ') for d in canonical.split(b';')]
        words = [d.split(b' ') for d in directives]

        def build(ws, item_sep=b'; ', word_sep=b' '):
            return item_sep.join(word_sep.join(w) for w in ws)
        if build(words) != canonical:
            continue
        for i, w in enumerate(words):
            for label, name in case_patterns(w[0], rng)[:3]:
                respelled = [list(x) for x in words]
                respelled[i][0] = name
                cases.append(variant_case(cls, canonical, Variant('case', 'directive-name', build(respelled), '{} spelled {}'.format(
                    w[0].decode(), name.decode())), cite))
        for prefix, run in (('', b' '), ('', b'   '), ('htab-', b'\t'), ('htab-', b' \t ')):
            if len(words) > 1:
                cases.append(variant_case(cls, canonical, Variant('ows', prefix + 'before-semicolon', build(words, run + b'; '), repr(run)), cite))
                cases.append(variant_case(cls, canonical, Variant('ows', prefix + 'after-semicolon', build(words, b';' + run), repr(run)), cite))
            if any(len(w) > 1 for w in words) and run != b' ':
                cases.append(variant_case(cls, canonical, Variant('ows', prefix + 'between-words', build(words, b'; ', run), repr(run)), cite))
            cases.append(variant_case(cls, canonical, Variant('ows', prefix + 'leading', run + canonical, repr(run)), cite))
            cases.append(variant_case(cls, canonical, Variant('ows', prefix + 'trailing', canonical + run, repr(run)), cite))
        if len(words) > 1:
            cases.append(variant_case(cls, canonical, Variant('ows', 'none-after-semicolon', build(words, b';'), 'no whitespace'), cite))
            cases.append(variant_case(cls, canonical, Variant('empty-element', 'doubled', build(words, b';; '), 'separator doubled'), cite))
            cases.append(variant_case(cls, canonical, Variant('order', 'permutation', build(list(reversed(words))), 'reversed',
                                                              cmp_mode='multiset:directives', recompose=False), cite))
        cases.append(variant_case(cls, canonical, Variant('empty-element', 'trailing', canonical + b';', 'trailing separator'), cite))
        cases.append(variant_case(cls, canonical, Variant('empty-element', 'leading', b'; ' + canonical, 'leading separator'), cite))
        for pos in (0, len(words)):
            extra = words[:pos] + [[b'x-c18-unknown', b'value1']] + words[pos:]
            cases.append(variant_case(cls, canonical, Variant('unknown-directive', 'directive', build(extra), 'unknown directive at {}'.format(pos),
                                                              cmp_mode='subseq:directives', recompose=False), cite))
    return cases


def gen_spf(rng, tier):
    """RFC 7208 §12: `record = version terms *SP`, `terms = *( 1*SP ( directive / modifier ) )`, `version = "v=spf1"`;
    §4.6.1 / §12: "mechanism and modifier names are case-insensitive" (ABNF literals, RFC 5234 §2.3); §6: "unrecognized
    modifiers MUST be ignored".  The order of mechanisms is significant and not varied."""
    _, _, _, T = _mods()
    cls = T.DnsRecordTxtValueSpf
    cite = 'RFC 7208 4.6.1/12'
    texts = [b'v=spf1 -all', b'v=spf1 include:_spf.example.com ~all', b'v=spf1 a mx ptr ip4:192.0.2.0/24 ip6:2001:db8::/32 -all',
             b'v=spf1 a:mail.example.com/28 mx:example.org exists:%{i}.bl.example ?all', b'v=spf1 redirect=_spf.example.com',
             b'v=spf1 mx -all exp=explain.example.com', b'v=spf1',
             # dual-cidr-length directly behind the mechanism name (no domain-spec), RFC 7208 5.3 / 5.4
             b'v=spf1 a/24 mx//64 -all', b'v=spf1 +a/16//48 ~mx/24 ?all', b'v=spf1 a/0 mx/32//128 a:d.example//64 -all']
    cases = []
    for text in texts:
        try:
            obj = cls.parse_exact_size(text)
            canonical = bytes(obj.compose())
        except Exception:  # pylint: disable=broad-except
            continue
        cases.append(seed_case(cls, obj, canonical))
        terms = canonical.split(b' ')
        for run in (b'  ', b'    '):
            if len(terms) > 1:
                cases.append(variant_case(cls, canonical, Variant('ows', 'between-terms', run.join(terms), repr(run)), cite))
            cases.append(variant_case(cls, canonical, Variant('ows', 'trailing', canonical + run[:len(run) // 2], 'record = version terms *SP'), cite))
        for label, ver in case_patterns(terms[0], rng)[:2]:
            cases.append(variant_case(cls, canonical, Variant('case', 'version', b' '.join([ver] + terms[1:]), ver.decode()), cite))
        for i in range(1, len(terms)):
            term = terms[i]
            start = 1 if term[:1] in b'+-~?' else 0
            end = start
            while end < len(term) and term[end:end + 1].isalnum():
                end += 1
            name = term[start:end]
            for label, respelled in case_patterns(name, rng)[:2]:
                out = list(terms)
                out[i] = term[:start] + respelled + term[end:]
                kind = 'modifier-name' if term[end:end + 1] == b'=' else 'mechanism-name'
                cases.append(variant_case(cls, canonical, Variant('case', kind, b' '.join(out), '{} spelled {}'.format(
                    name.decode(), respelled.decode())), cite))
        for pos in (1, len(terms)):
            out = terms[:pos] + [b'x-c18-unknown=value1'] + terms[pos:]
            cases.append(variant_case(cls, canonical, Variant('unknown-directive', 'modifier', b' '.join(out), 'unknown modifier at {}'.format(pos),
                                                              cmp_mode='subseq:terms', recompose=False), cite))
    return cases


def gen_pairs(rng, tier):
    """The library's own generic lists (`NameValuePairList*`: `separator_spaces=' \\t'`, `skip_empty=True`): whitespace
    around the separator and empty elements (scanner layer theorems `ws_before_sep`, `ws_after_sep`, `empty_element`)."""
    F = _mods()[0]
    cases = []
    for cls in all_subclasses(F.NameValuePairList):
        if inspect.isabstract(cls) or not cls.__module__.startswith('cryptoparser.'):
            continue
        sep = cls.get_separator().encode('ascii')
        rules = Rules(sep, 'field.py NameValuePairList (scanner contract)', ows_sep=b' \t', empties='all')
        for items in ([(b'a', b'1')], [(b'a', b'1'), (b'b', None), (b'c', b'x=y')], [(b'max-age', b'0'), (b'k', b'')]):
            canonical = render([spell(e) for e in items], sep)
            cases.append({'kind': 'c18', 'layer': 'seed', 'sub': 'value', 'cls': class_path(cls), 'key_cls': cls.__name__,
                          'canonical': hx(canonical), 'value': None, 'detail': 'roundtrip'})
            for v, _ in list_variants(cls.__name__, rules, items, rng):
                if v.vkind in ('ows', 'empty-element'):
                    cases.append(variant_case(cls, canonical, v, rules.cite))
    return cases


# ---- header lines ------------------------------------------------------------------------------

CRLF = b'\r\n'


def sample_values(rng, tier):
    """{value class name: [canonical spellings]} — from the generators above"""
    _, H, _, _ = _mods()
    out = {}
    for cls in multiple_classes():
        vals = [bytes(o.compose()) for o in seeds_multiple(cls, rng, 1)]
        out[cls.__name__] = vals[:3] + vals[-1:]
    out['HttpHeaderFieldValueSetCookie'] = [b'name=value', b'SID=31d4d96e407aad42; Domain=example.com; Path=/; Secure; HttpOnly']
    out['HttpHeaderFieldValueContentSecurityPolicy'] = [b"default-src 'self'", b"default-src 'self'; img-src *"]
    out['HttpHeaderFieldValueNetworkErrorLogging'] = [b'{"report_to": "group1", "max_age": 5}']
    out['HttpHeaderFieldValueETag'] = [b'"33a64df551425fcc55e4d42a148795d9f25f89d4"', b'W/"0815"']
    out['HttpHeaderFieldValueServer'] = [b'Apache/2.4.41 (Ubuntu)', b'x']
    out['HttpHeaderFieldValueAge'] = [b'0', b'5', b'2147483647']
    for name in ('HttpHeaderFieldValueDate', 'HttpHeaderFieldValueExpires', 'HttpHeaderFieldValueLastModified'):
        out[name] = [b'Sun, 06 Nov 1994 08:49:37 GMT', b'Wed, 02 Jan 2030 03:04:05 GMT']
    out['HttpHeaderFieldValueXContentTypeOptions'] = [b'nosniff']
    out['HttpHeaderFieldValuePragma'] = [b'no-cache']
    out['HttpHeaderFieldValueXFrameOptions'] = [b'DENY', b'SAMEORIGIN']
    out['HttpHeaderFieldValueReferrerPolicy'] = [b'no-referrer', b'strict-origin-when-cross-origin']
    return out


def parse_owner(cls):
    """the class whose `_parse` reads the line: findings about the line syntax are keyed by it"""
    for klass in cls.__mro__:
        if '_parse' in klass.__dict__:
            return klass.__name__
    return cls.__name__


def line_variants(name, value, rng):
    """RFC 7230 §3.2: `header-field = field-name ":" OWS field-value OWS`, "each header field consists of a
    case-insensitive field name"; OWS = *( SP / HTAB ); §3.2.4: the field value does not include the leading or
    trailing whitespace."""
    out = []
    for label, respelled in case_patterns(name, rng):
        out.append(Variant('case', 'field-name', respelled + b': ' + value + CRLF, '{} spelled {}'.format(name.decode(), respelled.decode())))
    out.append(Variant('ows', 'none-after-colon', name + b':' + value + CRLF, 'no whitespace after the colon'))
    out.append(Variant('ows', 'after-colon', name + b':   ' + value + CRLF, 'three SP after the colon'))
    out.append(Variant('ows', 'htab-after-colon', name + b':\t' + value + CRLF, 'HTAB after the colon'))
    out.append(Variant('ows', 'htab-after-colon', name + b': \t ' + value + CRLF, 'SP HTAB SP after the colon'))
    out.append(Variant('ows', 'before-crlf', name + b': ' + value + b' ' + CRLF, 'SP before CRLF'))
    out.append(Variant('ows', 'before-crlf', name + b': ' + value + b'   ' + CRLF, 'three SP before CRLF'))
    out.append(Variant('ows', 'htab-before-crlf', name + b': ' + value + b'\t' + CRLF, 'HTAB before CRLF'))
    return out


def gen_lines(rng, tier, values):
    _, H, _, _ = _mods()
    cases = []
    cite = 'RFC 7230 3.2'
    for cls in line_classes():
        name = cls.get_header_field_name().value.normalized_name.encode('ascii')
        vals = values.get(cls._get_value_class().__name__, [])  # pylint: disable=protected-access
        owner = parse_owner(cls)
        for value in vals[:2 if tier == 'quick' else 4]:
            canonical = name + b': ' + value + CRLF
            cases.append(dict(seed_case(cls, None, canonical, sub='line'), value=None))
            for v in line_variants(name, value, rng):
                cases.append(variant_case(cls, canonical, v, cite, layer='line', key_cls=owner))
    cls = H.HttpHeaderFieldUnparsed
    for name, value in ((b'X-Custom', b'some value'), (b'Via', b'1.1 proxy.example')):
        canonical = name + b': ' + value + CRLF
        cases.append(dict(seed_case(cls, None, canonical, sub='line'), value=None))
        for v in line_variants(name, value, rng):
            if v.vkind == 'case':
                continue                # an unknown name is kept verbatim
            cases.append(variant_case(cls, canonical, v, cite, layer='line', key_cls=cls.__name__))
    return cases


# ---- header blocks -----------------------------------------------------------------------------

def ref_split(line):
    """RFC 7230 §3.2 reference: field-name ":" OWS field-value OWS (line without CRLF) -> (name, value) or None"""
    if b':' not in line:
        return None
    name, value = line.split(b':', 1)
    if not name or name != name.strip(b' \t'):
        return None
    return name, value.strip(b' \t')


def understood():
    """{lower-case field name: header field class} from the live variant table"""
    return {cls.get_header_field_name().value.code.lower(): cls for cls in line_classes()}


def check_block(case):
    _, H, _, _ = _mods()
    lines = [unhx(x) for x in case['lines']]
    block = b''.join(line + CRLF for line in lines) + CRLF
    known = understood()
    expected = []
    for line in lines:
        ref = ref_split(line)
        if ref is None:
            return []
        name, value = ref
        cls = known.get(name.decode('ascii').lower())
        exp = ('unparsed', name.decode('ascii'), value.decode('ascii'))
        if cls is not None:
            try:
                parsed = cls._get_value_class().parse_exact_size(value)  # pylint: disable=protected-access
                exp = ('parsed', cls.__name__, canon.generic(parsed))
            except Exception as e:  # pylint: disable=broad-except
                if core.err_line(e).startswith('CRASH'):
                    return []           # a crash of the value parser is C02's finding, not this one's
        expected.append(exp)
    vkind, detail = case['vkind'], case['detail']
    key = '{}:HttpHeaderFields:{}'.format(vkind, detail)
    try:
        fields = H.HttpHeaderFields.parse_exact_size(block)
    except Exception as e:  # pylint: disable=broad-except
        return [(key if vkind != 'block' else 'block:HttpHeaderFields:' + (detail if detail != 'fields' else 'raises'),
                 'HttpHeaderFields: the block {!r} is rejected ({}); field by field it is {}'.format(block, core.err_line(e), expected))]
    got = []
    for item in fields:
        if isinstance(item, H.HttpHeaderFieldUnparsed):
            got.append(('unparsed', item.name, item.value))
        else:
            got.append(('parsed', type(item).__name__, canon.generic(item.value)))
    if got != expected:
        first = next((i for i, (g, e) in enumerate(zip(got, expected)) if g != e), min(len(got), len(expected)))
        if vkind == 'block':
            if first < len(got) and first < len(expected) and expected[first][0] == 'parsed' and got[first][0] == 'unparsed':
                key = 'block:HttpHeaderFields:fallback'
            elif len(got) != len(expected):
                key = 'block:HttpHeaderFields:count'
        return [(key, 'HttpHeaderFields: block {!r}: field {} is {} but the line {!r} is {} (RFC 7230 3.2 reference splitter + the value '
                      'class on its own)'.format(block, first, got[first] if first < len(got) else None,
                                                 lines[first] if first < len(lines) else None,
                                                 expected[first] if first < len(expected) else None))]
    return []


def gen_blocks(rng, tier, values):
    known = understood()
    good = []
    for lname, cls in sorted(known.items()):
        name = cls.get_header_field_name().value.normalized_name.encode('ascii')
        for value in values.get(cls._get_value_class().__name__, [])[:2]:  # pylint: disable=protected-access
            good.append((name, value))
    unknown = [(b'X-Custom', b'some value'), (b'Via', b'1.1 proxy.example'), (b'X-Empty', b''), (b'Content-Length', b'0')]
    invalid = [(b'Age', b'x'), (b'Strict-Transport-Security', b'foo'), (b'Date', b'99999'), (b'Content-Type', b'text/html; charset')]
    cases = []

    def block(lines, vkind='block', detail='fields'):
        cases.append({'kind': 'c18', 'layer': 'block', 'lines': [hx(x) for x in lines], 'vkind': vkind, 'detail': detail})
    # every understood field alone, and between unknown fields
    for name, value in good:
        block([name + b': ' + value])
        block([unknown[0][0] + b': ' + unknown[0][1], name + b': ' + value, unknown[1][0] + b': ' + unknown[1][1]])
    for name, value in unknown + invalid:
        block([name + b': ' + value])
    # an understood field whose value is not valid for the detailed parser (trailing garbage): kept unparsed, the
    # rest of the block unaffected
    for name, value in ((b'Age', b'5 x'), (b'Pragma', b'no-cachex'), (b'Strict-Transport-Security', b'max-age=1; includeSubDomains=1')):
        block([b'X-Custom: v', name + b': ' + value], detail='understood-field-invalid-value')
    # random blocks, canonical spelling
    n = 40 if tier == 'quick' else 600
    for _ in range(n):
        lines = []
        for _ in range(rng.randrange(1, 7)):
            name, value = rng.choice(good if rng.random() < 0.6 else unknown + invalid)
            lines.append(name + b': ' + value)
        block(lines)
    # blocks with one line respelled (RFC 7230 §3.2 variations): every variation on a few fixed fields, then random ones
    for name, value in good[:3] + good[len(good) // 2:len(good) // 2 + 2] + unknown[:1]:
        for v in line_variants(name, value, rng):
            if v.vkind == 'case' and name.decode().lower() not in known:
                continue
            block([b'X-Custom: v', v.data[:-2], b'Via: 1.1 proxy.example'], v.vkind, v.detail)
    for _ in range(n):
        lines = []
        k = rng.randrange(1, 5)
        which = rng.randrange(k)
        vkind = detail = None
        for i in range(k):
            name, value = rng.choice(good if rng.random() < 0.7 else unknown)
            if i == which:
                pick = [v for v in line_variants(name, value, rng) if v.vkind != 'case' or name.decode().lower() in known]
                v = rng.choice(pick)
                vkind, detail = v.vkind, v.detail
                lines.append(v.data[:-2])
            else:
                lines.append(name + b': ' + value)
        block(lines, vkind, detail)
    return cases


# ---- corpus -------------------------------------------------------------------------------------

def gen_corpus(rng, tier, notes):
    """the (class, bytes) pairs the repository's own tests parse, for the classes of this layer: their canonical
    spelling is varied like a generated one"""
    try:
        from harness import corpus
        pairs = corpus.harvest()
    except Exception as e:  # pylint: disable=broad-except
        notes.append('corpus unavailable: {}'.format(str(e)[:200]))
        return []
    F, H, _, T = _mods()
    cases, used = [], 0
    multiple = {c.__name__: c for c in multiple_classes()}
    for cls, data in pairs:
        if cls.__name__ == 'HttpHeaderFieldValueSetCookieParams':
            continue                    # exercised through HttpHeaderFieldValueSetCookie
        if cls.__name__ in multiple or cls is H.HttpHeaderFieldValueSetCookie:
            try:
                obj = cls.parse_exact_size(data)
                canonical = bytes(obj.compose())
            except Exception:  # pylint: disable=broad-except
                continue
            rules = RULES.get(cls.__name__, NO_RULES)
            used += 1
            cases.append(seed_case(cls, obj, canonical))
            flags = flag_names_of(cls if cls.__name__ in multiple else H.HttpHeaderFieldValueSetCookieParams)
            cases.extend(cases_for_list(cls, canonical, rules, rng, 2, flags)[0])
    notes.append('corpus: {} (class, bytes) pairs of the repository tests re-spelled'.format(used))
    return cases


# ------------------------------------------------------------------------------------------------
# the component table (tie 1) and the TX ops (tie 2 for the field model)
# ------------------------------------------------------------------------------------------------

def check_table(run):
    """Gen/Fields.lean on disk must be what a fresh extraction from the live classes gives"""
    tool = os.path.join(core.VERIF, 'tools', 'extract_fields.py')
    path = os.path.join(core.LEAN, 'CpModel', 'Gen', 'Fields.lean')
    if not os.path.exists(tool):
        run.notes.append('tools/extract_fields.py missing: component table not cross-checked')
        return None
    sys.path.insert(0, os.path.dirname(tool))
    try:
        import extract_fields
        text = extract_fields.render()
        table = extract_fields.tables()
    finally:
        sys.path.pop(0)
    try:
        with open(path) as f:
            on_disk = f.read()
    except IOError:
        on_disk = None
    if on_disk != text:
        run.disagreements.append(({'kind': 'table', 'file': path}, 0, 'Gen/Fields.lean on disk', 'fresh extraction differs'))
    run.count('table', 'classes', len(table))
    run.count('table', 'components', sum(len(t['components']) for t in table))
    return table


class TxOracle(object):
    """case {'kind':'tx','cls':name,'data':hex}: `TX <Class> <hex>` — the component assignment the generic model of
    `_parse_basic_params` computes (per attribute: `-` absent/default, `=<hex>` the raw value text handed to the
    component parser, `!` present without value) against the same assignment observed on the real class."""

    @staticmethod
    def lines(case):
        return ['TX {} {}'.format(case['cls'], case['data'])]

    @staticmethod
    def impl(case):
        import extract_fields
        return [extract_fields.observe_assignment(case['cls'], unhx(case['data']))]

    @staticmethod
    def prop(case):
        return []


def gen_tx(cases, table, rng, tier):
    """TX ops for the spellings the layer generated (value layer, FieldValueMultiple classes only)"""
    names = {t['cls'] for t in table}
    out, seen = [], set()
    # (the REQUIRED quoted-separator probes first: they are never sampled away)
    for c in [c for c in cases if c.get('required')] + [c for c in cases if not c.get('required')]:
        if c.get('layer') not in ('value', 'seed') or c.get('kind') != 'c18':
            continue
        name = c['cls'].split(':')[1]
        if name not in names:
            continue
        for key in ('variant', 'canonical'):
            if key in c and (name, c[key]) not in seen:
                seen.add((name, c[key]))
                out.append(dict({'kind': 'tx', 'cls': name, 'data': c[key]}, **({'required': 1} if c.get('required') else {})))
    limit = 4000 if tier == 'quick' else 60000
    kept = [c for c in out if c.get('required')]
    rest = [c for c in out if not c.get('required')]
    out = kept + (rng.sample(rest, limit) if len(rest) > limit else rest)
    # off-grammar material for the model of NameValuePair / the ordered dictionary / the matching loop: duplicate names in
    # several spellings, runs of "=", unbalanced quotes, empty names, the canonical name next to a respelled one
    values = [b'1', b'0', b'"q"', b'"', b'"x', b'x"', b'a=b', b'', b'""', b'"a" ', b'=', b'\xff']
    # the quote state machine of the splitter (`quote_aware`, model `sepSearchQ`): quoted-strings containing the list
    # separator (written for ';', replaced by the separator of the class; ',' stays as the other separator), escaped quotes,
    # escaped backslashes, unbalanced quotes, a backslash outside quotes, a backslash at the end.  About a third of the quoted
    # lists are well-formed with a separator inside a quoted-string, a fifth have a stray DQUOTE (a DQUOTE in a name, in an
    # unquoted value, unescaped inside a quoted value, a lone backslash at its end): InvalidValue for the whole list, in the
    # repaired `NameValuePairList._parse` and in the model alike
    quoted = [b'"a; b"', b'"a, b"', b'"a\\"; b"', b'"a\\\\"; b', b'"a; b', b'a"; b', b'\\"; a', b'"a\\\\\\"; b"', b'"; "', b'";"', b'";',
              b'"a; b"c', b'"a; b" c="d; e"', b'"a; b";c', b'"\\;"', b'"\\', b'a\\', b'a\\; b', b'"a;\\', b'"";', b'"""; a',
              b'"a "b; c" d"', b'"a; b"; "c', b'"\xff; b"', b'\'a; b\'', b'"a; b",', b'"a\r\n; b"']
    eqs = [b'', b'=', b'=', b'==', b' = ', b'= ', b' =']
    for t in table:
        sep = t['sep'].encode('ascii')
        names = []
        for c in t['components']:
            n = c['name'].encode('ascii')
            names += [n, n.upper(), n.lower(), n.swapcase(), n + b'x', n[:-1]]
        names += [b'', b'x-unknown', b'X-Unknown', b' ', b'"']
        for i in range(300 if tier == 'quick' else 6000):
            parts = []
            for _ in range(rng.randrange(0, 7)):
                eq = rng.choice(eqs)
                if i % 2 and rng.random() < 0.45:           # every second list has quoted material in it
                    text = rng.choice(quoted).replace(b';', sep)
                    part = text if rng.random() < 0.15 else rng.choice(names) + (eq or b'=') + text
                else:
                    part = rng.choice(names) + eq + (rng.choice(values) if eq else b'')
                parts.append(rng.choice([b'', b' ', b'\t', b'  ']) + part + rng.choice([b'', b' ', b'\t']))
            data = rng.choice([sep, sep + b' ', sep + sep, b' ' + sep]).join(parts) + rng.choice([b'', sep, b' '])
            out.append({'kind': 'tx', 'cls': t['cls'], 'data': hx(data)})
        # each quoted text on its own: as the value of the first component, of an unknown name, bare; in front of a known element
        first = t['components'][0]['name'].encode('ascii') if t['components'] else b'a'
        for text in quoted:
            text = text.replace(b';', sep)
            for data in (first + b'=' + text, b'x-unknown=' + text + sep + b' ' + first + b'=1', text, first + b'=1' + sep + text + sep + first.upper()):
                out.append({'kind': 'tx', 'cls': t['cls'], 'data': hx(data)})
    return out


# ------------------------------------------------------------------------------------------------
# entry points
# ------------------------------------------------------------------------------------------------

def gen_cases(rng, tier, notes):
    cases = []
    cases += gen_multiple(rng, tier, notes)
    cases += gen_quoted_separator(rng, tier)
    cases += gen_set_cookie(rng, tier)
    cases += gen_single(rng, tier)
    cases += gen_nel(rng, tier)
    cases += gen_csp(rng, tier)
    cases += gen_spf(rng, tier)
    cases += gen_pairs(rng, tier)
    values = sample_values(rng, tier)
    cases += gen_lines(rng, tier, values)
    cases += gen_blocks(rng, tier, values)
    cases += gen_corpus(rng, tier, notes)
    return cases


def run_header_layer(run, driver_ok, tier):
    rng = random.Random('c18-header-{}'.format(run.seed))
    notes = []
    cases = gen_cases(rng, tier, notes)
    run.notes.extend(notes)
    sampled = set()
    for case in cases:
        run.evaluations += 1
        layer = case.get('layer')
        cls_name = case['cls'].split(':')[1] if 'cls' in case else 'HttpHeaderFields'
        run.count('header_layer', layer + ':' + case.get('vkind', 'canonical'))
        run.count('classes', cls_name)
        if case.get('required'):
            run.count('required_quoted_separator', '{}:{}'.format(cls_name, 'canonical' if layer == 'seed' else case.get('vkind')))
        if layer == 'block':
            run.note_nontrivial(('block', tuple(case['lines'])))
        elif layer != 'seed':
            run.note_nontrivial((cls_name, case['variant']))
            if (cls_name, case['vkind']) not in sampled and len(sampled) < 10:
                sampled.add((cls_name, case['vkind']))
                run.sample({k: case[k] for k in ('cls', 'vkind', 'detail', 'canonical', 'variant')}, limit=24)
        for key, message in check_case(case):
            run.finding(key, message, case)
    run.notes.append('REQUIRED since the repair quote_aware (a reappearance is a violation, not a known finding): '
                     'unknown-directive:<Class>:quoted-separator for {}; canonical:<Class>:separator-in-quoted-string for {}; {} probes, '
                     'none skipped (a probe that cannot be generated reports its key); the DNS TXT policy records have no '
                     'quoted-string in their grammars (Rules.quoted_sep False): TX correspondence only'.format(
                         ', '.join(n for n, _ in REQUIRED_QUOTED_SEPARATOR), ', '.join(n for n, _, _ in REQUIRED_SEPARATOR_IN_QUOTED_STRING),
                         sum(1 for c in cases if c.get('required'))))
    table = check_table(run)
    if table is not None and driver_ok and not _driver_has_tx():
        run.notes.append('the driver has no TX op (fieldsOp not linked into Driver.lean): the field model is not compared with the code')
    if table is not None and driver_ok and _driver_has_tx():
        tx = gen_tx(cases, table, rng, tier)
        for c in tx:
            run.count('ops', 'tx')
        sys.path.insert(0, os.path.join(core.VERIF, 'tools'))
        try:
            core.correspond(run, TxOracle, tx)
        finally:
            sys.path.pop(0)


def _driver_has_tx():
    try:
        return core.run_driver(['TX HttpHeaderFieldValueSTS 6d61782d6167653d31']) != ['BAD-OP']
    except RuntimeError:
        return False


def run(run, driver_ok=True, deep=False):
    tier = 'thorough' if deep else run.tier
    c18a.run(run, driver_ok, deep)
    run_header_layer(run, driver_ok, tier)


def search(run, proof):
    if run.tier != 'thorough':
        sub = core.Run(run.prop, 'thorough', run.seed + 1)
        sub.kf = run.kf
        globals()['run'](sub, driver_ok=False, deep=True)
        run.violations.extend(sub.violations)
        run.evaluations += sub.evaluations
        run.notes.append('failing-input search: thorough-tier implementation oracle (both layers), {} cases'.format(sub.evaluations))


def replay(case):
    if case.get('kind') == 'c18':
        return check_case(case)
    if case.get('kind') in ('tx', 'table'):
        return []
    return c18a.replay(case)
