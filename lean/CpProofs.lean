import CpProofs.Num
import CpProofs.Enum
