import CpProofs.Num
import CpProofs.Enum
import CpProofs.Codec
import CpProofs.Codec2
import CpProofs.Reader
import CpProofs.Mpint
import CpProofs.Flags
