import CpSpec.Codes
import CpSpec.Wire
import CpSpec.Mpint
import CpSpec.Tls
import CpSpec.Ja3
import CpSpec.Opp
import CpSpec.Dns
import CpSpec.Ssh
