import CpSpec.Codes
import CpSpec.Wire
