import CpProofs.Hello
/-
  C01 for the TLS handshake messages with structured payloads: compose then parse returns the
  same message and consumes every composed byte, whatever follows.

  The well-formedness predicates (`CertificatesWf`, `ExtWf`, `ExtsWf`, `ClientHelloWf`,
  `ServerHelloWf`, in CpProofs/Hello.lean) spell out the values a caller can construct and that
  are canonical; every side condition on the regenerated tables (`Gen/*.lean`) is decided by the
  kernel, so a table change can only make a `decide` fail.
-/
namespace Cp.C01
open Cp Cp.Codec Cp.Tls Cp.Hello

/-- `Vector` of fixed-width numbers (`TlsSessionIdVector`, …): every item width the primitives
support, every list of fitting items inside the vector's bounds -/
theorem vectorNumeric {p : VecParam} {k : Nat} (hk : validSize k = true)
    (hn : validSize p.numSize = true) (hmax : p.max < 256 ^ p.numSize) (xs : List Nat)
    (hx : ∀ x ∈ xs, x < 256 ^ k) (hmin : p.min ≤ xs.length * k) (hle : xs.length * k ≤ p.max) :
    ∃ b, composeVecNum p k xs = .ok b ∧ b.length = p.numSize + xs.length * k ∧
      ∀ s, parseVecNum p k (fun x => .ok x) (b ++ s) = .ok (xs, b.length) :=
  parseVecNum_roundTrip hk hn hmax xs hx hmin hle

/-- the session id of the hello messages: any 0..32 bytes -/
theorem tlsSessionId (sid : List Nat) (hx : ∀ x ∈ sid, x < 256) (hle : sid.length ≤ sessionIdParam.max) :
    ∃ b, composeVecNum sessionIdParam 1 sid = .ok b ∧
      ∀ s, parseVecNum sessionIdParam 1 (fun x => .ok x) (b ++ s) = .ok (sid, b.length) := by
  have hmin0 : sessionIdParam.min = 0 := by decide +kernel
  obtain ⟨b, h1, _, h3⟩ := parseVecNum_roundTrip (p := sessionIdParam) (k := 1) rfl sessionIdParam_ok.1
    sessionIdParam_ok.2 sid hx (by omega) (by simpa using hle)
  exact ⟨b, h1, h3⟩

/-- `TlsHandshakeCertificate` -/
theorem tlsCertificate : RoundTrip certificateCodec CertificatesWf := certificate_roundTrip

/-- one hello extension as an item of `TlsExtensionsClient` / `TlsExtensionsServer`
(`variants` = `Gen.extVariantsClient` / `Gen.extVariantsServer`, or any other variant list) -/
theorem tlsExtension {variants : List (String × Nat)} {e : Ext} (hw : ExtWf variants e) :
    ItemRT (parseExt variants) composeExt e := ext_itemRT hw

theorem tlsExtensionClient {e : Ext} (hw : ExtWf Gen.extVariantsClient e) :
    ItemRT (parseExt Gen.extVariantsClient) composeExt e := ext_itemRT hw

theorem tlsExtensionServer {e : Ext} (hw : ExtWf Gen.extVariantsServer e) :
    ItemRT (parseExt Gen.extVariantsServer) composeExt e := ext_itemRT hw

/-- a non-empty extension list (no distinctness of the types is needed) -/
theorem tlsExtensions {variants : List (String × Nat)} {p : VecParam} (hp2 : p.numSize = 2)
    (hpm : p.max < 256 ^ 2) {exts : List Ext} (hw : ExtsWf variants p exts) (hne : exts ≠ []) :
    ∃ b, composeExtensions exts = .ok b ∧ ∀ s, parseExtensions variants p (b ++ s) = .ok (exts, b.length) := by
  obtain ⟨body, _, _, hc, hp⟩ := exts_roundTrip hp2 hpm hw
  refine ⟨extsBlock exts body, hc, fun s => ?_⟩
  rw [hp hne s]
  cases exts with
  | nil => exact absurd rfl hne
  | cons _ _ => simp [extsBlock]

/-- `TlsHandshakeClientHello`, including the folding of the two signalling cipher suite values
into the flags and the optional extension block -/
theorem clientHello_roundTrip : RoundTrip clientHelloCodec ClientHelloWf := Tls.clientHello_roundTrip

/-- `TlsHandshakeServerHello` (type 2) and `TlsHandshakeHelloRetryRequest` (type 6) -/
theorem serverHello_roundTrip {typ : Nat} (htyp : typ = 2 ∨ typ = 6) :
    RoundTrip (serverHelloCodec typ) (ServerHelloWf typ) := Tls.serverHello_roundTrip htyp

/-! ### the variant lists resolve as intended (decided on the regenerated lists) -/

example : resolve Gen.extVariantsClient 10 4 = some "TlsExtensionEllipticCurves" := by decide +kernel
example : resolve Gen.extVariantsServer 10 4 = some "TlsExtensionUnparsed" := by decide +kernel
example : resolve Gen.extVariantsClient 11 2 = some "TlsExtensionECPointFormats" := by decide +kernel
example : resolve Gen.extVariantsServer 43 2 = some "TlsExtensionSupportedVersionsServer" := by decide +kernel
-- key_share on the server side: the two-byte HelloRetryRequest form first, any other length the ServerHello form
example : resolve Gen.extVariantsServer 51 2 = some "TlsExtensionKeyShareClientHelloRetry" := by decide +kernel
example : resolve Gen.extVariantsServer 51 36 = some "TlsExtensionKeyShareServer" := by decide +kernel
example : scsvFallback ∉ Gen.TlsCipherSuite.codes ∧ scsvRenegotiation ∉ Gen.TlsCipherSuite.codes ∧
    scsvFallback ≠ scsvRenegotiation := by decide +kernel

/-! ### non-vacuity: a concrete ClientHello satisfies the hypothesis and round-trips -/

/-- TLS 1.2, two suites and a GREASE suite, both signalling flags, supported_groups (with a GREASE
group), ec_point_formats and an extension of an unknown type -/
def exampleHello : ClientHello :=
  { version := 4
    random := ⟨0x01020304, List.replicate 28 0xab⟩
    sessionId := [1, 2, 3]
    cipherSuites := [.known 211, .known 361, .unknown 0x0a0a]
    compressionMethods := [.known 0]
    extensions :=
      [⟨"TlsExtensionEllipticCurves", 10, .coded [.known 22, .unknown 0x1a1a]⟩,
       ⟨"TlsExtensionECPointFormats", 11, .coded [.known 0]⟩,
       ⟨"TlsExtensionUnparsed", 0xabcd, .raw [1, 2, 3]⟩]
    fallbackScsv := true
    emptyRenegotiationInfoScsv := true }

def exampleBytes : Bytes :=
  [1, 0, 0, 77, 3, 3, 1, 2, 3, 4] ++ List.replicate 28 0xab ++
  [3, 1, 2, 3, 0, 10, 0xc0, 0x2f, 0x13, 0x01, 0x0a, 0x0a, 0x56, 0x00, 0x00, 0xff, 1, 0,
   0, 23, 0, 10, 0, 6, 0, 4, 0, 23, 0x1a, 0x1a, 0, 11, 0, 2, 1, 0, 0xab, 0xcd, 0, 3, 1, 2, 3]

example : ClientHelloWf exampleHello := by
  refine ⟨⟨by decide +kernel, ⟨by decide +kernel, by decide +kernel⟩, by decide +kernel, by decide +kernel,
    by decide +kernel⟩, by decide +kernel, by decide +kernel, by decide +kernel, by decide +kernel,
    by decide +kernel, by decide +kernel, ⟨?_, by decide +kernel, by decide +kernel⟩⟩
  intro e he
  simp only [exampleHello, List.mem_cons, List.mem_nil_iff, or_false] at he
  rcases he with rfl | rfl | rfl
  · exact .parsed (kind := .vecCoded (vp Gen.vec_TlsEllipticCurveVector) Gen.TlsNamedCurve.codes 2)
      (by decide) (by decide +kernel) (by decide +kernel) (by decide) rfl (by decide +kernel) (by decide +kernel)
  · exact .parsed (kind := .vecCoded (vp Gen.vec_TlsECPointFormatVector) Gen.TlsECPointFormat.codes 1)
      (by decide) (by decide +kernel) (by decide +kernel) (by decide) rfl (by decide +kernel) (by decide +kernel)
  · exact .unknownType (by decide) (by decide) (by decide +kernel)

example : clientHelloCodec.compose exampleHello = .ok exampleBytes := by decide +kernel
example : clientHelloCodec.parse exampleBytes = .ok (exampleHello, 81) := by decide +kernel
example : clientHelloCodec.parse (exampleBytes ++ [9, 9, 9]) = .ok (exampleHello, 81) := by decide +kernel

/-- a ServerHello with a selected version and an empty renegotiation_info -/
def exampleServerHello : ServerHello :=
  { hsType := 2, version := 4, random := ⟨7, List.replicate 28 1⟩, sessionId := [], cipherSuite := 361,
    compressionMethod := 0,
    extensions := [⟨"TlsExtensionSupportedVersionsServer", 43, .version 5⟩,
                   ⟨"TlsExtensionRenegotiationInfo", 65281, .opaque []⟩] }

example : ServerHelloWf 2 exampleServerHello := by
  refine ⟨rfl, ⟨by decide +kernel, ⟨by decide +kernel, by decide +kernel⟩, by decide +kernel, by decide +kernel,
    by decide +kernel⟩, by decide +kernel, by decide +kernel, ⟨?_, by decide +kernel, by decide +kernel⟩⟩
  intro e he
  simp only [exampleServerHello, List.mem_cons, List.mem_nil_iff, or_false] at he
  rcases he with rfl | rfl
  · exact .parsed (kind := .supportedVersionsServer)
      (by decide) (by decide +kernel) (by decide +kernel) (by decide) rfl (by decide +kernel) (by decide +kernel)
  · exact .parsed (kind := .renegotiationInfo)
      (by decide) (by decide +kernel) (by decide +kernel) (by decide) rfl (by decide +kernel) (by decide +kernel)

def exampleServerBytes : Bytes :=
  [2, 0, 0, 51, 3, 3, 0, 0, 0, 7] ++ List.replicate 28 1 ++
  [0, 0x13, 0x01, 0, 0, 11, 0, 43, 0, 2, 3, 4, 0xff, 0x01, 0, 1, 0]

example : (serverHelloCodec 2).compose exampleServerHello = .ok exampleServerBytes := by decide +kernel
example : (serverHelloCodec 2).parse exampleServerBytes = .ok (exampleServerHello, 55) := by decide +kernel

example : CertificatesWf [[0x30, 0x03, 1, 2, 3], []] := by
  refine ⟨by decide, by decide +kernel, by decide +kernel, by decide +kernel⟩

end Cp.C01
