import CpProofs.Tls2
/-
  C05 — re-serialising an accepted input is a stable canonical form:
  `parse b = ok (v, n)` ⇒ compose v succeeds with b', `parse b' = ok (v, |b'|)`, and composing
  what b' parses to gives b' again.  It follows from `ParseWf` (whatever the parser accepts is in
  the composer's domain) and `RoundTrip`.
-/
namespace Cp.C05
open Cp Cp.Codec Cp.Tls

def Canonical {α : Type} (c : Codec α) : Prop :=
  ∀ b v n, c.parse b = .ok (v, n) →
    ∃ b', c.compose v = .ok b' ∧ c.parse b' = .ok (v, b'.length) ∧
      ∀ v'' n'', c.parse b' = .ok (v'', n'') → c.compose v'' = .ok b'

theorem of_laws {α : Type} {c : Codec α} {wf : α → Prop} (hr : RoundTrip c wf) (hw : ParseWf c wf) :
    Canonical c := fun b v n h => canonical_of_roundTrip_parseWf hr hw b v n h

theorem num (bo : ByteOrder) {k : Nat} (hk : validSize k = true) : Canonical (Codec.num bo k) :=
  of_laws (num_roundTrip bo hk) (num_parseWf bo k)

theorem bytesPrefixed (bo : ByteOrder) {k : Nat} (hk : validSize k = true) :
    Canonical (Codec.bytesPrefixed bo k) :=
  of_laws (bytesPrefixed_roundTrip bo hk) (bytesPrefixed_parseWf bo k)

theorem tlsProtocolVersion : Canonical versionCodec := of_laws version_roundTrip version_parseWf
theorem tlsRecord : Canonical recordCodec := of_laws record_roundTrip record_parseWf
theorem tlsAlert : Canonical alertCodec := of_laws alert_roundTrip alert_parseWf
theorem tlsChangeCipherSpec : Canonical ccsCodec := of_laws ccs_roundTrip ccs_parseWf

/-- sizes accepted on parse are composable: what `bytesPrefixed` accepts fits its prefix again -/
theorem accepted_sizes_composable (bo : ByteOrder) (k : Nat) :
    ParseWf (Codec.bytesPrefixed bo k) (fun v => v.length < 256 ^ k) := bytesPrefixed_parseWf bo k

/-! non-vacuity -/
example : ∃ b', alertCodec.compose ⟨2, 40⟩ = .ok b' ∧ alertCodec.parse b' = .ok (⟨2, 40⟩, 2) :=
  ⟨[2, 40], by decide +kernel, by decide +kernel⟩

end Cp.C05
