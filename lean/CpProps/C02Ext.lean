import CpProofs.Hello
/-
  C02 for the body parsers of the hello extension classes with structured bodies and for
  CertificateRequest: parsing untrusted bytes fails only with the documented parse errors.

  FULL statement (`extBody_noCrash_full`): no body parser ever ends in an exception outside the four
  documented ones.  It is FALSE of the code for one class: `SignedCertificateTimestamp` is built with
  `timestamp=None` when the wire carries the all-ones "no timestamp" sentinel and its attrs validator
  raises `TypeError` (`extBody_noCrash_fails`, a 49-byte SCT list).  For server_name the model itself
  stops at the idna codec (`UNMODELLED`, not a statement about the code).  What holds is proved for
  every class (`extBody_noCrash_partial`) and, crash-free, for the other seven layouts.
-/
namespace Cp.C02
open Cp Cp.Codec Cp.Tls Cp.Hello

def extBody_noCrash_full : Prop :=
  ∀ (k : Ext2Kind) (len : Nat) (rest : Bytes) (c : String), parseExt2Body k len rest ≠ .error (.crash c)

/-- one SCT whose timestamp is `ff ff ff ff ff ff ff ff` -/
def sctSentinelList : Bytes :=
  [0, 49, 0, 47, 0] ++ List.replicate 32 0x11 ++ List.replicate 8 0xff ++ [0, 0, 4, 3, 0, 0]

theorem extBody_noCrash_fails : ¬ extBody_noCrash_full := by
  intro h
  exact h .sctList 51 sctSentinelList "TypeError" (by decide +kernel)

/-- every crash kind of a body parser: the model's boundary marker (server_name only) or that
`TypeError` (SCT list only) -/
theorem extBody_noCrash_partial {k : Ext2Kind} {len : Nat} {rest : Bytes} {c : String}
    (h : parseExt2Body k len rest = .error (.crash c)) :
    (k = .serverName ∧ c = "UNMODELLED") ∨ (k = .sctList ∧ c = "TypeError") := by
  rcases parseExt2Body_err h with hb | ⟨hk, he⟩ | ⟨hk, he⟩ | ⟨_, he⟩
  · exact absurd rfl (hb.not_crash c)
  · left; exact ⟨hk, by simpa [unmodelled] using he⟩
  · right; cases he; exact ⟨hk, rfl⟩
  · cases he

/-- ALPN/ALPS, NPN, status_request, the three server/client key_share forms, token_binding: no crash -/
theorem extBody_noCrash {k : Ext2Kind} (h1 : k ≠ .serverName) (h2 : k ≠ .sctList) (len : Nat) (rest : Bytes)
    (c : String) : parseExt2Body k len rest ≠ .error (.crash c) := by
  intro h
  rcases extBody_noCrash_partial h with ⟨hk, _⟩ | ⟨hk, _⟩
  · exact h1 hk
  · exact h2 hk

/-- every error of a body parser, classified -/
theorem extBody_errors {k : Ext2Kind} {len : Nat} {rest : Bytes} {e : PErr}
    (h : parseExt2Body k len rest = .error e) :
    Benign e ∨ (k = .serverName ∧ e = unmodelled) ∨ (k = .sctList ∧ e = .crash "TypeError") ∨
      (k.declines len = true ∧ e = .invalidType) :=
  parseExt2Body_err h

/-- the item loops inside the bodies always terminate (every item parser consumes at least a byte) -/
theorem extBody_terminates (k : Ext2Kind) (len : Nat) (rest : Bytes) :
    parseExt2Body k len rest ≠ .error (.crash "NonTermination") := by
  intro h
  rcases extBody_noCrash_partial h with ⟨_, hc⟩ | ⟨_, hc⟩ <;> exact absurd hc (by decide)

/-- `InvalidType` comes from exactly one class and exactly when the declared length is not two -/
theorem extBody_invalidType_iff (k : Ext2Kind) (len : Nat) (rest : Bytes) :
    parseExt2Body k len rest = .error .invalidType ↔ k.declines len = true := by
  constructor
  · intro h
    cases hd : k.declines len with
    | true => rfl
    | false => exact absurd h (ext2_not_declines hd rest)
  · intro hd
    exact ext2_declines_parse hd rest

/-- `TlsHandshakeCertificateRequest`: no crash -/
theorem tlsCertificateRequestMessage : NoCrash certificateRequestCodec := certificateRequest_noCrash

/-! non-vacuity: the documented errors are reachable in the new bodies -/
example : parseExt2Body .keyShareServer 4 [0xff, 0xff, 0, 0] = .error .invalidValue := by decide +kernel
example : parseExt2Body .keyShareServer 4 [0, 29, 0, 0] = .error (.notEnough 1) := by decide +kernel
example : parseExt2Body .keyShareHelloRetry 4 [0, 29, 0, 0] = .error .invalidType := by decide +kernel
example : parseExt2Body .protocolNames 5 [0, 3, 2, 0x68, 0x33] = .error .invalidValue := by decide +kernel
example : parseExt2Body .serverName 9 [0, 7, 0, 0, 4, 0x78, 0x6e, 0x2d, 0x2d] = .error (.crash "UNMODELLED") := by
  decide +kernel

end Cp.C02
