import CpProofs.Hello
/-
  C02 for the body parsers of the hello extension classes with structured bodies and for
  CertificateRequest: parsing untrusted bytes fails only with the documented parse errors.

  `extBody_noCrash_full`: the only crash constructor a body parser can end in is the model's own
  boundary marker, and only for server_name (the model stops at the idna codec; that is not a
  statement about the code).  Every other layout — the SCT list included, whose all-ones timestamp is
  an `InvalidValue` now — is crash-free (`extBody_noCrash`).
-/
namespace Cp.C02
open Cp Cp.Codec Cp.Tls Cp.Hello

/-- every crash kind of a body parser is the model's boundary marker of server_name -/
theorem extBody_noCrash_full {k : Ext2Kind} {len : Nat} {rest : Bytes} {c : String}
    (h : parseExt2Body k len rest = .error (.crash c)) : k = .serverName ∧ c = "UNMODELLED" := by
  rcases parseExt2Body_err h with hb | ⟨hk, he⟩ | ⟨_, he⟩
  · exact absurd rfl (hb.not_crash c)
  · exact ⟨hk, by simpa [unmodelled] using he⟩
  · cases he

/-- ALPN/ALPS, NPN, status_request, the key_share forms, token_binding, the SCT list: no crash -/
theorem extBody_noCrash {k : Ext2Kind} (h1 : k ≠ .serverName) (len : Nat) (rest : Bytes) (c : String) :
    parseExt2Body k len rest ≠ .error (.crash c) := fun h => h1 (extBody_noCrash_full h).1

/-- every error of a body parser, classified -/
theorem extBody_errors {k : Ext2Kind} {len : Nat} {rest : Bytes} {e : PErr}
    (h : parseExt2Body k len rest = .error e) :
    Benign e ∨ (k = .serverName ∧ e = unmodelled) ∨ (k.declines len = true ∧ e = .invalidType) :=
  parseExt2Body_err h

/-- the item loops inside the bodies always terminate (every item parser consumes at least a byte) -/
theorem extBody_terminates (k : Ext2Kind) (len : Nat) (rest : Bytes) :
    parseExt2Body k len rest ≠ .error (.crash "NonTermination") := by
  intro h
  exact absurd (extBody_noCrash_full h).2 (by decide)

/-- `InvalidType` comes from exactly one class and exactly when the declared length is not two -/
theorem extBody_invalidType_iff (k : Ext2Kind) (len : Nat) (rest : Bytes) :
    parseExt2Body k len rest = .error .invalidType ↔ k.declines len = true := by
  constructor
  · intro h
    cases hd : k.declines len with
    | true => rfl
    | false => exact absurd h (ext2_not_declines hd rest)
  · intro hd
    exact ext2_declines_parse hd rest

/-- `TlsHandshakeCertificateRequest`: no crash -/
theorem tlsCertificateRequestMessage : NoCrash certificateRequestCodec := certificateRequest_noCrash

/-! regression: one SCT whose timestamp is `ff ff ff ff ff ff ff ff` used to end in `TypeError` -/
def sctSentinelList : Bytes :=
  [0, 49, 0, 47, 0] ++ List.replicate 32 0x11 ++ List.replicate 8 0xff ++ [0, 0, 4, 3, 0, 0]

example : parseExt2Body .sctList 51 sctSentinelList = .error .invalidValue := by decide +kernel

/-! non-vacuity: the documented errors are reachable in the new bodies -/
example : parseExt2Body .keyShareServer 4 [0xff, 0xff, 0, 0] = .error .invalidValue := by decide +kernel
example : parseExt2Body .keyShareServer 4 [0, 29, 0, 0] = .error (.notEnough 1) := by decide +kernel
example : parseExt2Body .keyShareHelloRetry 4 [0, 29, 0, 0] = .error .invalidType := by decide +kernel
example : parseExt2Body .protocolNames 5 [0, 3, 2, 0x68, 0x33] = .error .invalidValue := by decide +kernel
example : parseExt2Body .serverName 9 [0, 7, 0, 0, 4, 0x78, 0x6e, 0x2d, 0x2d] = .error (.crash "UNMODELLED") := by
  decide +kernel

end Cp.C02
