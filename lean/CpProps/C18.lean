import CpModel.Gen.Fields
import CpModel.Text.Fields
import CpSpec.TextRfc
import CpProofs.Fields
import CpProps.C18a
/-
  C18 (header / record layer) — insignificant spelling never changes which component of a header value or TXT policy
  record is handed which text.

  `Cp.Text.parseFields T` (CpModel/Text/Fields.lean) is `FieldValueMultiple._parse` up to the component value parsers,
  generically over a component table `T`; `Cp.Gen.fieldTables` is the table of every `FieldValueMultiple` subclass of the
  live code, regenerated on every run with the name-match mode of every component PROBED (`_check_name` called on
  respelled names).  `Cp.Spec.TextRfc.nameRules` is what the governing RFCs say about the case of those names.

  1. table obligations (regenerated data, `decide`): the code is nowhere stricter than the RFC; every component has a
     written rule; the code is nowhere laxer than a case-sensitive grammar; the list
     separators are not whitespace; which classes match every name case-insensitively; positional components come first
  2. whitespace and empty elements (every table): through the theorems of the QUOTE-AWARE scanner of the scanner layer
     (`NameValuePairList._parse` passes `quote_aware=True`: a separator inside a quoted-string is part of the value)
  3. the canonical spelling parses to the pairs it spells
  4. order of the elements, unknown directives: facts about name-keyed matching
  5. case of names, for the classes whose components all match case-insensitively
  6. the full statement: a THEOREM for the nine classes without a positional component; false (witness) for the two with one
  7. a separator inside a quoted-string value (repair `quote_aware`): the canonical spelling of a value that contains the
     separator parses back (`fields_canonical_quoted_value`); an unknown directive whose quoted value contains the separator
     changes no slot (`fields_unknown_quoted_separator_invariant`) and is covered by the full statement
     (`fields_spelling_invariant_quoted_unknown`)
-/
namespace Cp.C18
open Cp Cp.Text Cp.Gen Cp.Spec.TextRfc

/-! ## 1. the regenerated component table against the RFCs -/

/-- the live name test is stricter than the specification: exact comparison of a name the RFC declares
case-insensitive -/
def stricter (mode : MatchMode) (rule : NameCase) : Bool := mode == .exact && rule == .insensitive

/-- the live name test is laxer than the specification: a case-sensitive name compared case-insensitively -/
def laxer (mode : MatchMode) (rule : NameCase) : Bool := mode == .caseInsensitive && rule == .sensitive

/-- (class, canonical name) of the components selected by `bad` -/
def deviations (bad : MatchMode → NameCase → Bool) : List (String × String) :=
  fieldTables.flatMap fun t => t.comps.filterMap fun c =>
    match ruleFor t.cls c.name.toLower with
    | some r => if bad c.mode r.rule then some (t.cls, c.name) else none
    | none => none

/-- MATCHES THE RFCs.  No component of the live table compares a name more strictly than its governing RFC: the list
of (class, name) with an exact comparison where the RFC says case-insensitive is EMPTY.  (Until the repairs cfc377c and
bf135a2 it held the `charset`/`boundary` parameters of Content-Type and the `Expires`/`Domain`/`Path`/`SameSite`
attributes of Set-Cookie: `Charset=utf-8` and `domain=example.com` were dropped silently.)  A change of any component's
`_check_name` changes the regenerated table and breaks this obligation. -/
theorem matches_rfc : deviations stricter = [] := by decide +kernel

/-- the code is nowhere LAXER than a case-sensitive grammar (DMARC: RFC 6376 §3.2; MTA-STS, TLSRPT: `%s"…"`) -/
theorem not_laxer_than_rfc : deviations laxer = [] := by decide +kernel

/-- every component of every class has a written rule: a new class or directive breaks this obligation until
`CpSpec/TextRfc.lean` says what its specification is -/
theorem rfc_rules_cover_table :
    (fieldTables.flatMap fun t => (t.comps.filter fun c => (ruleFor t.cls c.name.toLower).isNone).map fun c => (t.cls, c.name)) = [] := by
  decide +kernel

/-- the list separators (`;` and `,`) are not among the whitespace bytes of `NameValuePairList`: the side condition
of the scanner theorems holds for every class -/
theorem separators_are_not_whitespace : fieldTables.all (fun t => !fieldWs.contains t.sep) = true := by decide +kernel

/-- … and none of them is the double quote; SP/HTAB are not the double quote either: the side conditions of the
quote-aware scanner theorems hold for every class -/
theorem separators_are_not_quote : fieldTables.all (fun t => t.sep != 0x22) = true := by decide +kernel

theorem fieldWs_no_quote : (0x22 : UInt8) ∉ fieldWs := by decide

/-- the classes all of whose components are matched case-insensitively (`fields_case_invariant` applies to them) -/
theorem case_free_classes :
    (fieldTables.filter fun t => t.comps.all fun c => c.mode == .caseInsensitive).map (·.cls) =
      ["HttpHeaderFieldValueCacheControlResponse", "HttpHeaderFieldValueExpectCT", "HttpHeaderFieldValueExpectStaple",
       "HttpHeaderFieldValuePublicKeyPinning", "HttpHeaderFieldValueSTS", "HttpHeaderFieldValueSetCookieParams"] := by
  decide +kernel

/-- positional components (their `_check_name` accepts ANY name: the media type of Content-Type, the state of
X-XSS-Protection) exist only as the FIRST component of a class: they take the first pair of the list, which is why the
first element of these two fields is not order-free -/
theorem positional_components_are_first :
    (fieldTables.flatMap fun t => (t.comps.drop 1).filter fun c => c.mode == .anyName) = [] ∧
      (fieldTables.filter fun t => t.comps.any fun c => c.mode == .anyName).map (·.cls) =
        ["HttpHeaderFieldValueContentType", "HttpHeaderFieldValueXXSSProtection"] := by
  decide +kernel

/-! ## 2. whitespace and empty elements — every table -/

/-- `parseFields` sees its input only through the items the scanner returns -/
theorem parseFields_via_scan (T : FieldTable) (b : Bytes) :
    parseFields T b =
      match scanItemsQ T.sep fieldWs true b with
      | .ok items => if items.all pairOk then parsePairs T (items.map nameValue) else .error .invalidValue
      | .error e => .error e := by
  unfold parseFields scanItemsQ
  cases parseStringArrayQ b 0 [T.sep] fieldWs true none with
  | error e => rfl
  | ok r => rfl

/-- one insignificant edit of a spelling: a run of SP/HTAB before or after a separator or at either end, an
additional separator (an empty element) anywhere, at the front or at the end.  The separators meant are those OUTSIDE
quoted-strings: the text `a` in front of the edited separator has balanced quotes (`qAfter .out a = .out`; a `;` inside
`"…"` is part of a value, and whitespace next to it is significant). -/
inductive WsEdit (sep : UInt8) : Bytes → Bytes → Prop
  | atStart (w b : Bytes) (hw : ∀ x ∈ w, x ∈ fieldWs) : WsEdit sep b (w ++ b)
  | atEnd (w b : Bytes) (hw : ∀ x ∈ w, x ∈ fieldWs) : WsEdit sep b (b ++ w)
  | beforeSep (a w r : Bytes) (ha : qAfter .out a = .out) (hw : ∀ x ∈ w, x ∈ fieldWs) :
      WsEdit sep (a ++ sep :: r) (a ++ (w ++ sep :: r))
  | afterSep (a w r : Bytes) (ha : qAfter .out a = .out) (hw : ∀ x ∈ w, x ∈ fieldWs) :
      WsEdit sep (a ++ sep :: r) (a ++ sep :: (w ++ r))
  | emptyElement (a r : Bytes) (ha : qAfter .out a = .out) : WsEdit sep (a ++ sep :: r) (a ++ sep :: sep :: r)
  | leadingSep (b : Bytes) : WsEdit sep b (sep :: b)
  | trailingSep (b : Bytes) (hb : qAfter .out b = .out) : WsEdit sep b (b ++ [sep])

/-- any number of such edits, applied or undone, in any order -/
inductive WsVariant (sep : UInt8) : Bytes → Bytes → Prop
  | refl (b : Bytes) : WsVariant sep b b
  | step {a b c : Bytes} : WsVariant sep a b → WsEdit sep b c → WsVariant sep a c
  | unstep {a b c : Bytes} : WsVariant sep a b → WsEdit sep c b → WsVariant sep a c

theorem scan_wsEdit (sep : UInt8) (hsep : sep ∉ fieldWs) (hq : sep ≠ 0x22) {b b' : Bytes} (h : WsEdit sep b b') :
    scanItemsQ sep fieldWs true b' = scanItemsQ sep fieldWs true b := by
  have hqw := fieldWs_no_quote
  cases h with
  | atStart w b hw => exact qa_ws_at_start sep fieldWs true hsep hq hqw w b hw
  | atEnd w b hw => exact qa_ws_at_end sep fieldWs true hsep hq hqw w b hw
  | beforeSep a w r ha hw => exact qa_ws_before_sep sep fieldWs true hsep hq hqw a w r ha hw
  | afterSep a w r ha hw => exact qa_ws_after_sep sep fieldWs true hsep hq hqw a w r ha hw
  | emptyElement a r ha => exact qa_empty_element sep fieldWs hsep hq hqw a r ha
  | leadingSep b => exact qa_leading_separator sep fieldWs hsep hq hqw b
  | trailingSep b hb => exact qa_trailing_separator sep fieldWs hsep hq hqw b hb

/-- WHITESPACE AND EMPTY ELEMENTS.  For every component table whose separator is not SP/HTAB (all of them:
`separators_are_not_whitespace`), two spellings that differ by any sequence of whitespace runs around separators / at
the ends and of empty elements are handed to the components identically (same slots, same left-over pairs, same
error). -/
theorem fields_ws_invariant (T : FieldTable) (hsep : T.sep ∉ fieldWs) (hq : T.sep ≠ 0x22) {σ σ' : Bytes}
    (h : WsVariant T.sep σ σ') : parseFields T σ' = parseFields T σ := by
  induction h with
  | refl => rfl
  | step _ e ih => rw [← ih, parseFields_via_scan, parseFields_via_scan, scan_wsEdit T.sep hsep hq e]
  | unstep _ e ih => rw [← ih, parseFields_via_scan, parseFields_via_scan, scan_wsEdit T.sep hsep hq e]

/-! ## 3. the canonical spelling -/

/-- an element as `compose()` writes it: no separator OUTSIDE a quoted-string (`freeQ`; inside `"…"` the separator is
allowed: `report-uri="https://a.example/r?a=1,2"`), balanced quotes, no whitespace at its ends, not empty, ASCII, and a
double quote only as the delimiter of a quoted-string value (`pairOk`: anything else makes the list `InvalidValue`) -/
def Clean (sep : UInt8) (i : Bytes) : Prop :=
  freeQ sep .out i = true ∧ qAfter .out i = .out ∧ trim fieldWs i = i ∧ i ≠ [] ∧ isAscii i = true ∧ pairOk i = true

/-- an element without separator and without double quote is clean (the elements of the earlier statement) -/
theorem clean_of_plain (sep : UInt8) (i : Bytes) (h1 : sep ∉ i) (h2 : (0x22 : UInt8) ∉ i)
    (h3 : trim fieldWs i = i) (h4 : i ≠ []) (h5 : isAscii i = true) : Clean sep i :=
  ⟨freeQ_of_not_mem sep .out i h1, qAfter_out_of_no_quote i h2, h3, h4, h5, pairOk_of_no_quote i h2⟩

/-- CANONICAL.  Clean elements joined by the separator and any whitespace run (`"a;b"`, `"a; b"` — the spelling
`compose()` produces) are handed to the components as the pairs they spell. -/
theorem fields_canonical (T : FieldTable) (hsep : T.sep ∉ fieldWs) (hq : T.sep ≠ 0x22) (w : Bytes)
    (hw : ∀ x ∈ w, x ∈ fieldWs) (items : List Bytes) (hi : ∀ i ∈ items, Clean T.sep i) :
    parseFields T (List.intercalate (T.sep :: w) items) = parsePairs T (items.map nameValue) := by
  unfold parseFields
  cases items with
  | nil =>
    have : List.intercalate (T.sep :: w) ([] : List Bytes) = [] := by simp [List.intercalate]
    rw [this, qa_canonical_empty T.sep fieldWs hsep hq fieldWs_no_quote]
    simp
  | cons i is =>
    rw [qa_canonical_parses_back T.sep fieldWs w true hsep hq fieldWs_no_quote hw (i :: is) (by simp)
      (fun j hj => ⟨(hi j hj).1, (hi j hj).2.1, (hi j hj).2.2.1, (hi j hj).2.2.2.1, (hi j hj).2.2.2.2.1⟩)]
    have hall : (i :: is).all pairOk = true := List.all_eq_true.mpr (fun j hj => (hi j hj).2.2.2.2.2)
    simp only [hall, if_true]

/-! ## 4. order of the elements, unknown directives -/

/-- outcome relation on assignments: the same slots; the left-over pairs are those of the first plus `e`, in some
order (the `extension` attribute of MTA-STS / TLSRPT receives them; the other classes drop them); or the same error -/
def SameSlots (e : List Pair) : Except PErr Assignment → Except PErr Assignment → Prop
  | .ok a, .ok a' => a'.slots = a.slots ∧ a'.rest.Perm (a.rest ++ e)
  | .error x, .error x' => x' = x
  | _, _ => False

theorem parsePairs_perm_extra (T : FieldTable) (ps ps' e : List Pair) (hperm : ps'.Perm (ps ++ e))
    (hnames : (ps'.map (·.1)).Nodup)
    (he : ∀ p ∈ e, ∀ c ∈ T.comps, matchesComp c p = false)
    (hu : ∀ c ∈ T.comps, (ps.filter (matchesComp c)).length ≤ 1) :
    SameSlots e (parsePairs T ps) (parsePairs T ps') := by
  have hn : ((ps ++ e).map (·.1)).Nodup := (hperm.map _).nodup_iff.mp hnames
  have hn1 : (ps.map (·.1)).Nodup := by
    rw [List.map_append, List.nodup_append] at hn
    exact hn.1
  unfold parsePairs
  rw [odOfList_nodup ps hn1, odOfList_nodup ps' hnames]
  have := runComps_perm_extra T.comps ps ps' e hperm he hu
  revert this
  cases runComps T.comps ps <;> cases runComps T.comps ps' <;> simp [SameUpTo, SameSlots]

/-- ORDER AND UNKNOWN DIRECTIVES.  Let `items'` be the clean elements `items` in ANY order together with elements
`extra` whose names no component accepts (unknown directives), spelled with any whitespace runs after the separators.
If no name is spelled twice and no component accepts two of the names, every component is handed the same text as from
the canonical spelling of `items`, and the unknown elements are left over. -/
theorem fields_order_unknown_invariant (T : FieldTable) (hsep : T.sep ∉ fieldWs) (hq : T.sep ≠ 0x22) (w w' : Bytes)
    (hw : ∀ x ∈ w, x ∈ fieldWs) (hw' : ∀ x ∈ w', x ∈ fieldWs) (items items' extra : List Bytes)
    (hperm : items'.Perm (items ++ extra))
    (hclean : ∀ i ∈ items', Clean T.sep i)
    (hnames : ((items'.map nameValue).map (·.1)).Nodup)
    (hextra : ∀ u ∈ extra, ∀ c ∈ T.comps, matchesComp c (nameValue u) = false)
    (hunamb : ∀ c ∈ T.comps, ((items.map nameValue).filter (matchesComp c)).length ≤ 1) :
    SameSlots (extra.map nameValue) (parseFields T (List.intercalate (T.sep :: w) items))
      (parseFields T (List.intercalate (T.sep :: w') items')) := by
  have hclean0 : ∀ i ∈ items, Clean T.sep i := fun i hi => hclean i (hperm.mem_iff.mpr (List.mem_append_left _ hi))
  rw [fields_canonical T hsep hq w hw items hclean0, fields_canonical T hsep hq w' hw' items' hclean]
  apply parsePairs_perm_extra T _ _ (extra.map nameValue)
  · simpa using hperm.map nameValue
  · exact hnames
  · intro p hp c hc
    obtain ⟨u, hu, rfl⟩ := List.mem_map.mp hp
    exact hextra u hu c hc
  · exact hunamb

/-! ## 5. case of the names -/

/-- outcome relation: the same slots, the left-over pairs under their new spelling -/
def SameSlotsRespelled (f : Bytes → Bytes) : Except PErr Assignment → Except PErr Assignment → Prop
  | .ok a, .ok a' => a'.slots = a.slots ∧ a'.rest = a.rest.map (respell f)
  | .error x, .error x' => x' = x
  | _, _ => False

/-- CASE.  For a class all of whose components compare names case-insensitively (`case_free_classes`), let the pairs
be respelled by any `f` that leaves the lower-cased name unchanged (`max-age`, `Max-Age`, `MAX-AGE`, `mAx-AgE`, a
different pattern for every name).  If no two names are equal up to case, every component is handed the same text. -/
theorem fields_case_invariant (T : FieldTable) (hci : ∀ c ∈ T.comps, c.mode = .caseInsensitive) (f : Bytes → Bytes)
    (hf : ∀ k, asciiLower (f k) = asciiLower k) (ps : List Pair) (hnd : (ps.map fun p => asciiLower p.1).Nodup) :
    SameSlotsRespelled f (parsePairs T ps) (parsePairs T (ps.map (respell f))) := by
  have key {g : Pair → Bytes} (l : List Pair) (hl : (l.map fun p => asciiLower (g p)).Nodup) : (l.map g).Nodup := by
    have : (l.map fun p => asciiLower (g p)) = (l.map g).map asciiLower := by simp
    rw [this] at hl
    exact nodup_of_nodup_map asciiLower _ hl
  have hn1 : (ps.map (·.1)).Nodup := key (g := (·.1)) ps hnd
  have hn2 : ((ps.map (respell f)).map (·.1)).Nodup := by
    rw [List.map_map]
    apply key (g := (·.1) ∘ respell f) ps
    simpa [respell, hf] using hnd
  unfold parsePairs
  rw [odOfList_nodup ps hn1, odOfList_nodup _ hn2]
  have := runComps_respell T.comps hci f hf ps hnd
  revert this
  cases runComps T.comps ps <;> cases runComps T.comps (ps.map (respell f)) <;> simp [SameRespelled, SameSlotsRespelled]

/-- the case theorem applies to HSTS, Expect-CT, Expect-Staple, HPKP, Cache-Control and the Set-Cookie attributes as they
are in the live code -/
theorem case_free_tables_are_case_free :
    ∀ T ∈ fieldTables, T.cls ∈ ["HttpHeaderFieldValueCacheControlResponse", "HttpHeaderFieldValueExpectCT",
        "HttpHeaderFieldValueSTS", "HttpHeaderFieldValueExpectStaple", "HttpHeaderFieldValuePublicKeyPinning",
        "HttpHeaderFieldValueSetCookieParams"] →
      ∀ c ∈ T.comps, c.mode = .caseInsensitive := by
  decide +kernel

/-! ## 6. the full statement -/

/-- the canonical spelling `compose()` writes: elements joined by the separator and one SP -/
def spell (T : FieldTable) (items : List Bytes) : Bytes := List.intercalate [T.sep, 0x20] items

/-- lower-cased directive names of the elements -/
def lowerNames (items : List Bytes) : List Bytes := items.map fun i => asciiLower (nameValue i).1

/-- the governing RFC declares the name of this component case-insensitive (`CpSpec/TextRfc.lean`) -/
def rfcInsensitive (T : FieldTable) (c : FieldComp) : Bool :=
  match ruleFor T.cls c.name.toLower with
  | some r => r.rule == .insensitive
  | none => false

/-- THE FAMILY OF SPELLINGS of a list of clean elements `items` for table `T`:
* the canonical one;
* any sequence of whitespace / empty-element edits of a spelling (`WsVariant`);
* the elements in any other order;
* an additional element no component accepts (an unknown directive), whose name is not yet there — `Clean` allows its
  value to be a quoted-string that contains the separator (`x="a; includeSubDomains; c"`);
* another case pattern of a name that belongs (case-insensitively) to a component the RFC declares case-insensitive. -/
inductive Variants (T : FieldTable) : List Bytes → Bytes → Prop
  | canonical (items : List Bytes) : Variants T items (spell T items)
  | ws {items : List Bytes} {σ σ' : Bytes} : Variants T items σ → WsVariant T.sep σ σ' → Variants T items σ'
  | order {items items' : List Bytes} {σ : Bytes} : items'.Perm items → Variants T items' σ → Variants T items σ
  | unknown {items : List Bytes} {σ : Bytes} (u : Bytes) : Clean T.sep u →
      (∀ c ∈ T.comps, matchesComp c (nameValue u) = false) → asciiLower (nameValue u).1 ∉ lowerNames items →
      Variants T (items ++ [u]) σ → Variants T items σ
  | recase {pre post : List Bytes} {σ : Bytes} (i i' : Bytes) (c : FieldComp) : c ∈ T.comps → rfcInsensitive T c = true →
      matchesComp { c with mode := .caseInsensitive } (nameValue i) = true →
      asciiLower (nameValue i').1 = asciiLower (nameValue i).1 → (nameValue i').2 = (nameValue i).2 → Clean T.sep i' →
      Variants T (pre ++ i' :: post) σ → Variants T (pre ++ i :: post) σ

/-- the statement for one table: every spelling in the family of clean elements with pairwise different names (up to
case) hands every component the same text as the canonical spelling (or fails with the same error) -/
def FullFor (T : FieldTable) : Prop :=
  ∀ (items : List Bytes) (σ : Bytes), (∀ i ∈ items, Clean T.sep i) → (lowerNames items).Nodup → Variants T items σ →
    (parseFields T σ).map (·.slots) = (parseFields T (spell T items)).map (·.slots)

/-- THE FULL STATEMENT of the header layer, for every class of the live table.  FALSE as it stands
(`fields_spelling_invariant_full_fails`): the first element of Content-Type (the media type) and of X-XSS-Protection (the
state) is POSITIONAL and `Variants.order` moves it.  TRUE for the other nine classes: `fields_spelling_invariant`. -/
def fields_spelling_invariant_full : Prop := ∀ T ∈ fieldTables, FullFor T

theorem wsVariant_trans {sep : UInt8} {a b c : Bytes} (h1 : WsVariant sep a b) (h2 : WsVariant sep b c) :
    WsVariant sep a c := by
  induction h2 with
  | refl => exact h1
  | step _ e ih => exact .step ih e
  | unstep _ e ih => exact .unstep ih e

/-- `items'` spells the pairs of `items`, names respelled case-only (only if the class compares every name
case-insensitively), in some order, plus unknown pairs -/
def Rel (T : FieldTable) (items items' : List Bytes) : Prop :=
  ∃ (f : Bytes → Bytes) (e : List Pair), (∀ k, asciiLower (f k) = asciiLower k) ∧
    ((∀ c ∈ T.comps, c.mode = .caseInsensitive) ∨ f = id) ∧
    (items'.map nameValue).Perm ((items.map nameValue).map (respell f) ++ e) ∧ Unmatched T.comps e

theorem Rel.refl (T : FieldTable) (items : List Bytes) : Rel T items items :=
  ⟨id, [], fun _ => rfl, Or.inr rfl, by rw [map_respell_id, List.append_nil], fun _ h => by cases h⟩

theorem Rel.trans {T : FieldTable} {a b c : List Bytes} (h1 : Rel T a b) (h2 : Rel T b c) : Rel T a c := by
  obtain ⟨f1, e1, hf1, hm1, hp1, hu1⟩ := h1
  obtain ⟨f2, e2, hf2, hm2, hp2, hu2⟩ := h2
  refine ⟨f2 ∘ f1, e1.map (respell f2) ++ e2, fun k => by simp [hf2, hf1], ?_, ?_, ?_⟩
  · rcases hm1 with h | h
    · exact Or.inl h
    · rcases hm2 with h' | h'
      · exact Or.inl h'
      · exact Or.inr (by rw [h, h']; rfl)
  · have h3 : ((b.map nameValue).map (respell f2)).Perm
        (((a.map nameValue).map (respell f1)).map (respell f2) ++ e1.map (respell f2)) := by
      have := hp1.map (respell f2)
      rwa [List.map_append] at this
    have h4 : ((a.map nameValue).map (respell f1)).map (respell f2) = (a.map nameValue).map (respell (f2 ∘ f1)) := by
      rw [List.map_map]; rfl
    rw [h4] at h3
    have := hp2.trans (h3.append_right e2)
    rwa [List.append_assoc] at this
  · intro p hp c hc
    rcases List.mem_append.mp hp with hp | hp
    · obtain ⟨q, hq, rfl⟩ := List.mem_map.mp hp
      rcases hm2 with h | h
      · rw [matchesComp_respell c (h c hc) f2 hf2]; exact hu1 q hq c hc
      · rw [h, respell_id]; exact hu1 q hq c hc
    · exact hu2 p hp c hc

/-- every case-insensitive name of the RFC is compared case-insensitively by EVERY component of the class, or the class
has no such name at all: the two situations in which `Variants.recase` cannot change what is matched -/
def RecaseOk (T : FieldTable) : Prop :=
  (∀ c ∈ T.comps, c.mode = .caseInsensitive) ∨ (∀ c ∈ T.comps, rfcInsensitive T c = false)

theorem nodup_middle {α : Type} {l1 l2 : List α} {a : α} (h : (l1 ++ a :: l2).Nodup) :
    (∀ x ∈ l1, x ≠ a) ∧ (∀ x ∈ l2, x ≠ a) := by
  rw [List.nodup_append] at h
  refine ⟨fun x hx => h.2.2 x hx a (by simp), fun x hx hxa => ?_⟩
  have := (List.nodup_cons.mp h.2.1).1
  exact this (hxa ▸ hx)

/-- every spelling of the family is a whitespace variant of the canonical spelling of clean elements `items'` that
carry the same pairs up to order, case and unknown pairs -/
theorem variants_reduce (T : FieldTable) (hre : RecaseOk T) {items : List Bytes} {σ : Bytes} (h : Variants T items σ) :
    (∀ i ∈ items, Clean T.sep i) → (lowerNames items).Nodup →
      ∃ items', (∀ i ∈ items', Clean T.sep i) ∧ (lowerNames items').Nodup ∧ WsVariant T.sep (spell T items') σ ∧
        Rel T items items' := by
  induction h with
  | canonical items => exact fun hc hn => ⟨items, hc, hn, .refl _, Rel.refl T items⟩
  | ws _ w ih =>
    intro hc hn
    obtain ⟨items', hc', hn', hw, hr⟩ := ih hc hn
    exact ⟨items', hc', hn', wsVariant_trans hw w, hr⟩
  | @order items items' σ hp _ ih =>
    intro hc hn
    have hc1 : ∀ i ∈ items', Clean T.sep i := fun i hi => hc i (hp.mem_iff.mp hi)
    have hn1 : (lowerNames items').Nodup := ((hp.map _).nodup_iff).mpr hn
    obtain ⟨items'', hc'', hn'', hw, hr⟩ := ih hc1 hn1
    refine ⟨items'', hc'', hn'', hw, Rel.trans ⟨id, [], fun _ => rfl, Or.inr rfl, ?_, fun _ h => by cases h⟩ hr⟩
    rw [map_respell_id, List.append_nil]
    exact hp.map nameValue
  | @unknown items σ u hu hun hfresh _ ih =>
    intro hc hn
    have hc1 : ∀ i ∈ items ++ [u], Clean T.sep i := by
      intro i hi
      rcases List.mem_append.mp hi with h | h
      · exact hc i h
      · rw [List.mem_singleton.mp h]; exact hu
    have hn1 : (lowerNames (items ++ [u])).Nodup := by
      unfold lowerNames at hn hfresh ⊢
      rw [List.map_append, List.nodup_append]
      refine ⟨hn, by simp, ?_⟩
      intro a ha b hb hab
      simp only [List.map_cons, List.map_nil, List.mem_singleton] at hb
      exact hfresh (hb ▸ hab ▸ ha)
    obtain ⟨items'', hc'', hn'', hw, hr⟩ := ih hc1 hn1
    refine ⟨items'', hc'', hn'', hw, Rel.trans ⟨id, [nameValue u], fun _ => rfl, Or.inr rfl, ?_, ?_⟩ hr⟩
    · rw [map_respell_id, List.map_append]; exact List.Perm.refl _
    · intro p hp c hc'
      rw [List.mem_singleton.mp hp]; exact hun c hc'
  | @recase pre post σ i i' c hcm hrfc _ hlow hval hci' _ ih =>
    intro hc hn
    have hall : ∀ c ∈ T.comps, c.mode = .caseInsensitive := by
      rcases hre with h | h
      · exact h
      · rw [h c hcm] at hrfc; cases hrfc
    have hc1 : ∀ j ∈ pre ++ i' :: post, Clean T.sep j := by
      intro j hj
      rcases List.mem_append.mp hj with h | h
      · exact hc j (List.mem_append_left _ h)
      · rcases List.mem_cons.mp h with h | h
        · rw [h]; exact hci'
        · exact hc j (List.mem_append_right _ (List.mem_cons_of_mem _ h))
    have hln : lowerNames (pre ++ i' :: post) = lowerNames (pre ++ i :: post) := by
      simp [lowerNames, hlow]
    have hn1 : (lowerNames (pre ++ i' :: post)).Nodup := by rw [hln]; exact hn
    obtain ⟨items'', hc'', hn'', hw, hr⟩ := ih hc1 hn1
    refine ⟨items'', hc'', hn'', hw, Rel.trans ?_ hr⟩
    -- the respelling: the name of `i` becomes the name of `i'`, every other name stays
    refine ⟨fun k => if k = (nameValue i).1 then (nameValue i').1 else k, [], ?_, Or.inl hall, ?_, fun _ h => by cases h⟩
    · intro k
      by_cases hk : k = (nameValue i).1
      · simp [hk, hlow]
      · simp [hk]
    · have hmid := nodup_middle (a := asciiLower (nameValue i).1) (l1 := lowerNames pre) (l2 := lowerNames post)
        (by simpa [lowerNames] using hn)
      have hother : ∀ j, asciiLower (nameValue j).1 ≠ asciiLower (nameValue i).1 →
          respell (fun k => if k = (nameValue i).1 then (nameValue i').1 else k) (nameValue j) = nameValue j := by
        intro j hj
        have : (nameValue j).1 ≠ (nameValue i).1 := fun h => hj (by rw [h])
        simp [respell, this]
      have hpre : (pre.map nameValue).map (respell fun k => if k = (nameValue i).1 then (nameValue i').1 else k) =
          pre.map nameValue := by
        rw [List.map_map]
        apply List.map_congr_left
        intro j hj
        exact hother j (hmid.1 _ (List.mem_map.mpr ⟨j, hj, rfl⟩))
      have hpost : (post.map nameValue).map (respell fun k => if k = (nameValue i).1 then (nameValue i').1 else k) =
          post.map nameValue := by
        rw [List.map_map]
        apply List.map_congr_left
        intro j hj
        exact hother j (hmid.2 _ (List.mem_map.mpr ⟨j, hj, rfl⟩))
      have hi : respell (fun k => if k = (nameValue i).1 then (nameValue i').1 else k) (nameValue i) = nameValue i' := by
        simp [respell, ← hval]
      simp only [List.map_append, List.map_cons, List.append_nil, hpre, hpost, hi]
      exact List.Perm.refl _

/-- THE FULL STATEMENT, PROVED for every table without a positional component in which `recase` cannot change what is
matched (`RecaseOk`): whitespace runs and empty elements, any order, unknown directives and other case patterns — in
any combination — hand every component the same text as the canonical spelling. -/
theorem fields_spelling_invariant (T : FieldTable) (hsep : T.sep ∉ fieldWs) (hq : T.sep ≠ 0x22)
    (hno : ∀ c ∈ T.comps, c.mode ≠ .anyName) (hre : RecaseOk T) : FullFor T := by
  intro items σ hc hn hv
  obtain ⟨items', hc', hn', hw, f, e, hf, hm, hp, hu⟩ := variants_reduce T hre hv hc hn
  have hwsp : ∀ x ∈ ([0x20] : Bytes), x ∈ fieldWs := by decide
  rw [fields_ws_invariant T hsep hq hw]
  unfold spell
  rw [fields_canonical T hsep hq [0x20] hwsp items' hc', fields_canonical T hsep hq [0x20] hwsp items hc]
  refine parsePairs_variant T hno _ _ e f hf hm hp hu ?_
  rw [List.map_map]
  exact hn'

/-- the side conditions as a decidable check of a table -/
def fullOk (T : FieldTable) : Bool :=
  !fieldWs.contains T.sep && T.sep != 0x22 && T.comps.all (fun c => c.mode != .anyName) &&
    (T.comps.all (fun c => c.mode == .caseInsensitive) || T.comps.all (fun c => !rfcInsensitive T c))

theorem fullFor_of_fullOk (T : FieldTable) (h : fullOk T = true) : FullFor T := by
  simp only [fullOk, Bool.and_eq_true, Bool.or_eq_true, List.all_eq_true, Bool.not_eq_true', bne_iff_ne, ne_eq,
    beq_iff_eq] at h
  refine fields_spelling_invariant T (by simpa using h.1.1.1) h.1.1.2 h.1.2 ?_
  rcases h.2 with h' | h'
  · exact Or.inl h'
  · exact Or.inr h'

/-- the classes of the live table that satisfy the side conditions: all but the two with a positional first element -/
theorem full_statement_classes :
    (fieldTables.filter fullOk).map (·.cls) =
      ["DnsRecordTxtValueDmarc", "DnsRecordTxtValueMtaSts", "DnsRecordTxtValueTlsRpt",
       "HttpHeaderFieldValueCacheControlResponse", "HttpHeaderFieldValueExpectCT", "HttpHeaderFieldValueExpectStaple",
       "HttpHeaderFieldValuePublicKeyPinning", "HttpHeaderFieldValueSTS", "HttpHeaderFieldValueSetCookieParams"] := by
  decide +kernel

/-- THE FULL STATEMENT FOR THE LIVE CODE: every class of the regenerated table except the two with a positional first
element — Cache-Control, Expect-CT, HSTS, Expect-Staple, HPKP, the Set-Cookie attribute list, DMARC, MTA-STS, TLSRPT. -/
theorem fields_spelling_invariant_live (T : FieldTable) (hT : T ∈ fieldTables)
    (h1 : T.cls ≠ "HttpHeaderFieldValueContentType") (h2 : T.cls ≠ "HttpHeaderFieldValueXXSSProtection") : FullFor T := by
  have hall : fieldTables.all (fun T => T.cls == "HttpHeaderFieldValueContentType" ||
      T.cls == "HttpHeaderFieldValueXXSSProtection" || fullOk T) = true := by decide +kernel
  rw [List.all_eq_true] at hall
  have := hall T hT
  simp only [Bool.or_eq_true, beq_iff_eq] at this
  rcases this with (h | h) | h
  · exact absurd h h1
  · exact absurd h h2
  · exact fullFor_of_fullOk T h

/-- Content-Type as it is in the live table -/
def ctTable : FieldTable :=
  ⟨"HttpHeaderFieldValueContentType", 59,
    [⟨"mime_type", "", .mimeType, false, .anyName⟩,
     ⟨"charset", "charset", .string, true, .caseInsensitive⟩,
     ⟨"boundary", "boundary", .string, true, .caseInsensitive⟩], none⟩

/-- X-XSS-Protection as it is in the live table -/
def xssTable : FieldTable :=
  ⟨"HttpHeaderFieldValueXXSSProtection", 59,
    [⟨"state", "", .stringEnumOption, false, .anyName⟩,
     ⟨"mode", "mode", .stringEnum, true, .exact⟩,
     ⟨"report", "report", .string, true, .caseInsensitive⟩], none⟩

theorem clean_of_check (sep : UInt8) (i : Bytes)
    (h : (freeQ sep .out i && decide (qAfter .out i = .out) && (trim fieldWs i == i) && !i.isEmpty && isAscii i &&
      pairOk i) = true) : Clean sep i := by
  simp only [Bool.and_eq_true, Bool.not_eq_true', beq_iff_eq, decide_eq_true_eq] at h
  refine ⟨h.1.1.1.1.1, h.1.1.1.1.2, h.1.1.1.2, ?_, h.1.2, h.2⟩
  intro he; have := h.1.1.2; simp [he] at this

/-- WITNESS that the full statement is false for a positional first element: `t/h; charset=u` and `charset=u; t/h`
are related by `Variants.order`, but the second hands `charset=u` to the media-type component.  Same for
X-XSS-Protection (`1; mode=b` / `mode=b; 1`). -/
theorem positional_first_is_order_sensitive :
    ctTable ∈ fieldTables ∧ ¬ FullFor ctTable ∧ xssTable ∈ fieldTables ∧ ¬ FullFor xssTable := by
  refine ⟨by decide +kernel, ?_, by decide +kernel, ?_⟩
  · intro h
    have := h [[0x74, 0x2f, 0x68], [0x63, 0x68, 0x61, 0x72, 0x73, 0x65, 0x74, 0x3d, 0x75]]
      (spell ctTable [[0x63, 0x68, 0x61, 0x72, 0x73, 0x65, 0x74, 0x3d, 0x75], [0x74, 0x2f, 0x68]])
      (by intro i hi; simp only [List.mem_cons, List.mem_nil_iff, or_false] at hi
          rcases hi with rfl | rfl <;> exact clean_of_check _ _ (by decide))
      (by decide +kernel)
      (.order (List.Perm.swap _ _ _) (.canonical _))
    revert this
    decide +kernel
  · intro h
    have := h [[0x31], [0x6d, 0x6f, 0x64, 0x65, 0x3d, 0x62]]
      (spell xssTable [[0x6d, 0x6f, 0x64, 0x65, 0x3d, 0x62], [0x31]])
      (by intro i hi; simp only [List.mem_cons, List.mem_nil_iff, or_false] at hi
          rcases hi with rfl | rfl <;> exact clean_of_check _ _ (by decide))
      (by decide +kernel)
      (.order (List.Perm.swap _ _ _) (.canonical _))
    revert this
    decide +kernel

/-- hence the statement over ALL live classes is false -/
theorem fields_spelling_invariant_full_fails : ¬ fields_spelling_invariant_full :=
  fun h => positional_first_is_order_sensitive.2.1 (h ctTable positional_first_is_order_sensitive.1)

/-- what holds for the two positional classes (and every other one): whitespace and empty elements -/
theorem fields_spelling_invariant_partial (T : FieldTable) (hT : T ∈ fieldTables) (items : List Bytes) {σ : Bytes}
    (h : WsVariant T.sep (spell T items) σ) : parseFields T σ = parseFields T (spell T items) := by
  have hall := separators_are_not_whitespace
  rw [List.all_eq_true] at hall
  have hsep : T.sep ∉ fieldWs := by
    have := hall T hT
    simpa using this
  have hq : T.sep ≠ 0x22 := by
    have hall2 := separators_are_not_quote
    rw [List.all_eq_true] at hall2
    simpa using hall2 T hT
  exact fields_ws_invariant T hsep hq h

/-! ## 7. a separator inside a quoted-string value

What the quote-unaware splitter got wrong (the former findings `unknown-directive:<Class>:quoted-separator` and
`canonical:<Class>:separator-in-quoted-string`), as theorems about the repaired code. -/

/-- the element `key="body"` -/
def quotedPair (key body : Bytes) : Bytes := key ++ 0x3d :: 0x22 :: (body ++ [0x22])

theorem splitFirstEq_key (key rest : Bytes) (hk : (0x3d : UInt8) ∉ key) :
    splitFirstEq (key ++ 0x3d :: rest) = some (key, rest) := by
  induction key with
  | nil => simp [splitFirstEq]
  | cons x xs ih =>
    have hx : x ≠ 0x3d := fun h => hk (by simp [h])
    simp [splitFirstEq, hx, ih (fun h => hk (by simp [h]))]

/-- `NameValuePair` reads `key="body"` as the pair (key, body): the quotes are removed, the body — separators
included — is the value -/
theorem nameValue_quotedPair (key body : Bytes) (hk : (0x3d : UInt8) ∉ key) (hkt : trimEnd fieldWs key = key) :
    nameValue (quotedPair key body) = (key, some body) := by
  unfold nameValue quotedPair
  rw [splitFirstEq_key key _ hk]
  simp only [hkt]
  have h1 : (0x22 :: (body ++ [0x22]) : Bytes).dropWhile (· = 0x3d) = 0x22 :: (body ++ [0x22]) := by
    simp [List.dropWhile]
  have h2 : trimStart fieldWs (0x22 :: (body ++ [0x22])) = 0x22 :: (body ++ [0x22]) :=
    trimStart_head fieldWs _ (by intro y r e; cases e; decide)
  rw [h1, h2]
  simp [stripQuotes]

/-- `key="body"` passes the well-formedness check of the list: the double quotes delimit a quoted-string value -/
theorem pairOk_quotedPair (key body : Bytes) (hk2 : (0x22 : UInt8) ∉ key) (hk3 : (0x3d : UInt8) ∉ key)
    (hkt : trimEnd fieldWs key = key) (hbody : quotedBody .inq body = true) : pairOk (quotedPair key body) = true := by
  have hnv := nameValue_quotedPair key body hk3 hkt
  unfold pairOk
  rw [hnv]
  have hraw : rawValue (quotedPair key body) = some (0x22 :: (body ++ [0x22])) := by
    unfold rawValue quotedPair
    rw [splitFirstEq_key key _ hk3]
    have h1 : (0x22 :: (body ++ [0x22]) : Bytes).dropWhile (· = 0x3d) = 0x22 :: (body ++ [0x22]) := by
      simp [List.dropWhile]
    have h2 : trimStart fieldWs (0x22 :: (body ++ [0x22])) = 0x22 :: (body ++ [0x22]) :=
      trimStart_head fieldWs _ (by intro y r e; cases e; decide)
    simp only [h1, h2]
  rw [hraw]
  simp [valueOk, stripQuotes, hk2, hbody]

/-- `key="body"` is a clean element whatever separators, spaces and quoted-pairs the body contains -/
theorem clean_quotedPair (sep : UInt8) (hq : sep ≠ 0x22) (hs : sep ≠ 0x3d) (key body : Bytes) (hk1 : sep ∉ key)
    (hk2 : (0x22 : UInt8) ∉ key) (hk3 : (0x3d : UInt8) ∉ key) (hkt : trimEnd fieldWs key = key)
    (hbody : quotedBody .inq body = true) (hhead : ∀ y r, key = y :: r → y ∉ fieldWs)
    (hascii : isAscii (quotedPair key body) = true) : Clean sep (quotedPair key body) := by
  have hq' : quotedPair key body = (key ++ [0x3d]) ++ 0x22 :: (body ++ [0x22]) := by simp [quotedPair]
  obtain ⟨h1, h2⟩ := name_quoted_free sep hq (key ++ [0x3d]) body (by simp [hk1, hs]) (by simp [hk2]) hbody
  refine ⟨by rw [hq']; exact h1, by rw [hq']; exact h2, ?_, by simp [quotedPair], hascii,
    pairOk_quotedPair key body hk2 hk3 hkt hbody⟩
  have hlast : quotedPair key body = (key ++ 0x3d :: 0x22 :: body) ++ [0x22] := by simp [quotedPair]
  unfold trim
  rw [trimStart_head fieldWs _ (by
    intro y r e
    cases key with
    | nil => simp [quotedPair] at e; rw [← e.1]; decide
    | cons z zs => simp [quotedPair] at e; exact hhead y zs (by rw [e.1]))]
  rw [hlast, trimEnd_last fieldWs _ 0x22 (by decide)]

/-- CANONICAL, WITH A SEPARATOR INSIDE A QUOTED VALUE.  The spelling `compose()` writes for a value that contains the
list separator (`report-uri="https://a.example/r?a=1,2"` in the comma list of Expect-CT, `…/r;a=1` in the semicolon
lists of Expect-Staple and Public-Key-Pins) is handed to the components as the pairs it spells: the element
`key="body"` arrives as the ONE pair (key, body), the separators of the body inside it. -/
theorem fields_canonical_quoted_value (T : FieldTable) (hsep : T.sep ∉ fieldWs) (hq : T.sep ≠ 0x22) (hs : T.sep ≠ 0x3d)
    (w : Bytes) (hw : ∀ x ∈ w, x ∈ fieldWs) (pre post : List Bytes) (key body : Bytes)
    (hi : ∀ i ∈ pre ++ post, Clean T.sep i)
    (hk1 : T.sep ∉ key) (hk2 : (0x22 : UInt8) ∉ key) (hk3 : (0x3d : UInt8) ∉ key) (hkt : trimEnd fieldWs key = key)
    (hhead : ∀ y r, key = y :: r → y ∉ fieldWs) (hbody : quotedBody .inq body = true)
    (hascii : isAscii (quotedPair key body) = true) :
    parseFields T (List.intercalate (T.sep :: w) (pre ++ quotedPair key body :: post)) =
      parsePairs T (pre.map nameValue ++ (key, some body) :: post.map nameValue) := by
  have hc := clean_quotedPair T.sep hq hs key body hk1 hk2 hk3 hkt hbody hhead hascii
  rw [fields_canonical T hsep hq w hw]
  · simp [nameValue_quotedPair key body hk3 hkt]
  · intro i hmem
    rcases List.mem_append.mp hmem with h | h
    · exact hi i (List.mem_append_left _ h)
    · rcases List.mem_cons.mp h with h | h
      · rw [h]; exact hc
      · exact hi i (List.mem_append_right _ h)

/-- AN UNKNOWN DIRECTIVE WITH A QUOTED VALUE THAT CONTAINS THE SEPARATOR (`x="a; includeSubDomains; c"`), inserted at
any position of the canonical spelling: every component is handed the same text as without it — in particular no flag
directive named inside the quotes is switched on — and the directive is left over as the one pair (key, body). -/
theorem fields_unknown_quoted_separator_invariant (T : FieldTable) (hsep : T.sep ∉ fieldWs) (hq : T.sep ≠ 0x22)
    (hs : T.sep ≠ 0x3d) (w w' : Bytes) (hw : ∀ x ∈ w, x ∈ fieldWs) (hw' : ∀ x ∈ w', x ∈ fieldWs)
    (pre post : List Bytes) (key body : Bytes)
    (hi : ∀ i ∈ pre ++ post, Clean T.sep i)
    (hk1 : T.sep ∉ key) (hk2 : (0x22 : UInt8) ∉ key) (hk3 : (0x3d : UInt8) ∉ key) (hkt : trimEnd fieldWs key = key)
    (hhead : ∀ y r, key = y :: r → y ∉ fieldWs) (hbody : quotedBody .inq body = true)
    (hascii : isAscii (quotedPair key body) = true)
    (hnames : (((pre ++ quotedPair key body :: post).map nameValue).map (·.1)).Nodup)
    (hunknown : ∀ c ∈ T.comps, matchesComp c (key, some body) = false)
    (hunamb : ∀ c ∈ T.comps, (((pre ++ post).map nameValue).filter (matchesComp c)).length ≤ 1) :
    SameSlots [(key, some body)] (parseFields T (List.intercalate (T.sep :: w) (pre ++ post)))
      (parseFields T (List.intercalate (T.sep :: w') (pre ++ quotedPair key body :: post))) := by
  have hc := clean_quotedPair T.sep hq hs key body hk1 hk2 hk3 hkt hbody hhead hascii
  have hnv := nameValue_quotedPair key body hk3 hkt
  have hperm : (pre ++ quotedPair key body :: post).Perm ((pre ++ post) ++ [quotedPair key body]) :=
    List.perm_middle.trans (List.perm_append_singleton _ _).symm
  have := fields_order_unknown_invariant T hsep hq w w' hw hw' (pre ++ post) (pre ++ quotedPair key body :: post)
    [quotedPair key body] hperm ?_ hnames ?_ hunamb
  · simpa [hnv] using this
  · intro i hmem
    rcases List.mem_append.mp hmem with h | h
    · exact hi i (List.mem_append_left _ h)
    · rcases List.mem_cons.mp h with h | h
      · rw [h]; exact hc
      · exact hi i (List.mem_append_right _ h)
  · intro u hu c hcm
    rw [List.mem_singleton.mp hu, hnv]
    exact hunknown c hcm

/-- THE FULL STATEMENT covers such directives: for every class of the live table without a positional component, an
unknown `key="body"` whose body contains the separator, appended to ANY spelling of the family, leaves every slot as
the canonical spelling has it. -/
theorem fields_spelling_invariant_quoted_unknown (T : FieldTable) (hfull : FullFor T) (hq : T.sep ≠ 0x22)
    (hs : T.sep ≠ 0x3d) (items : List Bytes) (σ : Bytes) (key body : Bytes)
    (hc : ∀ i ∈ items, Clean T.sep i) (hn : (lowerNames items).Nodup)
    (hk1 : T.sep ∉ key) (hk2 : (0x22 : UInt8) ∉ key) (hk3 : (0x3d : UInt8) ∉ key) (hkt : trimEnd fieldWs key = key)
    (hhead : ∀ y r, key = y :: r → y ∉ fieldWs) (hbody : quotedBody .inq body = true)
    (hascii : isAscii (quotedPair key body) = true)
    (hunknown : ∀ c ∈ T.comps, matchesComp c (key, some body) = false)
    (hfresh : asciiLower key ∉ lowerNames items)
    (hv : Variants T (items ++ [quotedPair key body]) σ) :
    (parseFields T σ).map (·.slots) = (parseFields T (spell T items)).map (·.slots) := by
  have hnv := nameValue_quotedPair key body hk3 hkt
  refine hfull items σ hc hn (.unknown (quotedPair key body)
    (clean_quotedPair T.sep hq hs key body hk1 hk2 hk3 hkt hbody hhead hascii) ?_ ?_ hv)
  · rw [hnv]; exact hunknown
  · rw [hnv]; exact hfresh

/-- A STRAY DOUBLE QUOTE IS REJECTED.  If one of the items of the list is not well-formed (`pairOk`: a double quote in a
name, in an unquoted value, unescaped inside a quoted value, or a quoted value ending in a lone backslash), the whole
list is `InvalidValue` — it is never split at a place that depends on a guess about the quote. -/
theorem fields_stray_quote_rejected (T : FieldTable) (b : Bytes) (items : List Bytes)
    (hscan : scanItemsQ T.sep fieldWs true b = .ok items) (hbad : ∃ i ∈ items, pairOk i = false) :
    parseFields T b = .error .invalidValue := by
  rw [parseFields_via_scan, hscan]
  have : items.all pairOk = false := by
    obtain ⟨i, hi, hp⟩ := hbad
    apply Bool.eq_false_iff.mpr
    intro hall
    have := List.all_eq_true.mp hall i hi
    rw [hp] at this; cases this
  simp [this]

/-! ## non-vacuity -/

-- HSTS as it is in the live table
def stsTable : FieldTable :=
  ⟨"HttpHeaderFieldValueSTS", 59,
    [⟨"max_age", "max-age", .timeDelta, false, .caseInsensitive⟩,
     ⟨"include_subdomains", "includeSubDomains", .option, true, .caseInsensitive⟩,
     ⟨"preload", "preload", .option, true, .caseInsensitive⟩], none⟩

example : stsTable ∈ fieldTables := by decide +kernel

-- "max-age=1; includeSubDomains" and " MAX-AGE=1 ;;\tincludesubdomains ; x=y;" are handed over alike: max_age "1",
-- include_subdomains present, preload default; the unknown pair x=y is left over
example : parseFields stsTable
    [0x6d, 0x61, 0x78, 0x2d, 0x61, 0x67, 0x65, 0x3d, 0x31, 0x3b, 0x20, 0x69, 0x6e, 0x63, 0x6c, 0x75, 0x64, 0x65, 0x53, 0x75,
     0x62, 0x44, 0x6f, 0x6d, 0x61, 0x69, 0x6e, 0x73] = .ok ⟨[.value [0x31], .flag, .absent], []⟩ := by decide +kernel
example : parseFields stsTable
    [0x20, 0x4d, 0x41, 0x58, 0x2d, 0x41, 0x47, 0x45, 0x3d, 0x31, 0x20, 0x3b, 0x3b, 0x09, 0x69, 0x6e, 0x63, 0x6c, 0x75, 0x64,
     0x65, 0x73, 0x75, 0x62, 0x64, 0x6f, 0x6d, 0x61, 0x69, 0x6e, 0x73, 0x20, 0x3b, 0x20, 0x78, 0x3d, 0x79, 0x3b] =
    .ok ⟨[.value [0x31], .flag, .absent], [([0x78], some [0x79])]⟩ := by decide +kernel
-- a mandatory directive missing: InvalidValue
example : parseFields stsTable [0x70, 0x72, 0x65, 0x6c, 0x6f, 0x61, 0x64] = .error .invalidValue := by decide +kernel
-- after the repair cfc377c the live Content-Type table hands `Charset=u` to the charset component, like `charset=u`
example : (fieldTables.find? (·.cls == "HttpHeaderFieldValueContentType")).map
    (fun T => parseFields T [0x74, 0x2f, 0x68, 0x3b, 0x43, 0x68, 0x61, 0x72, 0x73, 0x65, 0x74, 0x3d, 0x75]) =
    some (.ok ⟨[.value [0x74, 0x2f, 0x68], .value [0x75], .absent], []⟩) := by
  decide +kernel
example : (fieldTables.find? (·.cls == "HttpHeaderFieldValueContentType")).map
    (fun T => parseFields T [0x74, 0x2f, 0x68, 0x3b, 0x63, 0x68, 0x61, 0x72, 0x73, 0x65, 0x74, 0x3d, 0x75]) =
    some (.ok ⟨[.value [0x74, 0x2f, 0x68], .value [0x75], .absent], []⟩) := by
  decide +kernel
-- whitespace around "=" is not part of the name or the value (repair 1356c66): `a = "x"`
example : nameValue [0x61, 0x20, 0x3d, 0x09, 0x22, 0x78, 0x22] = ([0x61], some [0x78]) := by decide
-- NameValuePair: quotes are stripped, a run of "=" is one separator, a later duplicate overwrites in place
example : nameValue [0x61, 0x3d, 0x22, 0x78, 0x22] = ([0x61], some [0x78]) := by decide
example : nameValue [0x61, 0x3d, 0x3d, 0x62, 0x3d, 0x63] = ([0x61], some [0x62, 0x3d, 0x63]) := by decide
example : nameValue [0x61] = ([0x61], none) := by decide
example : odOfList [([0x61], some [0x31]), ([0x62], none), ([0x61], some [0x32])] = [([0x61], some [0x32]), ([0x62], none)] := by
  decide
-- the hypotheses of the order/unknown theorem are satisfiable: three clean elements, an unknown one
example : Clean 59 [0x6d, 0x61, 0x78, 0x2d, 0x61, 0x67, 0x65, 0x3d, 0x31] := by
  refine ⟨by decide, by decide, by decide, by decide, by decide, by decide⟩
example : ∀ c ∈ stsTable.comps, matchesComp c (nameValue [0x78, 0x3d, 0x79]) = false := by decide +kernel
-- `WsVariant` relates different spellings: "a;b" and "a ;b"
example : WsVariant 59 [0x61, 0x3b, 0x62] [0x61, 0x20, 0x3b, 0x62] :=
  .step (.refl _) (WsEdit.beforeSep [0x61] [0x20] [0x62] (by decide) (by decide))


-- the former finding `unknown-directive:HttpHeaderFieldValueSTS:quoted-separator`:
-- `x="a; includeSubDomains; c"; max-age=0` — includeSubDomains stays off, the unknown directive is ONE left-over pair
example : parseFields stsTable
    [0x78, 0x3d, 0x22, 0x61, 0x3b, 0x20, 0x69, 0x6e, 0x63, 0x6c, 0x75, 0x64, 0x65, 0x53, 0x75, 0x62, 0x44, 0x6f, 0x6d, 0x61,
     0x69, 0x6e, 0x73, 0x3b, 0x20, 0x63, 0x22, 0x3b, 0x20, 0x6d, 0x61, 0x78, 0x2d, 0x61, 0x67, 0x65, 0x3d, 0x30] =
    .ok ⟨[.value [0x30], .absent, .absent],
      [([0x78], some [0x61, 0x3b, 0x20, 0x69, 0x6e, 0x63, 0x6c, 0x75, 0x64, 0x65, 0x53, 0x75, 0x62, 0x44, 0x6f, 0x6d, 0x61,
        0x69, 0x6e, 0x73, 0x3b, 0x20, 0x63])]⟩ := by decide +kernel
-- the former finding `canonical:HttpHeaderFieldValueExpectCT:separator-in-quoted-string`:
-- `max-age=5, report-uri="https://a.example/r?a=1,2"` — the report-uri component is handed the whole URI
example : (fieldTables.find? (·.cls == "HttpHeaderFieldValueExpectCT")).map
    (fun T => (parseFields T
      [0x6d, 0x61, 0x78, 0x2d, 0x61, 0x67, 0x65, 0x3d, 0x35, 0x2c, 0x20, 0x72, 0x65, 0x70, 0x6f, 0x72, 0x74, 0x2d, 0x75, 0x72,
       0x69, 0x3d, 0x22, 0x68, 0x74, 0x74, 0x70, 0x73, 0x3a, 0x2f, 0x2f, 0x61, 0x2e, 0x65, 0x78, 0x61, 0x6d, 0x70, 0x6c, 0x65,
       0x2f, 0x72, 0x3f, 0x61, 0x3d, 0x31, 0x2c, 0x32, 0x22]).map
      (fun a => a.slots.contains (.value
        [0x68, 0x74, 0x74, 0x70, 0x73, 0x3a, 0x2f, 0x2f, 0x61, 0x2e, 0x65, 0x78, 0x61, 0x6d, 0x70, 0x6c, 0x65, 0x2f, 0x72,
         0x3f, 0x61, 0x3d, 0x31, 0x2c, 0x32]))) = some (.ok true) := by
  decide +kernel
-- the hypotheses of the quoted-value theorems are satisfiable: key `x`, body `a; b`
example : Clean 59 (quotedPair [0x78] [0x61, 0x3b, 0x20, 0x62]) := clean_of_check _ _ (by decide)
example : nameValue (quotedPair [0x78] [0x61, 0x3b, 0x20, 0x62]) = ([0x78], some [0x61, 0x3b, 0x20, 0x62]) := by decide
-- an element with an UNBALANCED quote is not clean (it swallows what follows it)
example : ¬ Clean 59 [0x78, 0x3d, 0x22, 0x61] := by
  intro h; exact absurd h.2.1 (by decide)
-- a stray double quote makes the whole list InvalidValue: `max-age=0; x=a"b"` (HSTS); as the LAST item an unclosed
-- quoted value is accepted: `max-age=0; x="a; b`
example : parseFields stsTable
    [0x6d, 0x61, 0x78, 0x2d, 0x61, 0x67, 0x65, 0x3d, 0x30, 0x3b, 0x20, 0x78, 0x3d, 0x61, 0x22, 0x62, 0x22] =
    .error .invalidValue := by decide +kernel
example : parseFields stsTable
    [0x6d, 0x61, 0x78, 0x2d, 0x61, 0x67, 0x65, 0x3d, 0x30, 0x3b, 0x20, 0x78, 0x3d, 0x22, 0x61, 0x3b, 0x20, 0x62] =
    .ok ⟨[.value [0x30], .absent, .absent], [([0x78], some [0x61, 0x3b, 0x20, 0x62])]⟩ := by decide +kernel
example : pairOk [0x78, 0x3d, 0x61, 0x22, 0x62, 0x22] = false := by decide
-- whitespace inside a quoted-string is NOT an insignificant edit: `WsEdit.beforeSep` needs balanced quotes in front
example : qAfter .out [0x78, 0x3d, 0x22, 0x61] = .inq := by decide

end Cp.C18
