import CpModel.Gen.Fields
import CpModel.Text.Fields
import CpSpec.TextRfc
import CpProofs.Fields
import CpProps.C18a
/-
  C18 (header / record layer) — insignificant spelling never changes which component of a header value or TXT policy
  record is handed which text.

  `Cp.Text.parseFields T` (CpModel/Text/Fields.lean) is `FieldValueMultiple._parse` up to the component value parsers,
  generically over a component table `T`; `Cp.Gen.fieldTables` is the table of every `FieldValueMultiple` subclass of the
  live code, regenerated on every run with the name-match mode of every component PROBED (`_check_name` called on
  respelled names).  `Cp.Spec.TextRfc.nameRules` is what the governing RFCs say about the case of those names.

  1. table obligations (regenerated data, `decide`): where the code is stricter than the RFC — EXACTLY the known
     deviations; every component has a written rule; the code is nowhere laxer than a case-sensitive grammar; the list
     separators are not whitespace; which classes match every name case-insensitively; positional components come first
  2. whitespace and empty elements (every table): through the scanner theorems of the scanner layer
  3. the canonical spelling parses to the pairs it spells
  4. order of the elements, unknown directives: facts about name-keyed matching
  5. case of names, for the classes whose components all match case-insensitively
  6. the full statement, kept as a `Prop`, and what of it is proved
-/
namespace Cp.C18
open Cp Cp.Text Cp.Gen Cp.Spec.TextRfc

/-! ## 1. the regenerated component table against the RFCs -/

/-- the live name test is stricter than the specification: exact comparison of a name the RFC declares
case-insensitive -/
def stricter (mode : MatchMode) (rule : NameCase) : Bool := mode == .exact && rule == .insensitive

/-- the live name test is laxer than the specification: a case-sensitive name compared case-insensitively -/
def laxer (mode : MatchMode) (rule : NameCase) : Bool := mode == .caseInsensitive && rule == .sensitive

/-- (class, canonical name) of the components selected by `bad` -/
def deviations (bad : MatchMode → NameCase → Bool) : List (String × String) :=
  fieldTables.flatMap fun t => t.comps.filterMap fun c =>
    match ruleFor t.cls c.name.toLower with
    | some r => if bad c.mode r.rule then some (t.cls, c.name) else none
    | none => none

/-- MATCHES THE RFCs, EXCEPT.  The components whose live name test is stricter than the governing RFC are exactly:
the `charset` and `boundary` parameters of Content-Type (RFC 7231 §3.1.1.1: parameter names are case-insensitive) and the
`Expires`, `Domain`, `Path`, `SameSite` attributes of Set-Cookie (RFC 6265 §5.2.1–§5.2.4, 6265bis §5.6.7:
"case-insensitively matches").  `Charset=utf-8` and `domain=example.com` are dropped silently.  A change of any
component's `_check_name` changes the regenerated table and breaks this obligation. -/
theorem matches_rfc_except :
    deviations stricter =
      [("HttpHeaderFieldValueContentType", "charset"), ("HttpHeaderFieldValueContentType", "boundary"),
       ("HttpHeaderFieldValueSetCookieParams", "expires"), ("HttpHeaderFieldValueSetCookieParams", "Domain"),
       ("HttpHeaderFieldValueSetCookieParams", "Path"), ("HttpHeaderFieldValueSetCookieParams", "SameSite")] := by
  decide +kernel

/-- the code is nowhere LAXER than a case-sensitive grammar (DMARC: RFC 6376 §3.2; MTA-STS, TLSRPT: `%s"…"`) -/
theorem not_laxer_than_rfc : deviations laxer = [] := by decide +kernel

/-- every component of every class has a written rule: a new class or directive breaks this obligation until
`CpSpec/TextRfc.lean` says what its specification is -/
theorem rfc_rules_cover_table :
    (fieldTables.flatMap fun t => (t.comps.filter fun c => (ruleFor t.cls c.name.toLower).isNone).map fun c => (t.cls, c.name)) = [] := by
  decide +kernel

/-- the list separators (`;` and `,`) are not among the whitespace bytes of `NameValuePairList`: the side condition
of the scanner theorems holds for every class -/
theorem separators_are_not_whitespace : fieldTables.all (fun t => !fieldWs.contains t.sep) = true := by decide +kernel

/-- the classes all of whose components are matched case-insensitively (`fields_case_invariant` applies to them) -/
theorem case_free_classes :
    (fieldTables.filter fun t => t.comps.all fun c => c.mode == .caseInsensitive).map (·.cls) =
      ["HttpHeaderFieldValueCacheControlResponse", "HttpHeaderFieldValueExpectCT", "HttpHeaderFieldValueSTS",
       "HttpHeaderFieldValueExpectStaple", "HttpHeaderFieldValuePublicKeyPinning"] := by
  decide +kernel

/-- positional components (their `_check_name` accepts ANY name: the media type of Content-Type, the state of
X-XSS-Protection) exist only as the FIRST component of a class: they take the first pair of the list, which is why the
first element of these two fields is not order-free -/
theorem positional_components_are_first :
    (fieldTables.flatMap fun t => (t.comps.drop 1).filter fun c => c.mode == .anyName) = [] ∧
      (fieldTables.filter fun t => t.comps.any fun c => c.mode == .anyName).map (·.cls) =
        ["HttpHeaderFieldValueContentType", "HttpHeaderFieldValueXXSSProtection"] := by
  decide +kernel

/-! ## 2. whitespace and empty elements — every table -/

/-- `parseFields` sees its input only through the items the scanner returns -/
theorem parseFields_via_scan (T : FieldTable) (b : Bytes) :
    parseFields T b =
      match scanItems T.sep fieldWs true b with
      | .ok items => parsePairs T (items.map nameValue)
      | .error e => .error e := by
  unfold parseFields scanItems
  cases parseStringArray b 0 [T.sep] fieldWs true none with
  | error e => rfl
  | ok r => rfl

/-- one insignificant edit of a spelling: a run of SP/HTAB before or after a separator or at either end, an
additional separator (an empty element) anywhere, at the front or at the end -/
inductive WsEdit (sep : UInt8) : Bytes → Bytes → Prop
  | atStart (w b : Bytes) (hw : ∀ x ∈ w, x ∈ fieldWs) : WsEdit sep b (w ++ b)
  | atEnd (w b : Bytes) (hw : ∀ x ∈ w, x ∈ fieldWs) : WsEdit sep b (b ++ w)
  | beforeSep (a w r : Bytes) (hw : ∀ x ∈ w, x ∈ fieldWs) : WsEdit sep (a ++ sep :: r) (a ++ (w ++ sep :: r))
  | afterSep (a w r : Bytes) (hw : ∀ x ∈ w, x ∈ fieldWs) : WsEdit sep (a ++ sep :: r) (a ++ sep :: (w ++ r))
  | emptyElement (a r : Bytes) : WsEdit sep (a ++ sep :: r) (a ++ sep :: sep :: r)
  | leadingSep (b : Bytes) : WsEdit sep b (sep :: b)
  | trailingSep (b : Bytes) : WsEdit sep b (b ++ [sep])

/-- any number of such edits, applied or undone, in any order -/
inductive WsVariant (sep : UInt8) : Bytes → Bytes → Prop
  | refl (b : Bytes) : WsVariant sep b b
  | step {a b c : Bytes} : WsVariant sep a b → WsEdit sep b c → WsVariant sep a c
  | unstep {a b c : Bytes} : WsVariant sep a b → WsEdit sep c b → WsVariant sep a c

theorem scan_wsEdit (sep : UInt8) (hsep : sep ∉ fieldWs) {b b' : Bytes} (h : WsEdit sep b b') :
    scanItems sep fieldWs true b' = scanItems sep fieldWs true b := by
  cases h with
  | atStart w b hw => exact ws_at_start sep fieldWs true hsep w b hw
  | atEnd w b hw => exact ws_at_end sep fieldWs true hsep w b hw
  | beforeSep a w r hw => exact ws_before_sep sep fieldWs true hsep a w r hw
  | afterSep a w r hw => exact ws_after_sep sep fieldWs true hsep a w r hw
  | emptyElement a r => exact empty_element sep fieldWs hsep a r
  | leadingSep b => exact leading_separator sep fieldWs hsep b
  | trailingSep b => exact trailing_separator sep fieldWs hsep b

/-- WHITESPACE AND EMPTY ELEMENTS.  For every component table whose separator is not SP/HTAB (all of them:
`separators_are_not_whitespace`), two spellings that differ by any sequence of whitespace runs around separators / at
the ends and of empty elements are handed to the components identically (same slots, same left-over pairs, same
error). -/
theorem fields_ws_invariant (T : FieldTable) (hsep : T.sep ∉ fieldWs) {σ σ' : Bytes} (h : WsVariant T.sep σ σ') :
    parseFields T σ' = parseFields T σ := by
  induction h with
  | refl => rfl
  | step _ e ih => rw [← ih, parseFields_via_scan, parseFields_via_scan, scan_wsEdit T.sep hsep e]
  | unstep _ e ih => rw [← ih, parseFields_via_scan, parseFields_via_scan, scan_wsEdit T.sep hsep e]

/-! ## 3. the canonical spelling -/

/-- an element as `compose()` writes it: no separator inside, no whitespace at its ends, not empty, ASCII -/
def Clean (sep : UInt8) (i : Bytes) : Prop := sep ∉ i ∧ trim fieldWs i = i ∧ i ≠ [] ∧ isAscii i = true

/-- CANONICAL.  Clean elements joined by the separator and any whitespace run (`"a;b"`, `"a; b"` — the spelling
`compose()` produces) are handed to the components as the pairs they spell. -/
theorem fields_canonical (T : FieldTable) (hsep : T.sep ∉ fieldWs) (w : Bytes) (hw : ∀ x ∈ w, x ∈ fieldWs)
    (items : List Bytes) (hi : ∀ i ∈ items, Clean T.sep i) :
    parseFields T (List.intercalate (T.sep :: w) items) = parsePairs T (items.map nameValue) := by
  unfold parseFields
  cases items with
  | nil =>
    have : List.intercalate (T.sep :: w) ([] : List Bytes) = [] := by simp [List.intercalate]
    rw [this, canonical_empty T.sep fieldWs hsep]
  | cons i is =>
    rw [canonical_parses_back T.sep fieldWs w true hsep hw (i :: is) (by simp) hi]

/-! ## 4. order of the elements, unknown directives -/

/-- outcome relation on assignments: the same slots; the left-over pairs are those of the first plus `e`, in some
order (the `extension` attribute of MTA-STS / TLSRPT receives them; the other classes drop them); or the same error -/
def SameSlots (e : List Pair) : Except PErr Assignment → Except PErr Assignment → Prop
  | .ok a, .ok a' => a'.slots = a.slots ∧ a'.rest.Perm (a.rest ++ e)
  | .error x, .error x' => x' = x
  | _, _ => False

theorem parsePairs_perm_extra (T : FieldTable) (ps ps' e : List Pair) (hperm : ps'.Perm (ps ++ e))
    (hnames : (ps'.map (·.1)).Nodup)
    (he : ∀ p ∈ e, ∀ c ∈ T.comps, matchesComp c p = false)
    (hu : ∀ c ∈ T.comps, (ps.filter (matchesComp c)).length ≤ 1) :
    SameSlots e (parsePairs T ps) (parsePairs T ps') := by
  have hn : ((ps ++ e).map (·.1)).Nodup := (hperm.map _).nodup_iff.mp hnames
  have hn1 : (ps.map (·.1)).Nodup := by
    rw [List.map_append, List.nodup_append] at hn
    exact hn.1
  unfold parsePairs
  rw [odOfList_nodup ps hn1, odOfList_nodup ps' hnames]
  have := runComps_perm_extra T.comps ps ps' e hperm he hu
  revert this
  cases runComps T.comps ps <;> cases runComps T.comps ps' <;> simp [SameUpTo, SameSlots]

/-- ORDER AND UNKNOWN DIRECTIVES.  Let `items'` be the clean elements `items` in ANY order together with elements
`extra` whose names no component accepts (unknown directives), spelled with any whitespace runs after the separators.
If no name is spelled twice and no component accepts two of the names, every component is handed the same text as from
the canonical spelling of `items`, and the unknown elements are left over. -/
theorem fields_order_unknown_invariant (T : FieldTable) (hsep : T.sep ∉ fieldWs) (w w' : Bytes)
    (hw : ∀ x ∈ w, x ∈ fieldWs) (hw' : ∀ x ∈ w', x ∈ fieldWs) (items items' extra : List Bytes)
    (hperm : items'.Perm (items ++ extra))
    (hclean : ∀ i ∈ items', Clean T.sep i)
    (hnames : ((items'.map nameValue).map (·.1)).Nodup)
    (hextra : ∀ u ∈ extra, ∀ c ∈ T.comps, matchesComp c (nameValue u) = false)
    (hunamb : ∀ c ∈ T.comps, ((items.map nameValue).filter (matchesComp c)).length ≤ 1) :
    SameSlots (extra.map nameValue) (parseFields T (List.intercalate (T.sep :: w) items))
      (parseFields T (List.intercalate (T.sep :: w') items')) := by
  have hclean0 : ∀ i ∈ items, Clean T.sep i := fun i hi => hclean i (hperm.mem_iff.mpr (List.mem_append_left _ hi))
  rw [fields_canonical T hsep w hw items hclean0, fields_canonical T hsep w' hw' items' hclean]
  apply parsePairs_perm_extra T _ _ (extra.map nameValue)
  · simpa using hperm.map nameValue
  · exact hnames
  · intro p hp c hc
    obtain ⟨u, hu, rfl⟩ := List.mem_map.mp hp
    exact hextra u hu c hc
  · exact hunamb

/-! ## 5. case of the names -/

/-- outcome relation: the same slots, the left-over pairs under their new spelling -/
def SameSlotsRespelled (f : Bytes → Bytes) : Except PErr Assignment → Except PErr Assignment → Prop
  | .ok a, .ok a' => a'.slots = a.slots ∧ a'.rest = a.rest.map (respell f)
  | .error x, .error x' => x' = x
  | _, _ => False

/-- CASE.  For a class all of whose components compare names case-insensitively (`case_free_classes`), let the pairs
be respelled by any `f` that leaves the lower-cased name unchanged (`max-age`, `Max-Age`, `MAX-AGE`, `mAx-AgE`, a
different pattern for every name).  If no two names are equal up to case, every component is handed the same text. -/
theorem fields_case_invariant (T : FieldTable) (hci : ∀ c ∈ T.comps, c.mode = .caseInsensitive) (f : Bytes → Bytes)
    (hf : ∀ k, asciiLower (f k) = asciiLower k) (ps : List Pair) (hnd : (ps.map fun p => asciiLower p.1).Nodup) :
    SameSlotsRespelled f (parsePairs T ps) (parsePairs T (ps.map (respell f))) := by
  have key {g : Pair → Bytes} (l : List Pair) (hl : (l.map fun p => asciiLower (g p)).Nodup) : (l.map g).Nodup := by
    have : (l.map fun p => asciiLower (g p)) = (l.map g).map asciiLower := by simp
    rw [this] at hl
    exact nodup_of_nodup_map asciiLower _ hl
  have hn1 : (ps.map (·.1)).Nodup := key (g := (·.1)) ps hnd
  have hn2 : ((ps.map (respell f)).map (·.1)).Nodup := by
    rw [List.map_map]
    apply key (g := (·.1) ∘ respell f) ps
    simpa [respell, hf] using hnd
  unfold parsePairs
  rw [odOfList_nodup ps hn1, odOfList_nodup _ hn2]
  have := runComps_respell T.comps hci f hf ps hnd
  revert this
  cases runComps T.comps ps <;> cases runComps T.comps (ps.map (respell f)) <;> simp [SameRespelled, SameSlotsRespelled]

/-- the case theorem applies to HSTS, Expect-CT, Expect-Staple, HPKP and Cache-Control as they are in the live code -/
theorem case_free_tables_are_case_free :
    ∀ T ∈ fieldTables, T.cls ∈ ["HttpHeaderFieldValueCacheControlResponse", "HttpHeaderFieldValueExpectCT",
        "HttpHeaderFieldValueSTS", "HttpHeaderFieldValueExpectStaple", "HttpHeaderFieldValuePublicKeyPinning"] →
      ∀ c ∈ T.comps, c.mode = .caseInsensitive := by
  decide +kernel

/-! ## 6. the full statement -/

/-- the spellings of a list of clean elements `items` for table `T`: the canonical one; whitespace / empty-element
edits; any order of the elements behind the positional ones; additional elements no component accepts; another case
pattern for a name whose component the RFC declares case-insensitive -/
inductive Variants (T : FieldTable) (rfcInsensitive : FieldComp → Bool) : List Bytes → Bytes → Prop
  | canonical (items : List Bytes) : Variants T rfcInsensitive items (List.intercalate [T.sep, 0x20] items)
  | ws {items : List Bytes} {σ σ' : Bytes} : Variants T rfcInsensitive items σ → WsVariant T.sep σ σ' →
      Variants T rfcInsensitive items σ'
  | order {items items' : List Bytes} {σ : Bytes} : items'.Perm items → Variants T rfcInsensitive items' σ →
      Variants T rfcInsensitive items σ
  | unknown {items : List Bytes} {σ : Bytes} (u : Bytes) : Clean T.sep u →
      (∀ c ∈ T.comps, matchesComp c (nameValue u) = false) → Variants T rfcInsensitive (items ++ [u]) σ →
      Variants T rfcInsensitive items σ
  | recase {pre post : List Bytes} {σ : Bytes} (i i' : Bytes) (c : FieldComp) : c ∈ T.comps → rfcInsensitive c = true →
      matchesComp { c with mode := .caseInsensitive } (nameValue i) = true →
      asciiLower (nameValue i').1 = asciiLower (nameValue i).1 → (nameValue i').2 = (nameValue i).2 → Clean T.sep i' →
      Variants T rfcInsensitive (pre ++ i' :: post) σ → Variants T rfcInsensitive (pre ++ i :: post) σ

/-- THE FULL STATEMENT of the header layer: for every class of the live table, every spelling in `Variants` of a list
of clean elements with pairwise different names (up to case) is handed to the components like the canonical spelling.
NOT proved in this generality, and FALSE today for Content-Type and Set-Cookie (`matches_rfc_except`: their `charset`,
`boundary`, `Expires`, `Domain`, `Path`, `SameSite` components compare exactly) and for the positional first element.
Proved parts: `fields_ws_invariant` (the `ws` constructor, every class), `fields_canonical`,
`fields_order_unknown_invariant` (`order` and `unknown`, every class, elements spelled once), `fields_case_invariant`
(`recase`, the five classes of `case_free_classes`). -/
def fields_spelling_invariant_full : Prop :=
  ∀ T ∈ fieldTables, ∀ (rfc : FieldComp → Bool) (items : List Bytes) (σ : Bytes),
    (∀ i ∈ items, Clean T.sep i) → ((items.map fun i => asciiLower (nameValue i).1).Nodup) →
    Variants T rfc items σ →
    ∃ e, SameSlots e (parseFields T (List.intercalate [T.sep, 0x20] items)) (parseFields T σ)

/-- the part of the full statement that is about whitespace and empty elements only, for every live class -/
theorem fields_spelling_invariant_partial (T : FieldTable) (hT : T ∈ fieldTables) (items : List Bytes) {σ : Bytes}
    (h : WsVariant T.sep (List.intercalate [T.sep, 0x20] items) σ) :
    parseFields T σ = parseFields T (List.intercalate [T.sep, 0x20] items) := by
  have hall := separators_are_not_whitespace
  rw [List.all_eq_true] at hall
  have hsep : T.sep ∉ fieldWs := by
    have := hall T hT
    simpa using this
  exact fields_ws_invariant T hsep h

/-! ## non-vacuity -/

-- HSTS as it is in the live table
def stsTable : FieldTable :=
  ⟨"HttpHeaderFieldValueSTS", 59,
    [⟨"max_age", "max-age", .timeDelta, false, .caseInsensitive⟩,
     ⟨"include_subdomains", "includeSubDomains", .option, true, .caseInsensitive⟩,
     ⟨"preload", "preload", .option, true, .caseInsensitive⟩], none⟩

example : stsTable ∈ fieldTables := by decide +kernel

-- "max-age=1; includeSubDomains" and " MAX-AGE=1 ;;\tincludesubdomains ; x=y;" are handed over alike: max_age "1",
-- include_subdomains present, preload default; the unknown pair x=y is left over
example : parseFields stsTable
    [0x6d, 0x61, 0x78, 0x2d, 0x61, 0x67, 0x65, 0x3d, 0x31, 0x3b, 0x20, 0x69, 0x6e, 0x63, 0x6c, 0x75, 0x64, 0x65, 0x53, 0x75,
     0x62, 0x44, 0x6f, 0x6d, 0x61, 0x69, 0x6e, 0x73] = .ok ⟨[.value [0x31], .flag, .absent], []⟩ := by decide +kernel
example : parseFields stsTable
    [0x20, 0x4d, 0x41, 0x58, 0x2d, 0x41, 0x47, 0x45, 0x3d, 0x31, 0x20, 0x3b, 0x3b, 0x09, 0x69, 0x6e, 0x63, 0x6c, 0x75, 0x64,
     0x65, 0x73, 0x75, 0x62, 0x64, 0x6f, 0x6d, 0x61, 0x69, 0x6e, 0x73, 0x20, 0x3b, 0x20, 0x78, 0x3d, 0x79, 0x3b] =
    .ok ⟨[.value [0x31], .flag, .absent], [([0x78], some [0x79])]⟩ := by decide +kernel
-- a mandatory directive missing: InvalidValue
example : parseFields stsTable [0x70, 0x72, 0x65, 0x6c, 0x6f, 0x61, 0x64] = .error .invalidValue := by decide +kernel
-- the deviation is real in the model: `Charset=utf-8` leaves the charset component at its default …
example : (fieldTables.find? (·.cls == "HttpHeaderFieldValueContentType")).map
    (fun T => parseFields T [0x74, 0x2f, 0x68, 0x3b, 0x43, 0x68, 0x61, 0x72, 0x73, 0x65, 0x74, 0x3d, 0x75]) =
    some (.ok ⟨[.value [0x74, 0x2f, 0x68], .absent, .absent], [([0x43, 0x68, 0x61, 0x72, 0x73, 0x65, 0x74], some [0x75])]⟩) := by
  decide +kernel
-- … while `charset=u` fills it
example : (fieldTables.find? (·.cls == "HttpHeaderFieldValueContentType")).map
    (fun T => parseFields T [0x74, 0x2f, 0x68, 0x3b, 0x63, 0x68, 0x61, 0x72, 0x73, 0x65, 0x74, 0x3d, 0x75]) =
    some (.ok ⟨[.value [0x74, 0x2f, 0x68], .value [0x75], .absent], []⟩) := by
  decide +kernel
-- NameValuePair: quotes are stripped, a run of "=" is one separator, a later duplicate overwrites in place
example : nameValue [0x61, 0x3d, 0x22, 0x78, 0x22] = ([0x61], some [0x78]) := by decide
example : nameValue [0x61, 0x3d, 0x3d, 0x62, 0x3d, 0x63] = ([0x61], some [0x62, 0x3d, 0x63]) := by decide
example : nameValue [0x61] = ([0x61], none) := by decide
example : odOfList [([0x61], some [0x31]), ([0x62], none), ([0x61], some [0x32])] = [([0x61], some [0x32]), ([0x62], none)] := by
  decide
-- the hypotheses of the order/unknown theorem are satisfiable: three clean elements, an unknown one
example : Clean 59 [0x6d, 0x61, 0x78, 0x2d, 0x61, 0x67, 0x65, 0x3d, 0x31] := by
  refine ⟨by decide, by decide, by decide, by decide⟩
example : ∀ c ∈ stsTable.comps, matchesComp c (nameValue [0x78, 0x3d, 0x79]) = false := by decide +kernel
-- `WsVariant` relates different spellings: "a;b" and "a ;b"
example : WsVariant 59 [0x61, 0x3b, 0x62] [0x61, 0x20, 0x3b, 0x62] :=
  .step (.refl _) (WsEdit.beforeSep [0x61] [0x20] [0x62] (by decide))

end Cp.C18
